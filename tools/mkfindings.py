#!/venv/bin/python
"""Rewrites the block between <!-- FINDINGS:BEGIN --> and <!-- FINDINGS:END --> in DESIGN.md from known/*.json
and seeded/*/meta.json."""
import glob, json, os, re
V = os.path.dirname(os.path.dirname(os.path.abspath(__file__)))
lines = []
lines.append('### 7.1 Genuine defects repaired in /repo (`fix:` commits; status `fixed` in known/<ID>.json; specs replayed from regress/<ID>/)\n')
fixed, known = [], []
for f in sorted(glob.glob(f'{V}/known/C*.json')):
    for e in json.load(open(f))['findings']:
        if e.get('alias_of'):
            continue
        (fixed if e['status'] == 'fixed' else known).append(e)
for e in fixed:
    w = re.sub(r'^fixed: property=C\d+ (\S+ )?', '', e['what']) if e['what'].startswith('fixed:') else e['what']
    lines.append(f"* **{e['property']}** `{e.get('commit','')}` — {e['what'].replace('fixed: property='+e['property']+' ','')}")
lines.append('\n### 7.2 Known findings (genuine defects recorded, not repaired; each announced by a `KNOWN-FINDING:` line)\n')
for e in known:
    lines.append(f"* **{e['property']}** `{e['id']}` (sub-check `{e.get('subcheck')}`, clause prefix `{e.get('clause')}`" + (f", predicate `{e['predicate']}`" if e.get('predicate') else '') + f") — {e['what']}")
lines.append('\n### 7.3 Seeded defects (independent sub-agents, property text only) and which check caught them\n')
lines.append('Each change was written by a fresh sub-agent that saw only the property text and its own git worktree of /repo '
             '(nothing from /verif), had to keep the pinned and the upstream tests green, and had to need something specific to '
             'manifest. `mN` with N = 1..3 is the first round (all 20 properties); N = 4..6 a second round for the twelve properties '
             'whose first version had missed at least one change (those agents were also told which changes had been used, to force '
             'other code sites). Every change was confirmed in a scratch copy (demo fails with it, passes without it) before it was '
             'kept under `seeded/<id>/` (patch.diff, demo.py, meta.json, violations.txt). "yes, after the check was extended" means the '
             'first version of the check missed it and the check was then generalised (never special-cased to the change); the column '
             'shows the verdict of the CURRENT quick check (`tools/reseed.sh`), run against a scratch copy of the current /repo with the '
             'patch applied.\n')
lines.append('| seed | change | needs | caught by quick check | clauses |')
lines.append('|---|---|---|---|---|')
for d in sorted(glob.glob(f'{V}/seeded/*/')):
    m = json.load(open(d + 'meta.json'))
    viol = ''
    if os.path.exists(d + 'violations.txt'):
        cl = sorted({re.search(r'clause=(\S+)', l).group(1) for l in open(d + 'violations.txt') if 'clause=' in l})
        viol = ', '.join(f'`{c}`' for c in cl[:4]) + (' …' if len(cl) > 4 else '')
    caught = m.get('caught_after') or ('yes' if m.get('caught') else 'NO')
    lines.append(f"| {os.path.basename(d[:-1])} | {str(m.get('what',''))[:160]} | {str(m.get('needs',''))[:140]} | {caught} | {viol} |")
block = '\n'.join(lines)
p = f'{V}/DESIGN.md'
s = open(p).read()
a, b = '<!-- FINDINGS:BEGIN -->', '<!-- FINDINGS:END -->'
if a not in s:
    s += f'\n{a}\n{b}\n'
s = s[: s.index(a) + len(a)] + '\n' + block + '\n' + s[s.index(b):]
open(p, 'w').write(s)
print('DESIGN.md findings block:', len(fixed), 'fixed,', len(known), 'known,', len(glob.glob(f'{V}/seeded/*/')), 'seeded')
