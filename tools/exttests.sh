#!/bin/bash
# Extended regression (not the pinned baseline): the repository tests that become runnable with
# warnings not turned into errors (pandas 3 deprecation warnings break collection otherwise).
# Usage: tools/exttests.sh [pytest paths...]; compares failures with tools/exttests_expected_failures.txt
paths="$@"
[ -z "$paths" ] && paths="tests/model tests/modeling tests/nonmem tests/workflows tests/internals tests/basic tests/tools"
log=$(mktemp /var/tmp/pv-ext.XXXXXX.log)
cd /repo && timeout 3000 /venv/bin/python -m pytest -q -p no:cacheprovider -W ignore --timeout=900 --continue-on-collection-errors -n 12 $paths > $log 2>&1
tail -1 $log
grep "^FAILED\|^ERROR" $log | sed 's/ - .*//' | sort > $log.f
comm -23 $log.f /verif/tools/exttests_expected_failures.txt > $log.new
if [ -s $log.new ]; then echo "NEW FAILURES:"; cat $log.new; rc=1; else echo "no new failures"; rc=0; fi
rm -f $log $log.f $log.new
exit $rc
