#!/bin/bash
# tools/probe.sh <ID> <patch-or-python-edit-script> [extra pv.run args]
# Applies a deliberate breakage to a scratch copy of /repo/src and runs the quick check against it.
id=$1; patch=$2; shift 2
d=/var/tmp/pv-probe-$$
mkdir -p $d && cp -r /repo/src $d/src
if [[ "$patch" == *.py ]]; then (cd $d && /venv/bin/python $patch) || { echo "probe edit failed"; rm -rf $d; exit 3; }
else (cd $d && patch -p1 -s < $patch) || { echo "patch failed"; rm -rf $d; exit 3; }; fi
cd /verif
PYTHONPATH=$d/src:/verif:/verif/.deps /venv/bin/python -c "import pharmpy; assert pharmpy.__file__.startswith('$d'), pharmpy.__file__"
PYTHONPATH=$d/src:/verif:/verif/.deps /venv/bin/python -m pv.run $id --tier quick --no-evidence "$@" 2>&1 | grep -v conda | tail -8
rc=${PIPESTATUS[0]}
rm -rf $d
exit $rc
