#!/venv/bin/python
"""Regenerates /verif/MANIFEST.json from the table below and validates it."""
import json, os, sys
V = os.path.dirname(os.path.dirname(os.path.abspath(__file__)))
sys.path.insert(0, V)
from tools.manifest_table import CHECKS, NOT_APPLICABLE, ENGINES, NOTES  # noqa

def cmd(pid, tier):
    return f'env PYTHONPATH=/verif:/verif/.deps /venv/bin/python -m pv.run {pid} --tier {tier}'

m = dict(
    version=1,
    setup_cmd='sh /verif/tools/setup.sh',
    hooks=dict(
        guard='PHARMPY_VERIF',
        enable='no hooks in /repo are needed: all interposition (threading primitives, fcntl, file system) is done from the harness; checks import the editable install of /repo/src directly',
        baseline_off_cmd='sh /verif/tools/baseline.sh',
        source_commits=[],
        add_only=True,
    ),
    engines=ENGINES,
    checks=[],
    notes=NOTES,
    not_applicable=NOT_APPLICABLE,
)
for c in CHECKS:
    pid = c['id']
    m['checks'].append(dict(
        property_id=pid,
        quick_cmd=cmd(pid, 'quick'),
        thorough_cmd=cmd(pid, 'thorough'),
        evidence_file=f'/verif/evidence/{pid}.json',
        replay_cmd_template=f'env PYTHONPATH=/verif:/verif/.deps /venv/bin/python -m pv.run {pid} --replay {{path}}',
        engine=c.get('engine', 'pv'),
        level_claimed=dict(category=c['level'], text=c['text'], design_ref=c.get('design_ref', f'DESIGN.md section 3, {pid}')),
        level_note=c['note'],
        technique=c['technique'],
    ))
with open(os.path.join(V, 'MANIFEST.json'), 'w') as f:
    json.dump(m, f, indent=1)
try:
    import jsonschema
    jsonschema.validate(m, json.load(open('/root/.vp/MANIFEST.schema.json')))
    print('MANIFEST.json valid;', len(m['checks']), 'checks,', len(NOT_APPLICABLE), 'not_applicable')
except ImportError:
    print('jsonschema not available; written without validation')
