#!/venv/bin/python
"""Coverage-guided fuzzing of C03(a): bytes -> latin-1 -> NMTranParser().parse -> str must give the text back.

Separate process on purpose: atheris has to instrument pharmpy *before* it is first imported, which the
pv.run workers (which import check modules and pharmpy freely) cannot guarantee.

    /venv/bin/python /verif/tools/fuzz_c03.py [--runs N] [--corpus seeded|empty|both] [--max-len L]

`-runs` and `-seed` of libFuzzer derive from VERIF_SEED (default 1) and VERIF_TIER (quick: 20000 runs per
corpus, thorough: 600000).  Two campaigns: one seeded with the checked-in control streams
(/repo/tests/testdata/nonmem/**/*.mod|*.ctl), one starting from an empty corpus.  The oracle sits inside
the target; a mismatch writes /verif/replays/C03/fuzz-<sha>.json (replayable: `python -m pv.run C03 --replay`,
sub-check pp_text) and makes the process exit 1.  Exit 0: no mismatch; 2: harness problem.

Exceptions of parse() are "not accepted" (C03 quantifies over accepted texts) and are ignored by the target.
"""

import argparse
import collections
import glob
import hashlib
import json
import os
import shutil
import sys
import tempfile

sys.path.insert(0, '/verif/.deps')
sys.path.insert(0, '/verif')

import atheris  # noqa: E402

if 'pharmpy' in sys.modules:
    print('HARNESS-ERROR pharmpy imported before instrumentation')
    sys.exit(2)

with atheris.instrument_imports(include=['pharmpy.model.external.nonmem', 'pharmpy.internals.parse']):
    from pharmpy.model.external.nonmem.nmtran_parser import NMTranParser

from lark.exceptions import UnexpectedInput  # noqa: E402

from pharmpy.model import ModelSyntaxError  # noqa: E402

REPO = os.environ.get('PV_REPO', '/repo')
TALLY = collections.Counter()
FOUND = []


def oracle(text):
    """-> None | mismatch description"""
    try:
        cs = NMTranParser().parse(text)
    except (UnexpectedInput, ModelSyntaxError) as e:
        TALLY['not-accepted:' + type(e).__name__] += 1
        return None
    except RecursionError:
        TALLY['not-accepted-internal:RecursionError'] += 1
        return None
    except Exception as e:  # noqa: listed, not flagged
        TALLY['not-accepted-internal:' + type(e).__name__] += 1
        return None
    out = str(cs)
    TALLY['accepted'] += 1
    if out != text:
        return out
    return None


def target(data):
    text = data.decode('latin-1')
    out = oracle(text)
    if out is not None:
        h = hashlib.sha256(data).hexdigest()[:16]
        d = '/verif/replays/C03'
        os.makedirs(d, exist_ok=True)
        path = os.path.join(d, f'fuzz-{h}.json')
        with open(path, 'w') as f:
            json.dump(dict(property='C03', subcheck='pp_text', clause='parse_print:mismatch', observed=out, expected=text, spec=dict(text=text)), f, indent=1)
        FOUND.append(path)
        print(f'VIOLATION property=C03 replay={path}')
        raise RuntimeError('C03 parse/print mismatch')  # makes libFuzzer stop and keep the input


def campaign(name, seeds, runs, seed, max_len):
    work = tempfile.mkdtemp(prefix=f'fuzz_c03_{name}_', dir='/verif/.scratch' if os.path.isdir('/verif/.scratch') else None)
    corpus = os.path.join(work, 'corpus')
    os.makedirs(corpus)
    for i, p in enumerate(seeds):
        shutil.copy(p, os.path.join(corpus, f'seed{i:03d}'))
    pid = os.fork()
    if pid == 0:
        # libFuzzer owns the process (it calls exit itself): one child per campaign
        os.chdir(work)
        argv = [sys.argv[0], corpus, f'-runs={runs}', f'-seed={seed}', f'-max_len={max_len}', '-print_final_stats=1', '-verbosity=0', '-timeout=30', '-rss_limit_mb=4096']
        atheris.Setup(argv, target)
        atheris.Fuzz()  # does not return: libFuzzer exits the process itself
        os._exit(0)
    _, status = os.waitpid(pid, 0)
    found = glob.glob(os.path.join(work, 'crash-*'))
    shutil.rmtree(work, ignore_errors=True)
    code = os.waitstatus_to_exitcode(status)
    return code, bool(found)


def main():
    ap = argparse.ArgumentParser()
    ap.add_argument('--runs', type=int)
    ap.add_argument('--corpus', default='both', choices=['seeded', 'empty', 'both'])
    ap.add_argument('--max-len', type=int, default=4096)
    args = ap.parse_args()
    try:
        base = int(os.environ.get('VERIF_SEED', '1') or '1')
    except ValueError:
        base = 1
    tier = os.environ.get('VERIF_TIER', 'quick')
    runs = args.runs if args.runs is not None else (20000 if tier == 'quick' else 600000)
    files = sorted(glob.glob(os.path.join(REPO, 'tests/testdata/nonmem/**/*.mod'), recursive=True) + glob.glob(os.path.join(REPO, 'tests/testdata/nonmem/**/*.ctl'), recursive=True))
    if len(files) < 50:
        print('HARNESS-ERROR checked-in control streams not found')
        return 2
    # self check of the oracle: every checked-in stream that parses prints back identically
    for p in files:
        with open(p, 'rb') as f:
            if oracle(f.read().decode('latin-1')) is not None:
                print(f'VIOLATION property=C03 checked-in file does not round-trip: {p}')
                return 1
    if not TALLY['accepted']:
        print('HARNESS-ERROR nothing accepted')
        return 2
    rc = 0
    plans = []
    if args.corpus in ('seeded', 'both'):
        plans.append(('seeded', files))
    if args.corpus in ('empty', 'both'):
        plans.append(('empty', []))
    for k, (name, seeds) in enumerate(plans):
        seed = int(hashlib.sha256(f'{base}:C03:fuzz:{name}'.encode()).hexdigest()[:7], 16) + 1
        code, crashed = campaign(name, seeds, runs, seed, args.max_len)
        print(f'fuzz_c03 campaign={name} runs={runs} seed={seed} exit={code} mismatch={crashed}')
        if crashed or code not in (0,):
            rc = 1 if crashed else max(rc, 2)
    print(f'fuzz_c03 done rc={rc}')
    return rc


if __name__ == '__main__':
    sys.exit(main())
