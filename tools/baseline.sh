#!/bin/bash
# Runs the repository's pinned baseline (guard off) and compares with BASELINE.json stable_pass.
out=$(mktemp /var/tmp/pv-baseline.XXXXXX.xml)
cd /repo && /venv/bin/python -m pytest -ra -q -p no:cacheprovider --timeout=900 --continue-on-collection-errors --junitxml=$out >/dev/null 2>&1
/venv/bin/python - "$out" <<'P'
import json,sys,xml.etree.ElementTree as ET
b=json.load(open('/root/.vp/BASELINE.json'))
want=set(b['stable_pass'])
t=ET.parse(sys.argv[1])
passed=set()
for tc in t.iter('testcase'):
    if not any(c.tag in('failure','error','skipped') for c in tc):
        passed.add(f"{tc.get('classname')}::{tc.get('name')}")
missing=sorted(want-passed)
print(f'baseline: want={len(want)} passed_now={len(passed)} missing={len(missing)}')
for m in missing[:20]: print('  MISSING',m)
sys.exit(1 if missing else 0)
P
rc=$?
rm -f $out
exit $rc
