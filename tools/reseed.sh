#!/bin/bash
# tools/reseed.sh <ID-mN> [extra pv.run args]: re-runs the property's quick check against a kept seeded mutant
# (seeded/<ID-mN>/patch.diff applied to a scratch copy of the current /repo/src) and records the outcome.
name=$1; shift
id=${name%%-*}
dir=/verif/seeded/$name
d=/var/tmp/pv-reseed-$$
rm -rf $d; mkdir -p $d && cp -r /repo/src $d/src
if ! (cd $d && patch -p1 -s --no-backup-if-mismatch < $dir/patch.diff); then echo "RESEED $name: patch does not apply to current tree"; rm -rf $d; exit 3; fi
cd /verif
PYTHONPATH=$d/src /venv/bin/python $dir/demo.py > /dev/null 2>&1; rc_with=$?
PYTHONPATH=/repo/src /venv/bin/python $dir/demo.py > /dev/null 2>&1; rc_without=$?
start=$(date +%s)
PYTHONPATH=$d/src:/verif:/verif/.deps /venv/bin/python -m pv.run $id --tier quick --no-evidence "$@" > $d/check.log 2>&1; rc=$?
end=$(date +%s)
grep -v conda $d/check.log | grep "^violation" | cut -c1-200 > $d/viol.txt
echo "RESEED $name: demo with=$rc_with without=$rc_without check rc=$rc in $((end-start))s; $(wc -l < $d/viol.txt) buckets"
/venv/bin/python - "$dir/meta.json" "$rc" "$((end-start))" "$rc_with" "$rc_without" "$*" <<'P'
import json,sys
p,rc,secs,rw,rwo,args=sys.argv[1:7]
m=json.load(open(p))
if 'first_check_caught' not in m: m['first_check_caught']=m.get('caught')
m['caught']=(int(rc)==1); m['check_rc']=int(rc); m['check_seconds']=int(secs); m['demo_rc_with_mutant']=int(rw); m['demo_rc_without']=int(rwo)
if m['caught'] and not m['first_check_caught']: m['caught_after']='yes, after the check was extended (missed by the first version)'
if args: m['check_args']=args
json.dump(m,open(p,'w'),indent=1)
P
[ -s $d/viol.txt ] && cp $d/viol.txt $dir/violations.txt
rm -rf $d /verif/replays/$id
