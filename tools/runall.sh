#!/bin/bash
# tools/runall.sh [tier] [seed] [ids...]: runs the registered checks sequentially; prints one summary line each
tier=${1:-quick}; seed=${2:-1}; shift 2
ids="$@"; [ -z "$ids" ] && ids="C01 C02 C03 C04 C05 C06 C07 C08 C09 C10 C11 C12 C13 C14 C15 C16 C17 C18 C19 C20"
cd /verif
for id in $ids; do
  [ -f pv/checks/$(echo $id | tr A-Z a-z).py ] || continue
  s=$(date +%s)
  VERIF_SEED=$seed PYTHONPATH=/verif:/verif/.deps /venv/bin/python -m pv.run $id --tier $tier > /var/tmp/runall_${id}_${tier}_${seed}.log 2>&1; rc=$?
  e=$(date +%s)
  echo "$id rc=$rc $((e-s))s $(grep -v conda /var/tmp/runall_${id}_${tier}_${seed}.log | grep "tier=$tier" | sed 's/.*evaluations/evaluations/')"
  grep -v conda /var/tmp/runall_${id}_${tier}_${seed}.log | grep "^violation\|HARNESS\|^NOTE" | cut -c1-200 | head -8
done
