#!/venv/bin/python
"""Adds every unlisted C02 bucket found in replays/C02 to known/C02.json (after manual review of the printed list)."""
import glob, json, re, sys
EXPL = {
 'code:compartment-count': 'the generated code ($MODEL record / library ADVAN) does not have the compartments of the in-memory model',
 'code:required-pk-parameter-not-defined': 'the generated $PK does not define a rate constant / PK parameter that the chosen ADVAN/TRANS requires',
 'semantics:bioavailability-index': 'the bioavailability parameter Fn of the generated code refers to another compartment than the bioavailability of the in-memory model (stale index after the compartments were renumbered)',
 'semantics:lag-time-index': 'the lag time parameter ALAGn of the generated code refers to another compartment than the lag time of the in-memory model',
 'semantics:dose-compartment': 'the doses of the in-memory model enter other compartments than the default dose compartment of the generated code (no CMT column)',
 'semantics:ode-rhs': 'the differential equations implied by the generated rate constants differ from those of the in-memory model',
 'semantics:variable': 'a variable (typically F: the scaling parameter Sn keeps a stale compartment index) has a different value in the generated code than in the in-memory model',
 'semantics:dependent-variable': 'Y of the generated code differs from Y of the in-memory model',
 'semantics:duration': 'the duration parameter Dn of the generated code differs from the infusion duration of the in-memory model',
 'semantics:rate': 'the rate parameter Rn of the generated code differs from the infusion rate of the in-memory model',
 'code:not-interpretable': 'the generated control stream is not a complete NONMEM model',
 'code:undefined-variable': 'the generated code reads a variable that nothing defines',
 'code:theta': 'a $THETA record of the generated code differs from the parameter of the in-memory model',
 'code:omega': 'the $OMEGA records of the generated code differ from the random-effect matrix of the in-memory model',
 'code:sigma': 'the $SIGMA records of the generated code differ from the random-effect matrix of the in-memory model',
 'code:rv-count': 'the number of etas/epsilons of the generated code differs from the in-memory model',
 'dataset:': 'dataset columns and generated code are inconsistent',
 'roundtrip:': 'the model read back from the written files differs from the in-memory model',
 'code-generation': 'generating the code raises an internal error',
 'write_model': 'write_model raises an internal error',
 'read-back': 'the written model cannot be read back',
}
k = json.load(open('/verif/known/C02.json'))
have = [e['clause'] for e in k['findings'] if 'clause' in e]
n = 0
for f in sorted(glob.glob('/verif/replays/C02/*.json')):
    o = json.load(open(f)); cl = o['clause']
    if any(cl.startswith(h) for h in have):
        continue
    ex = next((v for kk, v in EXPL.items() if cl.startswith(kk)), 'generated code and in-memory model disagree')
    hist = (o['detail'] or '').split('\n')[0]
    m = re.search(r'@([a-z_]+)', cl)
    fn = m.group(1) if m else '?'
    k['findings'].append(dict(property='C02', id='C02-' + re.sub(r'[^A-Za-z0-9]+', '-', cl)[:70].strip('-'), status='known', subcheck='history', clause=cl, what=f'{fn}: {ex} (e.g. history {hist}; observed {str(o["observed"])[:80]}, expected {str(o["expected"])[:80]})', spec=o['spec']))
    have.append(cl); n += 1
    print('ADDED', cl, '|', hist)
json.dump(k, open('/verif/known/C02.json', 'w'), indent=1)
print('added', n, 'total', len(k['findings']))
