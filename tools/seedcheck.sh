#!/bin/bash
# tools/seedcheck.sh <ID> <mutant-dir> <N> [extra pv.run args]
# Confirms a seeded mutant (demo fails with / passes without) on a scratch copy of the CURRENT /repo tree and
# runs the property's quick check against it. Saves the kept mutant under /verif/seeded/<ID>-m<N>/.
id=$1; dir=$2; n=$3; shift 3
d=/var/tmp/pv-seed-$$
rm -rf $d; mkdir -p $d && cp -r /repo/src $d/src && cp -r /repo/tests $d/tests 2>/dev/null
if ! (cd $d && patch -p1 -s --no-backup-if-mismatch < $dir/m$n.diff); then echo "SEED $id m$n: patch does not apply to current tree"; rm -rf $d; exit 3; fi
cd /verif
PYTHONPATH=$d/src /venv/bin/python $dir/m${n}_demo.py > $d/demo_with.log 2>&1; rc_with=$?
PYTHONPATH=/repo/src /venv/bin/python $dir/m${n}_demo.py > $d/demo_without.log 2>&1; rc_without=$?
echo "SEED $id m$n: demo with mutant rc=$rc_with, without rc=$rc_without"
start=$(date +%s)
PYTHONPATH=$d/src:/verif:/verif/.deps /venv/bin/python -m pv.run $id --tier quick --no-evidence "$@" > $d/check.log 2>&1; rc=$?
end=$(date +%s)
grep -v conda $d/check.log | grep "^violation\|^VIOLATION\|tier=quick\|HARNESS" | cut -c1-220 | head -12
echo "SEED $id m$n: check rc=$rc in $((end-start))s"
out=/verif/seeded/$id-m$n
mkdir -p $out; cp $dir/m$n.diff $out/patch.diff; cp $dir/m${n}_demo.py $out/demo.py
/venv/bin/python - "$dir/m$n.json" "$out/meta.json" "$rc_with" "$rc_without" "$rc" "$((end-start))" "$id" <<'P'
import json,sys,subprocess
src,dst,rw,rwo,rc,secs,pid=sys.argv[1:8]
try: m=json.load(open(src))
except Exception: m={}
viol=[l for l in open('/dev/null')]
m.update(dict(property=pid, demo_rc_with_mutant=int(rw), demo_rc_without=int(rwo), check_cmd=f'pv.run {pid} --tier quick (PYTHONPATH=<scratch copy of /repo/src with patch applied>)', check_rc=int(rc), check_seconds=int(secs), caught=(int(rc)==1)))
json.dump(m,open(dst,'w'),indent=1)
P
grep -v conda $d/check.log | grep "^violation" | cut -c1-200 > $out/violations.txt
rm -rf $d /verif/replays/$id
exit 0
