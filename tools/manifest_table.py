"""Single source for MANIFEST.json (see tools/mkmanifest.py)."""

PBT = 'property-based testing (Hypothesis-generated JSON case specs, sharded over 16 processes, explicit reference oracle, structural shrinking to a replay file)'

CHECKS = [
    dict(
        id='C10', level='exploration',
        technique='property-based testing: generated straight-line programs vs reference interpreter / reaching-definitions oracle',
        text='Random straight-line statement programs (redefinitions, piecewise, optional ODE) are checked against an independent reference interpreter and reaching-definition analysis for full_expression, dependencies, find_assignment, direct_dependencies, reassign, subs, remove_symbol_definitions and remove_unused_parameters_and_rvs; thousands of programs per run. Exploration only: absence of violations outside the generated shapes is not shown.',
        note='Trusted: sympy free_symbols and numeric evaluation by the harness tree walker; reference dependency sets are cross-checked by numeric perturbation.',
    ),
    dict(
        id='C05', level='exploration',
        technique='property-based testing: generated compartment graphs and builder-operation histories vs an independent reference model (numeric evaluation of matrix/equations, round trips)',
        text='Generated systems (1-6 compartments, symbolic/quotient/Michaelis-Menten rates, outputs, doses, inputs, lag/F) and histories of builder operations are frozen after every step and compared with a pharmpy-free reference model: eqs == M*A+u entrywise, one compartment order for names/amounts/eqs/inputs, mass balance, to_compartmental_system back conversion, to_dict/from_dict/json and subs round trips, equality totality. Exploration: thousands of systems per run.',
        note='Trusted: sympy, the numeric evaluator pv/irsem.py, the reference model pv/ref/cmtref.py. One numeric sample point per case. Back conversion asserted only for rate shapes to_compartmental_system supports.',
    ),
    dict(
        id='C11', level='exploration',
        technique='property-based testing: histories of join/unjoin/index/subs/+ vs reference covariance table; generated matrices for PSD repair and conversion inverses; UCP round trip on generated models',
        text='Random-variable collections (<=6 variables) go through generated operation histories checked after every step against a pharmpy-free reference (names, blocks, levels, variances/covariances, block-diagonal composition, needless reordering); symmetric matrices in PD / indefinite / near-singular classes check validity repair (valid values bit-identical, result PSD, not farther than eigenvalue clipping); sd/corr and cov/corr/prec/se conversions are pairwise inverses; calculate_parameters_from_ucp(scale, 0.1) reproduces initial estimates.',
        note='Trusted: numpy eigen decomposition; no verdict within 1e-10 relative of singularity; tolerances 1e-9 relative (scaled by condition number for inverses).',
    ),
    dict(
        id='C15', level='exploration',
        technique='schedule-owning deterministic scheduler (virtual threads, simulated fcntl kernel) with Hypothesis-drawn programs+schedules, plus exhaustive DFS over all schedules of the 2-thread x <=2-request catalogue; oracle = reference reader-writer lock specification',
        text='lock.py is loaded from the working tree as fresh module instances per simulated process with threading primitives and fcntl replaced; every primitive operation is a yield point and the next thread is chosen by the generated choice sequence, so schedules are inputs that shrink and replay. Safety (exclusion, hold never lost), liveness at terminal states (no lost wake-up), refusal clauses and quiescence bookkeeping are checked against a reference RW-lock spec; the finite catalogue of 2-thread programs is explored over all schedules (state caching).',
        note='The kernel is a model of POSIX record locks validated against the real kernel on fixed non-blocking sequences (selfcheck); real GIL/kernel timing is not exercised; exhaustive holds modulo the DFS state-merge assumption (can only lose states, never raise a false alarm).',
    ),
    dict(
        id='C17', level='exploration',
        technique='property-based testing: generated workflow construction scripts vs reference ordered DAG and topological evaluator; execution through dask threaded dispatcher with 1/2/8 threads',
        text='Construction scripts (add_task, insert_workflow N:N/N:1/1:N, replace_task, +, insert_context; <=12 tasks) are replayed on pharmpy and on a pharmpy-free reference DAG; after every builder operation tasks/edges must agree, and executing the workflow (dask dict directly, local_dask.run, execute_workflow with Null/LocalDirectory context) must return the reference value with every task called once and after its predecessors.',
        note='dask thread interleavings are not owned (purity of the task family + repetition with 1/2/8 threads only); distributed dispatcher only in thorough.',
    ),
    dict(
        id='C19', level='exploration',
        technique='property-based testing: generated candidate sets / strictness expressions / replicate tables vs numpy-scipy reference formulas quoted from the docs',
        text='AIC/BIC variants and LRT on models with varied parameter counts, strictness expressions from the documented grammar against an own evaluator, rank_models eligibility/order/ties/NaN handling, and bootstrap/cdd/shrinkage/delta-method/simeval statistics against direct numpy/scipy references.',
        note='Only documented formulas are asserted (listed in pv/ref/stats.py); clauses are skipped where the docs are ambiguous (LRT df with differing numbers of fixed parameters, mixed BIC for dead parameters).',
    ),
    dict(
        id='C01', level='exploration',
        technique='property-based testing: grammar-generated NM-TRAN control streams, differential against an independent reference NM-TRAN interpreter (text -> values) with numeric evaluation of the model IR',
        text='Control streams generated from a grammar of NM-TRAN ($PRED or $PK/$ERROR with ADVAN1-4,10-12 x TRANS, IF/ELSEIF/ELSE, functions, operator spellings, $THETA/$OMEGA/$SIGMA layouts incl. BLOCK/SAME/SD/CORR/CHOLESKY/repeats/FIX positions, layout noise) are read by pharmpy; parameters, random-effect covariance and block structure, every definitely-assigned variable, Y, the ODE right-hand side per NONMEM compartment, dose compartment, lag and bioavailability are compared at sampled inputs with the meaning the reference interpreter (own recursive-descent Fortran-precedence parser + PREDPP library table) gives the same text. Sub-checks: pred, advan, struct (ADVAN5/7 with $MODEL and Kij/KiTj names, $DES incl. flows that are sums of rates), blocks (block IFs with every branch visited), logic (flat programs with unparenthesised and parenthesised mixtures of .AND./.OR./.NOT. three levels deep over relations that are true at about half of the sample points). Violations are attributed to switchable generator shapes by ablation so that known findings exclude exactly their shape; most programs carry few such shapes and the logic programs none.',
        note='The reference interpreter is my reading of the NONMEM guides (no NONMEM available); its parser is cross-checked against the generator AST on every case. Models are read without a dataset, so CMT/RATE-dependent routing is decided on the code-generation side (C02). Tolerance 1e-9 relative (1e-6 for TRANS5/6 rate formulas).',
    ),
    dict(
        id='C13', level='exploration',
        technique='property-based testing: generated data-file texts / $INPUT / IGNORE-ACCEPT lists vs a reference reader written from docs/NONMEM.rst; write_model/read_model round trip of generated DataFrames',
        text='Data files built from the documented lexical forms (separators, NULL items, Fortran numbers, 24-character limit, comment lines, short/long rows, DROP/SKIP, synonyms, filters) are read through read_nonmem_dataset and through complete models and compared with a pharmpy-free reference reader, rule by rule (named clauses); numeric DataFrames survive write_model/read_model bit-exactly.',
        note='Only rules stated in docs/NONMEM.rst are asserted; corners the docs leave open are rejected (counted). TIME/DATE columns, CRLF, several $DATA records not generated.',
    ),
    dict(
        id='C14', level='exploration',
        technique='property-based testing: generated event tables vs a plain per-individual chronological reference walker (no pandas)',
        text='Event tables (1-6 individuals, dose/observation interleavings with ties, ADDL/II, SS, EVID 0-4, two routes, optional MDV/EVID/CMT/RATE columns) attached to basic PK models; every derivation (observations, doses, MDV, EVID, dose id, time after dose, ADDL expansion, ADMID/CMT, baselines, time-varying covariates, counts) must equal the reference walker, and column-adding functions must keep records, values, dtypes and order.',
        note='Records whose value the docstrings leave open (before first dose, simultaneous doses, ties across resets) are not compared, only counted; the walker reproduces the numbers asserted by the repository tests on pheno.dta / pef.csv (selfcheck).',
    ),
    dict(
        id='C16', level='fault_enumeration',
        technique='fault injection: in-process interposition on file-system calls, every crash point (with torn writes) and ENOSPC point of generated workloads enumerated; oracle = reference model of committed state after restart',
        text='Workloads of store/retrieve/log/annotation operations over models sharing datasets run fault-free (faithfulness) and then once per file-system operation k with a simulated process death at k (later operations fail too; descriptors closed without flush; locks released as by process death) or an ENOSPC error; a fresh database/context is opened and checked: no partial entry visible as complete, earlier entries intact, other models (incl. same dataset) still storable, log rows intact. The simulated crash is validated against real forked children killed with os._exit at the same operation.',
        note='Crash granularity is the intercepted Python-level system call (buffered writes become one write with a generated torn prefix); OS page-cache reordering is not modelled.',
    ),
    dict(
        id='C20', level='exploration',
        technique='property-based testing: reference writer of NONMEM output files (ext/phi/cov/cor/coi/$TABLE/lst stub) -> parse; JSON round trip of generated results',
        text='Generated parameter configurations and values are rendered by a pharmpy-free writer in NONMEM fixed-width formats (validated by regenerating the checked-in pheno_real files byte for byte) and read back through NONMEMTableFile and read_modelfit_results; values, indices, labels, designated special rows, parameter renaming, cov/cor/coi/se relations at printed precision, individual estimates; ModelfitResults survive to_json/read_results.',
        note='Expected cell values are float(printed field); relations between matrices use tolerances derived from 6 printed digits. lst variants limited to five status-line templates.',
    ),
    dict(
        id='C02', level='exploration',
        technique='property-based testing: histories of modeling transformations; differential between the in-memory model (numeric IR semantics) and the generated control stream interpreted by an independent reference NM-TRAN interpreter; write/read round trip',
        text='Histories (NONMEM start model from the corpus x 1-5 public modeling transformations) are applied; after every step the generated code is parsed by the reference interpreter and compared with the in-memory model: thetas and omega/sigma matrices, ODE right-hand sides under a consistent compartment numbering (the reported map first, any permutation otherwise), lag/bioavailability/rate/duration parameter indices on dosing compartments, default dose compartment, RATE column flags, every variable both sides define and Y (per DVID); the final model is written, read back and compared (parameters, dataset, function). A violation is keyed by the oracle clause and the transformation that introduced it (the oracle held before that step). Second sub-check `generated`: generated flat $PRED programs (IF lines and IF/ELSEIF/ELSE blocks over previously assigned variables, written ELSE X = 0 branches) edited statement by statement through the public API (rename_symbols, one statement replaced, one inserted, an initial estimate changed); after every edit the reference meaning of the regenerated code must equal the in-memory model.',
        note='Reference interpreter = my reading of the NONMEM guides; ODEs compared through right-hand sides at sampled amounts (no integration); transformations that raise are dropped from the history (their errors belong to C06/C08).',
    ),
    dict(
        id='C09', level='exploration',
        technique='property-based testing: model extensions (covariate effects, IIV/IOV, eta transformations, allometry, error models, BLQ, transit/absorption setters) vs formulas transcribed from the docstrings, numeric probing incl. finite differences',
        text='For corpus models (plus prior transformations) each extension is applied with generated arguments and the model function after is compared with the documented formula applied to the model function before (individual parameters, Y at eps=0, dY/d eps coefficients by finite differences, rates and durations of transit/absorption models); neutrality at the reference point is asserted only where the documented formula is neutral; removers must restore the function; has_* detectors must agree with setters.',
        note='Formulas are those quoted from the docstrings in pv/ref/formulas.py; where a docstring does not pin the centring statistic every documented reading is accepted and counted. Amounts are inputs (no integration).',
    ),
    dict(
        id='C12', level='exploration',
        technique='property-based testing: round trips of generated components/models through to_dict/JSON/generic code; model hash compared across fresh interpreters with different PYTHONHASHSEED and across construction histories / single-field edits',
        text='Generated parameters, random variables, statements incl. compartmental systems, datainfo, execution steps, expressions and whole models must survive to_dict/from_dict and JSON; generic code must parse back to an equal model; recipes are rebuilt in 4 fresh interpreters (PYTHONHASHSEED 0,1,2,random) and must give one ModelHash; equal content built by different histories (permuted builder operations, subs/rename there and back, inverse transformations, metadata changes) must give equal keys and single-field edits different keys.',
        note='Same content = pharmpy == plus equal datasets plus to_dict equal up to mapping/graph order and 0 vs 0.0; sub-process timeouts are harness errors, never violations.',
    ),
    dict(
        id='C03', level='exploration',
        technique='property-based testing + grammar-based generation: byte-exact parse/print round trip on generated, grammar-derived and mutated checked-in control streams; no-op update_source; single-edit frame preservation against an own record splitter; separate atheris fuzz script',
        text='str(parse(T)) == T for every accepted text from five sources (generated streams with layout noise, bodies drawn from pharmpy\'s own lark grammars, parameter-record layouts, line/token mutations of the 91 checked-in streams, literal texts); reading and regenerating an unmodified model reproduces the text; after one of 20 edits every record that cannot express the edit is byte-identical and in order, comments/verbatim lines inside edited code records and untouched values inside edited parameter records keep their spelling; option records ($TABLE, $SUBROUTINES, $ESTIMATION, $SIZES) are generated over several lines (indented or not, comments on any line) and after option-removing/adding edits every untouched option, comment and line keeps its place and the re-read model has exactly the options the edit implies (sub-check table_layout enumerates all two-line layouts of a $TABLE record).',
        note='Parse refusals are counted, not flagged (the property quantifies over accepted texts). Coverage-guided fuzzing (atheris) is a separate script tools/fuzz_c03.py because instrumentation must precede the first pharmpy import; its findings replay through the pp_text sub-check.',
    ),
    dict(
        id='C04', level='exploration',
        technique='property-based testing: generated $THETA/$OMEGA/$SIGMA layouts x edit histories; write -> re-read comparison, independent reference parse of the written text, token-level spelling comparison',
        text='Parameter records in generated layouts (repeats, bounds, FIX positions, DIAGONAL/BLOCK/SAME, SD/CORR/CHOLESKY, name comments) embedded in a minimal model go through 1-4 public-API edits; the regenerated code is re-read by pharmpy (parameters, random-variable structure, names) and parsed by the reference parser (numbers), and unchanged numbers must keep their token spelling.',
        note='BLOCK VALUES and comma-separated omega values are excluded (unreadable: C01 findings); known low-severity spelling/name findings are only raised when nothing else is wrong with a case.',
    ),
    dict(
        id='C06', level='exploration',
        technique='property-based testing over the whole public API table: deep snapshot of the argument before/after each call, well-formedness walk of returned models, equality/hash/copy laws',
        text='213 model-taking functions of pharmpy.modeling / tools helpers are called with arguments derived from the current model on corpus models and reachable variants that share one DataFrame object; a deep snapshot (dataset bytes, dtypes, identity, datainfo, parameters, rvs, statements, steps, code) of the argument and of a second model sharing the DataFrame must be unchanged whether the call returns or raises; returned models must be well formed (bounds, unique names, every symbol defined, code producible) and == must be consistent with hash and copy.',
        note='Functions needing external tools/minutes are excluded with reasons (pv/api_table.py); the snapshot is taken twice before each call as a self-check.',
    ),
    dict(
        id='C07', level='exploration',
        technique='property-based testing: metamorphic relation model-function-before == model-function-after for refactorings; closed-form ODE solutions checked against the right-hand side; expression extractors/evaluators vs sequential execution and finite differences',
        text='16 function-preserving refactorings (mu-referencing, make_declarative, cleanup, greekify, rename_symbols, generic/NONMEM conversion, dataset unload/load, remove unused, join/split, replace fixed thetas ...) on corpus models, variants and generated $PRED/ADVAN models must keep y, individual parameters and ODE right-hand sides at sampled inputs under the declared renaming; solve_ode_system must satisfy the ODE and dose initial condition; get_*_expression, gradient expressions and evaluate_* agree with sequential execution and central differences.',
        note='Each case runs in a forked child so interpreter crashes (symengine) become findings instead of killing the shard; solve_ode restricted to <=2 states (sympy dsolve cost).',
    ),
    dict(
        id='C08', level='exploration',
        technique='property-based testing: sequences of structural feature requests (MFL alphabet + add/remove functions); detectors, idempotence, documented reversibility, totality, code generation',
        text='Sequences of <=4 (thorough <=6) feature requests on corpus PK models: each request returns a model or a documented refusal (anything else is not-total); the detector of the requested category reports exactly the request, other category groups are unchanged except documented couplings, the dose still reaches central, no undefined symbols; f(f(m)) is function-equivalent to f(m); documented inverse pairs restore the function up to initial estimates; update_source succeeds.',
        note='Reversibility only asserted for histories starting at basic models without extensions; couplings inside the absorption group are classified (documented/undocumented), not flagged.',
    ),
    dict(
        id='C18', level='exploration',
        technique='property-based testing: grammar-generated MFL strings vs an independent regex parser + explicit set expansion; documented stepwise rules re-implemented; exhaustive enumeration of partitions/subsets for n<=6',
        text='MFL strings (all feature kinds, lists, ranges, wildcards, LET references) are parsed by pharmpy and by a pharmpy-free reference; print/parse round trip, +, -, ==, contain_subset and least_number_of_transformations agree with set operations on explicit expansions; convert_to_funcs / all_combinations / exhaustive enumerate each combination once with unique names; exhaustive_stepwise / reduced_stepwise paths lie between the documented rule set and the documented+commented code rules, each path once, steps independent of path emptiness; partitions (Bell numbers), subsets and the iivsearch brute-force builders are enumerated completely for n<=6 (exhaustive sub-checks).',
        note='Only documented laws are asserted; covariate wildcards compared symbolically (no model-based expansion).',
    ),
]

ALL = ['C%02d' % i for i in range(1, 21)]
_claimed = {c['id'] for c in CHECKS}
NOT_APPLICABLE = [
    dict(property_id=p, reason='check not built yet in this round (planned, see DESIGN.md section 8); not claimed until its check exists and is quiet on the unchanged tree')
    for p in ALL if p not in _claimed
]
ENGINES = [
    dict(name='pv', path='/verif/pv', serves_properties=sorted(_claimed), kind_free_text='Hypothesis-driven generated-input search with reference oracles; runner pv/run.py'),
]
NOTES = 'All checks: exit 0 held, 1 VIOLATION, 2 harness error. VERIF_SEED and VERIF_TIER honoured. Known findings in /verif/known_findings.json.'
