"""Single source for MANIFEST.json (see tools/mkmanifest.py)."""

PBT = 'property-based testing (Hypothesis-generated JSON case specs, sharded over 16 processes, explicit reference oracle, structural shrinking to a replay file)'

CHECKS = [
    dict(
        id='C10', level='exploration',
        technique='property-based testing: generated straight-line programs vs reference interpreter / reaching-definitions oracle',
        text='Random straight-line statement programs (redefinitions, piecewise, optional ODE) are checked against an independent reference interpreter and reaching-definition analysis for full_expression, dependencies, find_assignment, direct_dependencies, reassign, subs, remove_symbol_definitions and remove_unused_parameters_and_rvs; thousands of programs per run. Exploration only: absence of violations outside the generated shapes is not shown.',
        note='Trusted: sympy free_symbols and numeric evaluation by the harness tree walker; reference dependency sets are cross-checked by numeric perturbation.',
    ),
]

ALL = ['C%02d' % i for i in range(1, 21)]
_claimed = {c['id'] for c in CHECKS}
NOT_APPLICABLE = [
    dict(property_id=p, reason='check not built yet in this round (planned, see DESIGN.md section 8); not claimed until its check exists and is quiet on the unchanged tree')
    for p in ALL if p not in _claimed
]
ENGINES = [
    dict(name='pv', path='/verif/pv', serves_properties=sorted(_claimed), kind_free_text='Hypothesis-driven generated-input search with reference oracles; runner pv/run.py'),
]
NOTES = 'All checks: exit 0 held, 1 VIOLATION, 2 harness error. VERIF_SEED and VERIF_TIER honoured. Known findings in /verif/known_findings.json.'
