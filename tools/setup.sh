#!/bin/sh
# Offline setup: hypothesis must be importable in /venv; atheris (optional) goes to /verif/.deps
set -e
cd /verif
/venv/bin/python -c "import hypothesis" 2>/dev/null || /venv/bin/pip install --no-index --find-links /opt/veriftools/wheels hypothesis
mkdir -p /verif/.deps
/venv/bin/python -c "import sys; sys.path.insert(0,'/verif/.deps'); import atheris" 2>/dev/null || /venv/bin/pip install -q --no-index --find-links /opt/veriftools/wheels --target /verif/.deps atheris || echo "atheris not installed (optional)"
/venv/bin/python -m compileall -q pv >/dev/null
echo setup ok
