"""C19 -- Ranking, selection criteria and result statistics follow their definitions.

Sub-checks
  criteria   : calculate_aic / calculate_bic (4 types) / lrt.* on models derived from pheno by
               parameter-count changing transformations, against pv/ref/stats.py
  strictness : is_strictness_fulfilled on expressions generated from docs/strictness.rst and
               synthetic ModelfitResults, against an own evaluator
  ranking    : rank_models (+ summarize_tool) on <= 8 candidates with synthetic results
  statistics : bootstrap / cdd / simeval calculate_results, eta & individual shrinkage,
               se_delta_method against direct numpy formulas
"""

from __future__ import annotations

import math
import os
import warnings

import numpy as np
from hypothesis import strategies as st

from ..core import CaseInfo, HarnessError, Reject, SubCheck, Violation, guard
from ..irsem import close
from ..ref import stats as ref

PROPERTY = 'C19'
LEVEL = 'exploration'
RULE = (
    'Models: pheno (load_example_model) changed by <=3 of 23 parameter-count / classification changing operations '
    '(peripheral compartment, remove/add IIV, fix/unfix, zero-fix omega, joint distribution, covariate effect, IOV, '
    'absorption, lag time, combined error, upper bound, dataset subsets, a theta shared by an eta-carrying and a non-eta '
    'individual parameter). criteria: -2LL on a 0.25 grid, all BIC types, '
    'LRT functions on a (parent, child) pair and a candidate list; non-trivial = the model differs from pheno in '
    'estimated/fixed/random counts or the pair has df != 0. strictness: expression ASTs (depth<=3) over all 17 documented '
    'criteria rendered fully parenthesised, results with grid valued sigdigs/RSE/gradients(0,NaN)/estimates near bounds/'
    'covariance matrices; non-trivial = >=2 atoms or a parameter-type specific atom. ranking: base + <=8 candidates drawn '
    'from a pool of <=4 derived models, OFVs on a 0.25 grid incl. NaN/ties/equal to base, rank types ofv/aic/bic(4)/lrt, '
    'cutoffs, penalties, parent trees, strictness expressions; non-trivial = tie, NaN ofv, negative df, delta == cutoff, or '
    'a strictness-failing candidate with the best value. statistics: <=50 replicates x <=6 parameters etc.; non-trivial = '
    '>=3 replicates/individuals and >=2 parameters. Distinct = hash of the spec.'
)
ASSUMPTIONS = [
    'numpy/scipy (chi2, svd, det, solve) are trusted; the reference never imports pharmpy (checked by the self-check)',
    'mixed BIC: n_random/n_fixed are not defined in the docstring; the reference uses random = estimated omegas + estimated '
    'thetas of individual parameters with a non-degenerate eta, fixed = the rest; the self-check confirms that this '
    'reproduces all four numbers of the calculate_bic docstring example',
    'LRT: df = difference of len(model.parameters); asserted only for pairs whose number of *fixed* parameters is equal '
    '(so that "parameter count" is unambiguous); p_value asserted for df > 0 only',
    'rank_models: cutoff=None / pair for lrt use the defaults found in the code (0.05 forward / 0.01 backward; pair = '
    '(forward, backward)); lrt is not combined with penalties; eligibility is not asserted where the documentation is '
    'silent (base fails strictness and a cutoff is given; LRT parent fails strictness)',
    'tie ranks: only order consistency is asserted (equal value <=> equal rank, better value <=> smaller rank, best rank = 1), '
    'not dense vs competition numbering',
    'percentiles: linear interpolation at position (n-1)p of the sorted sample (bootstrap.rst states linear interpolation; '
    'its "f = [np]" remark is read as the fractional part of that position)',
    'stderr / shrinkage use the sample standard deviation (ddof=1): reproduces the calculate_eta_shrinkage docstring example',
    'synthetic results are self-consistent the way the NONMEM parser produces them: warnings contain final_zero_gradient iff a '
    'gradient is 0 or NaN; RSE/gradients/estimates are indexed by the estimated parameters',
]

# ==========================================================================================
# models


def _ops():
    import pharmpy.modeling as pm

    def has_eta(m, name):
        return name in m.random_variables.etas.names

    def joint_with(m, name):
        for d in m.random_variables.etas:
            if name in d.names and len(d.names) > 1:
                return True
        return False

    def need(cond):
        if not cond:
            raise ValueError('not applicable')

    def subset(m, n):
        df = m.dataset
        ids = sorted(df['ID'].unique())[:n]
        need(len(ids) == n and len(df['ID'].unique()) > n)
        return m.replace(dataset=df[df['ID'].isin(ids)].reset_index(drop=True))

    def zero_iivvc(m):
        need(has_eta(m, 'ETA_VC') and not joint_with(m, 'ETA_VC'))
        return pm.fix_parameters_to(m, {'IIV_VC': 0})

    def joint(m):
        need(len(m.random_variables.iiv.names) >= 2)
        for p in m.random_variables.iiv.parameter_names:
            need(not (m.parameters[p].fix and m.parameters[p].init == 0))
        return pm.create_joint_distribution(m)

    def share(m, target, theta, drop_eta=None):
        """multiply the (first) definition of `target` by the population parameter `theta`
        (statement edit through Model.replace); optionally the parameter first loses its eta"""
        from pharmpy.basic import Expr

        need(theta in m.parameters.names)
        if drop_eta is not None and has_eta(m, drop_eta):
            m = pm.remove_iiv(m, drop_eta)
        sset = m.statements
        idx = next((i for i, st_ in enumerate(sset) if hasattr(st_, 'symbol') and str(st_.symbol) == target), None)
        need(idx is not None)
        need(theta not in {str(x) for x in sset[idx].expression.free_symbols})
        new = sset[idx].replace(expression=sset[idx].expression * Expr.symbol(theta))
        return m.replace(statements=sset[:idx] + new + sset[idx + 1:])

    def shared_qp1(m):
        if 'POP_QP1' not in m.parameters.names:
            m = pm.add_peripheral_compartment(m)
        need('POP_QP1' in m.parameters.names and not has_eta(m, 'ETA_QP1'))
        return share(m, 'QP1', 'POP_CL')

    def fix(names):
        def f(m):
            need(all(n in m.parameters.names for n in names))
            return pm.fix_parameters(m, names)

        return f

    return [
        ('periph', lambda m: pm.add_peripheral_compartment(m)),
        ('rm_iiv_vc', lambda m: (need(has_eta(m, 'ETA_VC')), pm.remove_iiv(m, 'ETA_VC'))[1]),
        ('rm_iiv_cl', lambda m: (need(has_eta(m, 'ETA_CL') and 'POP_CLAPGR' not in m.parameters.names), pm.remove_iiv(m, 'ETA_CL'))[1]),
        ('fix_cov', fix(['COVAPGR'])),
        ('fix_iivvc', fix(['IIV_VC'])),
        ('fix_popcl', fix(['POP_CL'])),
        ('joint', joint),
        ('cov_cl_apgr', lambda m: (need('POP_CLAPGR' not in m.parameters.names), pm.add_covariate_effect(m, 'CL', 'APGR', 'exp'))[1]),
        ('iiv_qp1', lambda m: (need('POP_QP1' in m.parameters.names and not has_eta(m, 'ETA_QP1')), pm.add_iiv(m, 'QP1', 'exp'))[1]),
        ('zero_iivvc', zero_iivvc),
        ('fix_sigma', fix(['SIGMA'])),
        ('unfix_all', lambda m: (need(len(m.parameters.fixed) > 0), pm.unfix_parameters(m, m.parameters.names))[1]),
        ('subset20', lambda m: subset(m, 20)),
        ('subset7', lambda m: subset(m, 7)),
        ('iov', lambda m: (need(has_eta(m, 'ETA_CL') and 'OMEGA_IOV_1' not in m.parameters.names), pm.add_iov(m, 'FA1', ['ETA_CL']))[1]),
        ('absorption', lambda m: (need('POP_MAT' not in m.parameters.names), pm.set_first_order_absorption(m))[1]),
        ('lagtime', lambda m: (need('POP_MDT' not in m.parameters.names), pm.add_lag_time(m))[1]),
        ('combined', lambda m: (need('SIGMA' in m.parameters.names), pm.set_combined_error_model(m))[1]),
        ('ub_popvc', lambda m: (need('POP_VC' in m.parameters.names), pm.set_upper_bounds(m, {'POP_VC': 5.0}))[1]),
        # one population parameter shared by two individual parameters, one with and one without eta
        ('shared_cl_v', lambda m: share(m, 'TVV', 'POP_CL', drop_eta='ETA_VC')),
        ('shared_vc_cl', lambda m: (need('POP_CLAPGR' not in m.parameters.names), share(m, 'TVCL', 'POP_VC', drop_eta='ETA_CL'))[1]),
        ('shared_cl_qp1', shared_qp1),
        # three peripheral compartments: pharmpy switches to rate constants K12 = Q/V ..., so the class of
        # the Q thetas depends on the reading (exercises the admissible-set oracle for the mixed BIC)
        ('periph3', lambda m: (need('POP_QP1' not in m.parameters.names),
                               pm.add_peripheral_compartment(pm.add_peripheral_compartment(pm.add_peripheral_compartment(m))))[1]),
    ]


N_OPS = 23
_OPS = None
_MODELS = {}  # tuple of op names -> ModelInfo


class ModelInfo:
    def __init__(self, model, ops):
        self.model = model
        self.ops = ops
        self.facts = model_facts(model)
        self._named = {}

    def named(self, name):
        if name not in self._named:
            self._named[name] = self.model.replace(name=name)
        return self._named[name]


def build_model(op_idx) -> ModelInfo:
    """pheno + the applicable ones of <=3 operations (inapplicable ones are skipped)"""
    global _OPS
    if _OPS is None:
        _OPS = _ops()
        assert len(_OPS) == N_OPS
    if () not in _MODELS:
        from pharmpy.modeling import load_example_model

        _MODELS[()] = ModelInfo(load_example_model('pheno'), ())
    cur = _MODELS[()]
    for k in list(op_idx)[:3]:
        name, fn = _OPS[k % N_OPS]
        key = cur.ops + (name,)
        if key in _MODELS:
            nxt = _MODELS[key]
        else:
            try:
                with warnings.catch_warnings():
                    warnings.simplefilter('ignore')
                    nxt = ModelInfo(fn(cur.model), key)
            except Exception:  # operation not applicable to this model: skipped (not under test)
                nxt = None
            _MODELS[key] = nxt
        if nxt is not None:
            cur = nxt
    return cur


def model_facts(model):
    """Plain description of the model for the reference -- own traversal of parameters, random
    variable distributions and statements (no pharmpy.modeling analysis function is used)."""
    from pharmpy.model import Assignment

    rvs = model.random_variables
    eta_names, eps_names = set(), set()
    omega, sigma, iiv_omega = set(), set(), set()
    degenerate = set()
    pars = {p.name: p for p in model.parameters}
    for dist in rvs:
        pn = list(dist.parameter_names)
        if dist.level.upper() == 'RUV':
            eps_names |= set(dist.names)
            sigma |= set(pn)
        else:
            eta_names |= set(dist.names)
            omega |= set(pn)
            if dist.level.upper() == 'IIV':
                iiv_omega |= set(pn)
            if len(dist.names) == 1 and pn and pn[0] in pars and pars[pn[0]].fix and pars[pn[0]].init == 0:
                degenerate |= set(dist.names)
    random_etas = eta_names - degenerate
    theta = {n for n in pars if n not in omega and n not in sigma}
    deps = {}
    random_thetas = set()
    direct_thetas = set()
    direct_syms = set()
    live = set()
    deps_at_ode = {}
    before = True
    for s in model.statements:
        if not isinstance(s, Assignment):
            before = False  # individual parameters are defined before the ODE system
            deps_at_ode = dict(deps)
            for x in s.free_symbols:
                live |= deps.get(str(x), {str(x)})
            continue
        d = set()
        for x in s.expression.free_symbols:
            d |= deps.get(str(x), {str(x)})
        deps_before = dict(deps)
        deps[str(s.symbol)] = d
        if before and d & random_etas:
            random_thetas |= d & theta
            # narrow reading: the eta (or a theta-free carrier of it, e.g. an IOV term) occurs in
            # the defining expression itself, not only through another individual parameter
            direct = False
            for x in s.expression.free_symbols:
                if str(x) == str(s.symbol):
                    # redefinition of the same individual parameter (e.g. CL = CL*CLAPGR)
                    direct = direct or str(x) in direct_syms
                    continue
                dx = deps_before.get(str(x), {str(x)})
                if dx & random_etas and not dx & theta:
                    direct = True
            if direct:
                direct_thetas |= d & theta
                direct_syms.add(str(s.symbol))
            else:
                direct_syms.discard(str(s.symbol))
    # individual parameters = assigned symbols the ODE system / the statements after it read
    roots = set()
    seen_ode = False
    for s in model.statements:
        fs = s.free_symbols if not isinstance(s, Assignment) else (s.expression.free_symbols if seen_ode else ())
        if not isinstance(s, Assignment):
            seen_ode = True
        for x in fs:
            if str(x) in deps_at_ode:
                roots.add(str(x))
    with_eta_roots, no_eta_roots = set(), set()
    for r_ in roots:
        d = deps_at_ode[r_]
        (with_eta_roots if d & random_etas else no_eta_roots).update(d & theta)
    shared = sorted(n for n in with_eta_roots & no_eta_roots if not pars[n].fix)
    for y in model.dependent_variables.keys():
        live |= deps.get(str(y), {str(y)})
    dead = sorted(n for n in theta if not pars[n].fix and n not in live)
    df = model.dataset
    params = []
    for p in model.parameters:
        kind = 'omega' if p.name in omega else ('sigma' if p.name in sigma else 'theta')
        params.append(
            dict(name=p.name, fix=bool(p.fix), init=float(p.init), lower=float(p.lower), upper=float(p.upper), kind=kind,
                 iiv=p.name in iiv_omega, with_eta=p.name in random_thetas, with_eta_direct=p.name in direct_thetas,
                 dead=p.name in dead)
        )
    return dict(
        params=params,
        n_ind=int(df['ID'].nunique()),
        n_obs=int((df['AMT'] == 0).sum()),  # pheno has no MDV/EVID column: observation <=> no dose
        etas=[n for n in rvs.etas.names],
        eta_omegas=[str(e) for e in rvs.etas.covariance_matrix.diagonal()],
        n_all=len(params),
        n_fixed_flag=sum(1 for p in params if p['fix']),
        dead=dead,
        shared=shared,
        # both readings of "theta of a parameter with a random effect" agree and no dead parameter:
        # the mixed BIC is a single value; otherwise it must be one of the admissible partitions
        mixed_ambiguous=bool(dead) or {n for n in random_thetas if not pars[n].fix} != {n for n in direct_thetas if not pars[n].fix},
    )


# ==========================================================================================
# synthetic ModelfitResults

TERM = [None, 'rounding_errors', 'maxevals_exceeded']
GRADS = [1.5, -2.0, 0.0, 0.25, math.nan, 3.0, -0.5, 1.0]

RES = st.fixed_dictionaries(
    dict(
        ofv=st.integers(-400, 4000),
        ofv_nan=st.sampled_from([1] * 19 + [0]),
        ms=st.booleans(),
        tc=st.sampled_from([0, 1, 2]),
        sd=st.sampled_from(list(range(16))),
        rse=st.lists(st.sampled_from(list(range(30))), min_size=1, max_size=8),
        rse_mode=st.sampled_from([2] * 12 + [1, 1, 1, 0]),
        grad=st.lists(st.sampled_from([0, 1, 3, 5, 6, 7, 0, 1, 3, 2, 4]), min_size=1, max_size=8),
        grad_mode=st.sampled_from([1] * 15 + [0]),
        est=st.lists(st.sampled_from([0, 0, 0, 0, 1, 2]), min_size=1, max_size=8),
        cov=st.lists(st.integers(-6, 6), min_size=1, max_size=12),
        cov_mode=st.sampled_from([1, 2, 3, 4, 5, 1, 2, 3, 4, 5, 3, 4, 5, 3, 4, 0]),
        warn_enb=st.booleans(),
    )
)


def make_results(info: ModelInfo, r, full=True):
    """-> (ModelfitResults, sfacts)"""
    import pandas as pd
    from pharmpy.workflows.results import ModelfitResults

    est_params = [p for p in info.facts['params'] if not p['fix']]
    names = [p['name'] for p in est_params]
    n = len(names)
    ofv = math.nan if r['ofv_nan'] == 0 else r['ofv'] / 4.0
    tc = TERM[r['tc'] % 3]
    sd = math.nan if r['sd'] % 16 == 15 else (r['sd'] % 16) / 2.0
    # RSE
    rse = None
    if r['rse_mode'] % 8 != 0:
        rl = r['rse']
        rse = {nm: round((rl[i % len(rl)] % 30 + 1) * 0.05, 2) for i, nm in enumerate(names)}
        if r['rse_mode'] % 8 == 1 and names:
            rse[names[rl[0] % n]] = math.nan
    grad = None
    if r['grad_mode'] % 8 != 0:
        gl = r['grad']
        grad = {nm: GRADS[gl[i % len(gl)] % len(GRADS)] for i, nm in enumerate(names)}
    est = {}
    el = r['est']
    for i, p in enumerate(est_params):
        mode = el[i % len(el)] % 3
        v = p['init']
        if mode == 1 and p['lower'] > -math.inf:
            v = 0.0005 if p['lower'] == 0 else p['lower'] * (1 - 0.001)
        elif mode == 2 and p['upper'] < math.inf:
            v = p['upper'] * (1 - 0.001)
        est[p['name']] = float(v)
    cov = None
    if r['cov_mode'] % 6 != 0 and n > 0:
        cl = r['cov']
        d = np.array([2.0 ** (cl[i % len(cl)]) for i in range(n)])
        mat = np.diag(d)
        if r['cov_mode'] % 6 >= 3:
            L = np.zeros((n, n))
            k = 0
            for i in range(n):
                for j in range(i):
                    L[i, j] = cl[k % len(cl)] / 8.0
                    k += 1
            L += np.eye(n)
            mat = L @ mat @ L.T
            mat = (mat + mat.T) / 2
        cov = mat
    fzg = grad is not None and any(v == 0 or v != v for v in grad.values())
    if grad is None:
        fzg = r['grad_mode'] % 16 == 8  # always False for the generated range; kept for shrunk specs
    warn = []
    if r['warn_enb']:
        warn.append('estimate_near_boundary')
    if fzg:
        warn.append('final_zero_gradient')
    kw = dict(ofv=ofv, minimization_successful=bool(r['ms']), termination_cause=tc, significant_digits=sd, warnings=warn)
    if full:
        kw['parameter_estimates'] = pd.Series(est, dtype=float, name='estimates')
        if rse is not None:
            kw['relative_standard_errors'] = pd.Series(rse, dtype=float, name='RSE')
        if grad is not None:
            kw['gradients'] = pd.Series(grad, dtype=float)
        if cov is not None:
            kw['covariance_matrix'] = pd.DataFrame(cov, index=names, columns=names)
    else:
        if rse is not None:
            kw['relative_standard_errors'] = pd.Series(rse, dtype=float, name='RSE')
    res = ModelfitResults(**kw)
    sfacts = dict(
        ofv=ofv, minimization_successful=bool(r['ms']), termination_cause=tc, sigdigs=sd,
        cond=ref.cond_number(cov) if (cov is not None and full) else None,
        rse=rse, grad=grad if full else None, warn_fzg=fzg, est=est,
        kinds={p['name']: p['kind'] for p in info.facts['params']},
        bounds={p['name']: (p['lower'], p['upper']) for p in info.facts['params']},
    )
    return res, sfacts


# ==========================================================================================
# sub-check 1: criteria

ALPHAS = [0.05, 0.01, 0.001, 0.1, 0.5]
OPLIST = st.lists(st.integers(0, N_OPS - 1), min_size=0, max_size=3)

CRIT = st.fixed_dictionaries(
    dict(
        ops=OPLIST,
        ll=st.integers(-2000, 8000),
        extra=OPLIST,
        rel=st.booleans(),
        ofv2=st.one_of(st.none(), st.integers(-80, 80)),
        alpha=st.integers(0, len(ALPHAS) - 1),
        many=st.lists(st.tuples(OPLIST, st.one_of(st.none(), st.integers(-80, 80))).map(list), min_size=0, max_size=5),
        many_same=st.booleans(),
    )
)

BIC_TYPES = ['mixed', 'fixed', 'random', 'iiv']


def _num(x, clause, what=''):
    if isinstance(x, (bool, np.bool_)) or not isinstance(x, (int, float, np.integer, np.floating)):
        raise Violation(f'{clause}:type', observed=repr(x)[:200], detail=what)
    return float(x)


def run_criteria(spec):
    from pharmpy.modeling import calculate_aic, calculate_bic
    from pharmpy.modeling import lrt

    info = build_model(spec['ops'])
    ll = spec['ll'] / 4.0
    facts = info.facts
    evals = 0
    classes0 = []
    desc = f'pheno+{list(info.ops)}'
    got = _num(guard(calculate_aic, info.model, ll, allowed=(), clause='aic'), 'aic')
    exp = ref.aic(ll, facts)
    evals += 1
    if not close(got, exp):
        raise Violation('aic:value', observed=got, expected=exp, detail=f'{desc} -2LL={ll} n_estimated={ref.n_estimated(facts)}')
    for t in BIC_TYPES:
        if t == 'mixed' and facts['mixed_ambiguous']:
            # dead parameter / derived rate constants: the classification of some thetas is open, but
            # every estimated parameter is counted exactly once (a dead one at most once)
            got = _num(guard(calculate_bic, info.model, ll, type=t, allowed=(), clause='bic[mixed]'), 'bic[mixed]')
            adm = ref.bic_mixed_admissible(ll, facts)
            evals += 1
            classes0.append('mixed-bic-admissible-set')
            if not any(close(got, v) for v in adm):
                raise Violation(
                    'bic[mixed]:not-an-admissible-partition', observed=got, expected=sorted(adm),
                    detail=f'{desc} -2LL={ll} n_est={ref.n_estimated(facts)} ambiguous={ref.ambiguous_thetas(facts)} dead={facts["dead"]} '
                    f'n_ind={facts["n_ind"]} n_obs={facts["n_obs"]}',
                )
            continue
        got = _num(guard(calculate_bic, info.model, ll, type=t, allowed=(), clause=f'bic[{t}]'), f'bic[{t}]')
        exp = ref.bic(ll, facts, t)
        evals += 1
        if not close(got, exp):
            raise Violation(
                f'bic[{t}]:value', observed=got, expected=exp,
                detail=f'{desc} -2LL={ll} n_est={ref.n_estimated(facts)} random/fixed={ref.n_random_fixed(facts)} '
                f'iiv_omegas={ref.n_iiv_omegas(facts)} n_ind={facts["n_ind"]} n_obs={facts["n_obs"]}',
            )
    try:
        calculate_bic(info.model, ll, type='nosuch')
    except ValueError:
        pass
    except Exception as e:
        raise Violation(f'bic[unknown-type]:{type(e).__name__}', detail=str(e)[:200])
    else:
        raise Violation('bic[unknown-type]:no-error')

    # ---- likelihood ratio test --------------------------------------------------------------
    child_ops = (list(spec['ops'])[:2] + list(spec['extra']))[:3] if spec['rel'] else spec['extra']
    cinfo = build_model(child_ops)
    alpha = ALPHAS[spec['alpha'] % len(ALPHAS)]
    classes = classes0
    pofv = ll
    cofv = math.nan if spec['ofv2'] is None else ll - spec['ofv2'] / 4.0
    df = cinfo.facts['n_all'] - facts['n_all']
    same_fixed = cinfo.facts['n_fixed_flag'] == facts['n_fixed_flag']
    pm_, cm_ = info.model, cinfo.named('child')
    ldesc = f'parent={desc} child=pheno+{list(cinfo.ops)} df={df} alpha={alpha} parent_ofv={pofv} child_ofv={cofv}'
    if not same_fixed:
        classes.append('lrt-fixed-count-differs(not asserted)')
    else:
        classes.append('df>0' if df > 0 else ('df<0' if df < 0 else 'df=0'))
        got = guard(lrt.degrees_of_freedom, pm_, cm_, allowed=(), clause='lrt.degrees_of_freedom')
        if got != df:
            raise Violation('lrt.degrees_of_freedom', observed=got, expected=df, detail=ldesc)
        got = _num(guard(lrt.cutoff, pm_, cm_, alpha, allowed=(), clause='lrt.cutoff'), 'lrt.cutoff')
        exp_c = ref.lrt_cutoff(df, alpha)
        evals += 1
        if not close(got, exp_c):
            raise Violation('lrt.cutoff:value', observed=got, expected=exp_c, detail=ldesc)
        if df > 0 and cofv == cofv:
            got = _num(guard(lrt.p_value, pm_, cm_, pofv, cofv, allowed=(), clause='lrt.p_value'), 'lrt.p_value')
            exp = ref.lrt_p_value(pofv - cofv, df)
            evals += 1
            if not close(got, exp):
                raise Violation('lrt.p_value:value', observed=got, expected=exp, detail=ldesc)
        dofv = pofv - cofv
        if dofv != dofv or abs(dofv - exp_c) > 1e-9 * max(1.0, abs(exp_c)) or df == 0:
            exp_t = ref.lrt_test(pofv, cofv, df, alpha)
            got = guard(lrt.test, pm_, cm_, pofv, cofv, alpha, allowed=(), clause='lrt.test')
            evals += 1
            if bool(got) != exp_t:
                raise Violation('lrt.test:value', observed=repr(got), expected=exp_t, detail=ldesc)
            got = guard(lrt.best_of_two, pm_, cm_, pofv, cofv, alpha, allowed=(), clause='lrt.best_of_two')
            if got is not (cm_ if exp_t else pm_):
                raise Violation('lrt.best_of_two', observed=getattr(got, 'name', repr(got)), expected='child' if exp_t else 'parent', detail=ldesc)
            if cofv != cofv:
                classes.append('nan-ofv')
        # best_of_many
        many = spec['many'][:5]
        if many:
            cands = []
            for i, (ops, o) in enumerate(many):
                ci = cinfo if spec['many_same'] else build_model(ops)
                cands.append((ci, ci.named(f'many{i}'), math.nan if o is None else ll - o / 4.0))
            ok_fixed = all(c[0].facts['n_fixed_flag'] == facts['n_fixed_flag'] for c in cands)
            if ok_fixed:
                dfs = [c[0].facts['n_all'] - facts['n_all'] for c in cands]
                passes = []
                branch = False
                for (ci, cm, o), d in zip(cands, dfs):
                    c = ref.lrt_cutoff(d, alpha)
                    if o == o and d != 0 and abs((pofv - o) - c) <= 1e-9 * max(1.0, abs(c)):
                        branch = True
                    passes.append(ref.lrt_test(pofv, o, d, alpha))
                if not branch:
                    got = guard(lrt.best_of_many, pm_, [c[1] for c in cands], pofv, [c[2] for c in cands], alpha, allowed=(), clause='lrt.best_of_many')
                    evals += 1
                    mdesc = ldesc + f' many={[(list(c[0].ops), c[2]) for c in cands]}'
                    idx = next((i for i, c in enumerate(cands) if got is c[1]), None)
                    if got is not pm_ and idx is None:
                        raise Violation('lrt.best_of_many:foreign-model', observed=getattr(got, 'name', repr(got)), detail=mdesc)
                    if idx is not None and not passes[idx]:
                        raise Violation('lrt.best_of_many:returned-failing-candidate', observed=f'many{idx}', detail=mdesc)
                    if len(set(dfs)) == 1:
                        classes.append('best_of_many:same-df')
                        finite = [c[2] for c in cands if c[2] == c[2]]
                        if not finite:
                            exp_set = {None}
                        else:
                            lo = min(finite)
                            best = [i for i, c in enumerate(cands) if c[2] == lo]
                            exp_set = set(best) if passes[best[0]] else {None}
                        if idx not in exp_set:
                            raise Violation('lrt.best_of_many:choice', observed=idx, expected=sorted(exp_set, key=str), detail=mdesc)
                    else:
                        classes.append('best_of_many:mixed-df')
    nt = bool(info.ops) or (same_fixed and df != 0)
    if any(p['fix'] for p in facts['params']):
        classes.append('has-fixed-parameter')
    r, f = ref.n_random_fixed(facts)
    if f > 1:
        classes.append('theta-without-eta')
    if any(p['kind'] == 'omega' and not p['iiv'] for p in facts['params']):
        classes.append('iov-omega')
    if facts['n_ind'] != 59:
        classes.append('subset-dataset')
    if facts['shared']:
        classes.append('shared-theta(eta and non-eta individual parameter)')
    return CaseInfo(nontrivial=nt, classes=tuple(classes), render=dict(model=desc, ll=ll, lrt=ldesc), evals=evals)


# ==========================================================================================
# sub-check 2: strictness expressions (grammar of docs/strictness.rst)

_COND_LITS = [1, 2, 5, 10, 50, 100, 1000, 100000, 10000000]


def _atom():
    flag = st.tuples(st.just('flag'), st.sampled_from(list(range(len(ref.FLAGS)))))
    cmp_ = st.tuples(st.just('cmp'), st.sampled_from(list(range(len(ref.METRICS)))), st.sampled_from(list(range(len(ref.OPS)))), st.sampled_from(list(range(60))))
    return st.one_of(flag, cmp_)


def _sexpr(depth):
    if depth == 0:
        return _atom()
    sub = _sexpr(depth - 1)
    return st.one_of(
        _atom(),
        st.tuples(st.sampled_from(['and', 'or']), sub, sub),
        st.tuples(st.sampled_from(['and', 'or']), sub, sub),
        st.tuples(st.just('not'), sub),
    )


def _tolist(x):
    if isinstance(x, tuple):
        return [_tolist(y) for y in x]
    return x


SEXPR = _sexpr(3).map(_tolist)


def _lit(metric, k):
    if metric == 'sigdigs':
        return (k % 30) * 0.25  # results use a 0.5 grid: equality and in-between both occur
    if metric == 'condition_number':
        return _COND_LITS[k % len(_COND_LITS)]
    return round((k % 60 + 1) * 0.025, 3)  # RSE values sit on a 0.05 grid


def _fmt(x):
    if isinstance(x, int) or float(x).is_integer():
        return str(int(x))
    s = repr(float(x))
    if 'e' in s or 'E' in s:
        raise HarnessError(f'literal {s} not expressible in the strictness grammar')
    return s


def resolve_sexpr(e):
    """spec tree -> reference AST (total)"""
    if not isinstance(e, list) or not e:
        return ['flag', ref.FLAGS[0]]
    k = e[0]
    if k == 'flag':
        return ['flag', ref.FLAGS[int(e[1]) % len(ref.FLAGS)] if len(e) > 1 else ref.FLAGS[0]]
    if k == 'cmp' and len(e) >= 4:
        metric = ref.METRICS[int(e[1]) % len(ref.METRICS)]
        op = ref.OPS[int(e[2]) % len(ref.OPS)]
        if op == '!=' and metric.startswith('rse'):
            op = '<'  # '!=' on a vector criterion is not defined by the documentation
        return ['cmp', metric, op, _lit(metric, int(e[3]))]
    if k in ('and', 'or') and len(e) >= 3:
        return [k, resolve_sexpr(e[1]), resolve_sexpr(e[2])]
    if k == 'not' and len(e) >= 2:
        return ['not', resolve_sexpr(e[1])]
    return ['flag', ref.FLAGS[0]]


def render_sexpr(a, parent=None):
    """fully parenthesised text (operator precedence is not documented): a binary node is
    parenthesised unless it is the root or the same associative operator as its parent; the
    operand of `not` is parenthesised unless it is a flag."""
    k = a[0]
    if k == 'flag':
        return a[1]
    if k == 'cmp':
        s = f'{a[1]} {a[2]} {_fmt(a[3])}'
        return f'({s})' if parent == 'not' else s
    if k == 'not':
        s = 'not ' + render_sexpr(a[1], 'not')
        return f'({s})' if parent is not None else s
    s = f'{render_sexpr(a[1], k)} {k} {render_sexpr(a[2], k)}'
    return s if parent in (None, k) else f'({s})'


def atom_names(a, out=None):
    if out is None:
        out = []
    if a[0] in ('flag', 'cmp'):
        out.append(a[1])
    else:
        for x in a[1:]:
            atom_names(x, out)
    return out


STRICT = st.fixed_dictionaries(dict(ops=OPLIST, res=RES, expr=SEXPR))


def _near_branch(ast, sfacts):
    """condition number is the only irrational quantity compared with a literal"""
    for a in ref.needed(ast):
        if a[0] == 'cmp' and a[1] == 'condition_number' and sfacts['cond'] is not None:
            if abs(sfacts['cond'] - a[3]) <= 1e-6 * max(1.0, a[3]):
                return True
    return False


def _call_strictness(model, res, text):
    from pharmpy.tools.run import is_strictness_fulfilled

    with warnings.catch_warnings():
        warnings.simplefilter('ignore')
        return is_strictness_fulfilled(model, res, text)


def _is_boolish(x):
    return isinstance(x, (bool, np.bool_))


def run_strictness(spec):
    info = build_model(spec['ops'])
    res, sfacts = make_results(info, spec['res'])
    ast = resolve_sexpr(spec['expr'])
    text = render_sexpr(ast)
    names = atom_names(ast)
    render = dict(model=f'pheno+{list(info.ops)}', strictness=text, results={k: (v if not isinstance(v, float) or v == v else 'nan') for k, v in sfacts.items() if k not in ('kinds', 'bounds')})
    if _near_branch(ast, sfacts):
        raise Reject('literal at the condition number')
    both_rse = 'rse' in names and any(n in names for n in ('rse_theta', 'rse_omega', 'rse_sigma'))
    try:
        exp = ref.eval_strictness(ast, sfacts)
    except ref.EmptySubset as e:
        raise Reject(f'no parameter of the type for {e}')
    except ref.NeedsData as e:
        # results lack a needed table: pharmpy raises ValueError for rse/condition_number; other
        # cases are not documented -> counted only
        guard(_call_strictness, info.model, res, text, allowed=(ValueError,), clause='strictness:missing-data', internal_is_violation=False)
        if sfacts['ofv'] == sfacts['ofv']:
            raise Reject(f'missing {e.what}: accepted')
        raise Reject('missing data, nan ofv')
    try:
        got = _call_strictness(info.model, res, text)
    except Exception as e:
        from ..core import innermost_pharmpy_frame

        tag = 'rse+rse_type' if both_rse else 'error-on-valid-expression'
        raise Violation(f'strictness:{tag}:{type(e).__name__}@{innermost_pharmpy_frame(e)}', detail=f'{text!r}: {type(e).__name__}: {str(e)[:200]}', expected=exp)
    if not _is_boolish(got):
        tag = 'rse+rse_type' if both_rse else 'result'
        raise Violation(f'strictness:{tag}:non-bool', observed=type(got).__name__, expected=exp, detail=f'{text!r} on {render["results"]}')
    evals = 1
    if bool(got) != exp:
        # locate the atom that is evaluated differently
        culprit = None
        if sfacts['ofv'] == sfacts['ofv']:
            for a in ref.needed(ast):
                at = render_sexpr(a)
                try:
                    g = _call_strictness(info.model, res, at)
                except Exception:
                    continue
                evals += 1
                if _is_boolish(g) and bool(g) != ref.eval_strictness(a, sfacts):
                    culprit = a[1]
                    break
        clause = f'strictness:atom:{culprit}' if culprit else ('strictness:nan-ofv' if sfacts['ofv'] != sfacts['ofv'] else 'strictness:combination')
        raise Violation(clause, observed=bool(got), expected=exp, detail=f'{text!r} on {render["results"]} kinds={sfacts["kinds"]}')
    classes = ['true' if exp else 'false']
    classes += [f'atom:{n}' for n in sorted(set(names))]
    if sfacts['ofv'] != sfacts['ofv']:
        classes.append('nan-ofv')
    typed = any(n.endswith(('_theta', '_omega', '_sigma')) for n in names)
    return CaseInfo(nontrivial=(len(names) >= 2 or typed) and sfacts['ofv'] == sfacts['ofv'], classes=tuple(classes), render=render, evals=evals)


# ==========================================================================================
# sub-check 3: ranking

RANK_STRICT = [
    ['flag', 0],                                                       # minimization_successful
    ['or', ['flag', 0], ['and', ['flag', 1], ['cmp', 0, 4, 2]]],       # default of the AMD tools (sigdigs >= 0.5)
    None,                                                              # "" : everything with an OFV passes
    ['and', ['flag', 0], ['cmp', 2, 0, 15]],                           # minimization_successful and rse < 0.4
    ['not', ['flag', 2]],                                              # not maxevals_exceeded
]

RRES = st.fixed_dictionaries(
    dict(
        ofv=st.one_of(st.integers(-40, 40), st.integers(-40, 40), st.sampled_from([0, 0, 4, -4, 8, 16])),
        ofv_nan=st.sampled_from([1, 1, 1, 1, 1, 1, 1, 0]),
        ms=st.sampled_from([True, True, True, False]),
        tc=st.sampled_from([0, 0, 1, 2]),
        sd=st.sampled_from([0, 1, 6, 7, 15]),
        rse=st.lists(st.sampled_from([3, 5, 7, 9]), min_size=1, max_size=1),
        rse_mode=st.just(2),
    )
)

RANK = st.fixed_dictionaries(
    dict(
        pool=st.lists(OPLIST, min_size=1, max_size=4),
        base=st.fixed_dictionaries(dict(m=st.integers(0, 3), res=RRES)),
        base_ofv=st.integers(-200, 2000),
        cands=st.lists(
            st.fixed_dictionaries(dict(m=st.integers(0, 3), res=RRES, parent=st.integers(0, 8), pen=st.integers(0, 12))),
            min_size=1, max_size=8,
        ),
        base_pen=st.integers(0, 12),
        rank_type=st.sampled_from(['ofv', 'aic', 'bic', 'lrt', 'lrt', 'ofv']),
        bic_type=st.integers(0, 3),
        cutoff=st.one_of(st.none(), st.integers(-8, 24), st.sampled_from([0, 4, 8, 16])),
        lrt_cutoff=st.one_of(st.none(), st.integers(0, len(ALPHAS) - 1), st.tuples(st.integers(0, len(ALPHAS) - 1), st.integers(0, len(ALPHAS) - 1)).map(list)),
        penalties=st.booleans(),
        strict=st.integers(0, len(RANK_STRICT) - 1),
        strict_none=st.sampled_from([False] * 39 + [True]),
        model_keys=st.booleans(),
        via_summarize=st.booleans(),
    )
)

_RFILL = dict(grad=[0], grad_mode=0, est=[0], cov=[0], cov_mode=0, warn_enb=False)


def _rank_setup(spec):
    pool = [build_model(ops) for ops in spec['pool'][:4]] or [build_model([])]
    rank_type = spec['rank_type'] if spec['rank_type'] in ('ofv', 'aic', 'bic', 'lrt') else 'ofv'
    bic_type = BIC_TYPES[spec['bic_type'] % 4]
    sast_spec = RANK_STRICT[spec['strict'] % len(RANK_STRICT)]
    sast = resolve_sexpr(sast_spec) if sast_spec is not None else None
    stext = render_sexpr(sast) if sast is not None else ''
    use_pen = bool(spec['penalties']) and rank_type != 'lrt'
    base_ofv = spec['base_ofv'] / 4.0
    items = []
    raw = [dict(m=spec['base']['m'], res=spec['base']['res'], parent=0, pen=spec['base_pen'])] + list(spec['cands'][:8])
    for i, c in enumerate(raw):
        info = pool[c['m'] % len(pool)]
        if rank_type == 'bic' and bic_type == 'mixed' and info.facts['mixed_ambiguous']:
            info = pool[0] if not pool[0].facts['mixed_ambiguous'] else build_model([])
        r = dict(_RFILL)
        r.update(c['res'])
        r['rse_mode'] = 2  # RSE always present (shrunk specs too)
        r['rse'] = list(r.get('rse') or [3])[:1]
        r['ofv'] = int(round((base_ofv + (c['res']['ofv'] / 4.0 if i else 0.0)) * 4))  # candidates: offset from the base OFV
        res, sfacts = make_results(info, r, full=False)
        name = 'base' if i == 0 else f'cand{i}'
        strict = ref.eval_strictness(sast, sfacts)
        ofv = sfacts['ofv']
        if rank_type in ('ofv', 'lrt'):
            val = ofv
        elif rank_type == 'aic':
            val = ref.aic(ofv, info.facts)
        else:
            val = ref.bic(ofv, info.facts, bic_type)
        pen = c['pen'] / 4.0 if use_pen else 0.0
        items.append(dict(name=name, info=info, model=info.named(name), res=res, strict=strict, ofv=ofv, value=val + pen, pen=pen,
                          parent=(c['parent'] % i) if i else 0))
    for i, it in enumerate(items):
        par = items[it['parent']]
        it['df_parent'] = it['info'].facts['n_all'] - par['info'].facts['n_all']
        it['fixed_same'] = it['info'].facts['n_fixed_flag'] == par['info'].facts['n_fixed_flag']
    return dict(items=items, rank_type=rank_type, bic_type=bic_type, sast=sast, stext=stext, use_pen=use_pen)


def run_ranking(spec):
    import pandas as pd
    from pharmpy.tools.run import rank_models

    S = _rank_setup(spec)
    items, rank_type = S['items'], S['rank_type']
    base, cands = items[0], items[1:]
    col = 'ofv' if rank_type == 'lrt' else rank_type
    if rank_type == 'lrt':
        lc = spec['lrt_cutoff']
        if lc is None:
            cutoff = None
            alpha_of = lambda df: 0.05 if df >= 0 else 0.01  # noqa: E731  (defaults in the code; see ASSUMPTIONS)
        elif isinstance(lc, list):
            pair = (ALPHAS[lc[0] % len(ALPHAS)], ALPHAS[lc[1 % len(lc)] % len(ALPHAS)])
            cutoff = pair
            alpha_of = lambda df: pair[0] if df >= 0 else pair[1]  # noqa: E731
        else:
            cutoff = ALPHAS[lc % len(ALPHAS)]
            alpha_of = lambda df: cutoff  # noqa: E731
    else:
        cutoff = None if spec['cutoff'] is None else spec['cutoff'] / 4.0
        alpha_of = None
    parent_dict = None
    if rank_type == 'lrt' or spec['model_keys']:
        # Model keys only when all models differ in content: Model.__eq__ ignores the name, so
        # equal-content candidates would collapse into one dict key (not a C19 matter)
        distinct = len({it['info'].ops for it in items}) == len(items)
        if spec['model_keys'] and distinct:
            parent_dict = {it['model']: items[it['parent']]['model'] for it in cands}
        else:
            parent_dict = {it['name']: items[it['parent']]['name'] for it in cands}
    penalties = [it['pen'] for it in items] if S['use_pen'] else None
    kwargs = dict(parent_dict=parent_dict, strictness=S['stext'], rank_type=rank_type, cutoff=cutoff, penalties=penalties)
    if rank_type == 'bic':
        kwargs['bic_type'] = S['bic_type']
    render = dict(
        rank_type=rank_type + (f"({S['bic_type']})" if rank_type == 'bic' else ''), cutoff=cutoff, strictness=S['stext'], penalties=penalties,
        models=[dict(name=it['name'], model=f"pheno+{list(it['info'].ops)}", ofv=it['ofv'] if it['ofv'] == it['ofv'] else 'nan', strict=it['strict'],
                     value=it['value'] if it['value'] == it['value'] else 'nan', parent=items[it['parent']]['name'], df=it['df_parent']) for it in items],
    )
    if spec['strict_none']:
        kwargs['strictness'] = None
        try:
            with warnings.catch_warnings():
                warnings.simplefilter('ignore')
                rank_models(base['model'], base['res'], [c['model'] for c in cands], [c['res'] for c in cands], **kwargs)
        except Exception as e:
            raise Violation(f'rank:strictness-None:{type(e).__name__}', detail=f'docstring: "strictness : str or None"; {type(e).__name__}: {str(e)[:150]}')
        return CaseInfo(nontrivial=False, classes=('strictness-None',), render=render)

    def call():
        with warnings.catch_warnings():
            warnings.simplefilter('ignore')
            return rank_models(base['model'], base['res'], [c['model'] for c in cands], [c['res'] for c in cands], **kwargs)

    df = guard(call, allowed=(), clause='rank:call')
    if not isinstance(df, pd.DataFrame):
        raise Violation('rank:type', observed=type(df).__name__)
    names = [it['name'] for it in items]
    if sorted(df.index) != sorted(names):
        raise Violation('rank:table-rows', observed=list(df.index), expected=names, detail=str(render))
    for c in (f'd{col}', col, 'rank'):
        if c not in df.columns:
            raise Violation('rank:table-columns', observed=list(df.columns), expected=[f'd{col}', col, 'rank'])
    # LRT eligibility needs an unambiguous parameter count difference
    entries = [dict(name=it['name'], strict=it['strict'], value=it['value'], ofv=it['ofv'], df_parent=it['df_parent'], parent=it['parent']) for it in items]
    must, delta = ref.rank_reference(entries, rank_type, cutoff, alpha_of)
    classes = [rank_type if rank_type != 'bic' else f"bic-{S['bic_type']}"]
    for it in items[1:]:
        nm = it['name']
        if rank_type == 'lrt' and must[nm] is not None and it['strict']:
            if not it['fixed_same']:
                must[nm] = None
            else:
                par = items[it['parent']]
                c = ref.lrt_cutoff(it['df_parent'], alpha_of(it['df_parent']))
                d = par['ofv'] - it['ofv']
                if it['df_parent'] != 0 and abs(d - c) <= 1e-9 * max(1.0, abs(c)):
                    must[nm] = None
    ranks = {nm: df.loc[nm, 'rank'] for nm in names}
    ranked = {nm: not pd.isna(r) for nm, r in ranks.items()}
    ctx = str(render)
    evals = 0
    # (A) strictness failures are never ranked; (B) documented eligibility
    equal_cut = False
    for it in items:
        nm = it['name']
        evals += 1
        if not it['strict']:
            if ranked[nm]:
                raise Violation('rank:strictness-failed-but-ranked', observed=f'{nm} rank {ranks[nm]}', detail=ctx)
            continue
        if must[nm] is None:
            classes.append('eligibility-unspecified')
            continue
        if must[nm] != ranked[nm]:
            if rank_type == 'lrt':
                clause = 'rank:lrt:passing-excluded' if must[nm] else 'rank:lrt:failing-ranked'
            elif nm == 'base':
                clause = 'rank:base-excluded'
            elif cutoff is not None and delta[nm] == cutoff:
                clause = 'rank:cutoff:delta-equals-cutoff-excluded'
            elif cutoff is not None:
                clause = 'rank:cutoff:passing-excluded' if must[nm] else 'rank:cutoff:failing-ranked'
            else:
                clause = 'rank:eligible-excluded' if must[nm] else 'rank:ineligible-ranked'
            raise Violation(clause, observed=f'{nm} rank {ranks[nm]}', expected='ranked' if must[nm] else 'not ranked', detail=ctx)
        if cutoff is not None and rank_type != 'lrt' and nm != 'base' and delta.get(nm) == cutoff:
            equal_cut = True
    # (C) order: better value <=> smaller rank, equal value <=> equal rank, best rank is 1
    rk = [it for it in items if ranked[it['name']]]
    vals = sorted({it['value'] for it in rk})
    for a, b in zip(vals, vals[1:]):
        if abs(a - b) <= 1e-9 * max(1.0, abs(a)):
            raise Reject('near tie of two different criterion values')
    for a in rk:
        for b in rk:
            ra, rb = ranks[a['name']], ranks[b['name']]
            evals += 1
            if a['value'] < b['value'] and not ra < rb:
                raise Violation('rank:order', observed=f"{a['name']}:{ra} {b['name']}:{rb}", expected=f"{a['name']} better", detail=ctx)
            if a['value'] == b['value'] and ra != rb:
                raise Violation('rank:tie-different-rank', observed=f"{a['name']}:{ra} {b['name']}:{rb}", detail=ctx)
    if rk and min(ranks[it['name']] for it in rk) != 1:
        raise Violation('rank:best-not-1', observed=sorted(ranks[it['name']] for it in rk), detail=ctx)
    # (D) table values
    for it in rk:
        nm = it['name']
        if not close(float(df.loc[nm, col]), it['value']):
            raise Violation(f'rank:value-column[{rank_type}]', observed=float(df.loc[nm, col]), expected=it['value'], detail=f'{nm} in {ctx}')
        if base['strict'] and not close(float(df.loc[nm, f'd{col}']), base['value'] - it['value']):
            raise Violation(f'rank:delta-column[{rank_type}]', observed=float(df.loc[nm, f'd{col}']), expected=base['value'] - it['value'], detail=f'{nm} in {ctx}')
    # (E) best model as the tools pick it (rank.idxmin) is a top ranked eligible candidate
    if rk:
        best = df['rank'].idxmin()
        bv = min(it['value'] for it in rk)
        bi = next(it for it in items if it['name'] == best)
        if not ranked[best] or bi['value'] != bv:
            raise Violation('rank:best-model', observed=best, expected=[it['name'] for it in rk if it['value'] == bv], detail=ctx)
    # (F) summarize_tool: same table plus parameter counts
    if spec['via_summarize'] and rank_type != 'lrt' and not S['use_pen']:
        from pharmpy.tools.common import summarize_tool
        from pharmpy.workflows import ModelEntry

        mes = [ModelEntry.create(it['model'], modelfit_results=it['res'], parent=items[it['parent']]['model']) for it in cands]
        bme = ModelEntry.create(base['model'], modelfit_results=base['res'])

        def call2():
            with warnings.catch_warnings():
                warnings.simplefilter('ignore')
                return summarize_tool(mes, bme, rank_type, cutoff, S['bic_type'], S['stext'], None)

        all_fail = not any(it['strict'] for it in items)
        try:
            st_df = guard(call2, allowed=(ValueError,), clause='summarize_tool')
        except Reject:
            if not all_fail:
                raise Violation('summarize_tool:ValueError-with-passing-models', detail=ctx)
            st_df = None
        if st_df is not None:
            if all_fail:
                raise Violation('summarize_tool:no-error-when-all-fail', detail=ctx)
            nb = ref.n_estimated(base['info'].facts)
            for it in items:
                nm = it['name']
                ne = ref.n_estimated(it['info'].facts)
                if int(st_df.loc[nm, 'n_params']) != ne or int(st_df.loc[nm, 'd_params']) != ne - nb:
                    raise Violation('summarize_tool:n_params', observed=[int(st_df.loc[nm, 'n_params']), int(st_df.loc[nm, 'd_params'])], expected=[ne, ne - nb], detail=f'{nm} in {ctx}')
                r1, r2 = st_df.loc[nm, 'rank'], ranks[nm]
                if not ((pd.isna(r1) and pd.isna(r2)) or r1 == r2):
                    raise Violation('summarize_tool:rank-differs', observed=r1, expected=r2, detail=f'{nm} in {ctx}')
            classes.append('summarize_tool')
    # ---- classes / non-triviality ------------------------------------------------------------
    nt = False
    svals = [it['value'] for it in items if it['strict']]
    if len(svals) != len(set(svals)):
        classes.append('tie')
        nt = True
    if any(it['ofv'] != it['ofv'] for it in items):
        classes.append('nan-ofv')
        nt = True
    if rank_type == 'lrt' and any(it['df_parent'] < 0 for it in cands):
        classes.append('negative-df')
        nt = True
    if equal_cut:
        classes.append('delta==cutoff')
        nt = True
    fin = [it for it in items if it['value'] == it['value']]
    if fin and any(not it['strict'] and it['value'] <= min(x['value'] for x in fin) for it in fin):
        classes.append('failing-candidate-has-best-value')
        nt = True
    if rank_type == 'bic' and S['bic_type'] == 'mixed' and any(it['info'].facts['shared'] for it in items):
        classes.append('bic-mixed:shared-theta')
    if not base['strict']:
        classes.append('base-fails-strictness')
    if S['use_pen']:
        classes.append('penalties')
    if rank_type == 'lrt' and any(it['parent'] != 0 for it in cands):
        classes.append('parent-tree')
    if any(must[it['name']] is False and it['strict'] for it in items):
        classes.append('excluded-by-cutoff-or-lrt')
    return CaseInfo(nontrivial=nt, classes=tuple(sorted(set(classes))), render=render, evals=evals)



# ==========================================================================================
# sub-check 4: statistics

_I = st.integers(-64, 64)
_P = st.integers(1, 64)


def _mat(rows_max, cols, elem=_I, rows_min=1):
    return st.lists(st.lists(elem, min_size=cols, max_size=cols), min_size=rows_min, max_size=rows_max)


BOOT = st.integers(1, 6).flatmap(
    lambda k: st.fixed_dictionaries(
        dict(
            kind=st.just('bootstrap'),
            est=_mat(50, k, rows_min=2),
            ofv=st.lists(st.integers(0, 4000), min_size=1, max_size=50),
            orig=st.lists(_I, min_size=k, max_size=k),
            has=st.sampled_from([[1, 1, 1, 1], [1, 1, 1, 1], [1, 1, 1, 0], [1, 1, 0, 1], [1, 0, 0, 1], [0, 0, 0, 0], [0, 0, 0, 1], [1, 1, 1, 1]]),
            orig_ofv=st.integers(0, 4000),
            iofv=st.lists(st.integers(0, 400), min_size=2, max_size=8),
            included=st.lists(st.lists(st.integers(0, 7), min_size=1, max_size=8), min_size=1, max_size=6),
            dofv=st.lists(st.one_of(st.integers(0, 4000), st.integers(0, 4000), st.none()), min_size=1, max_size=8),
        )
    )
)

CDD = st.integers(1, 5).flatmap(
    lambda k: st.fixed_dictionaries(
        dict(
            kind=st.just('cdd'),
            base=st.lists(_I, min_size=k, max_size=k),
            est=_mat(10, k, rows_min=2),
            cov=st.lists(st.integers(-6, 6), min_size=1, max_size=15),
            case_cov=st.lists(st.one_of(st.none(), st.lists(st.integers(-6, 6), min_size=1, max_size=15)), min_size=1, max_size=10),
            iofv=st.lists(st.integers(0, 400), min_size=1, max_size=10),
            ofv_k=st.lists(st.integers(0, 8000), min_size=1, max_size=10),
            none=st.sampled_from([[], [], [], [0], [3], [1, 2]]),
            multi_skip=st.booleans(),
        )
    )
)

SHRINK = st.fixed_dictionaries(
    dict(
        kind=st.just('shrinkage'),
        ops=OPLIST,
        etas=st.lists(st.lists(_I, min_size=1, max_size=6), min_size=2, max_size=40),
        omega=st.lists(_P, min_size=1, max_size=6),
        icov=st.lists(st.lists(st.integers(-6, 6), min_size=1, max_size=10), min_size=1, max_size=12),
    )
)


def _dexpr(depth):
    leaf = st.one_of(st.tuples(st.just('p'), st.sampled_from(list(range(6)))), st.tuples(st.just('p'), st.sampled_from(list(range(6)))), st.tuples(st.just('c'), st.integers(1, 6)))
    if depth == 0:
        return leaf
    sub = _dexpr(depth - 1)
    return st.one_of(
        leaf,
        st.tuples(st.sampled_from(['+', '*', '/']), sub, sub),
        st.tuples(st.sampled_from(['exp', 'log', 'sqrt']), sub),
        st.tuples(st.just('pow'), sub, st.integers(2, 3)),
    )


DELTA = st.fixed_dictionaries(
    dict(
        kind=st.just('delta'),
        expr=st.tuples(st.sampled_from(['+', '*', '/']), _dexpr(2), _dexpr(2)).map(_tolist),
        vals=st.lists(st.integers(4, 24), min_size=6, max_size=6),
        cov=st.lists(st.integers(-6, 6), min_size=1, max_size=21),
        perm=st.lists(st.integers(0, 5), min_size=0, max_size=6),
        n=st.sampled_from([1, 2, 3, 4, 5, 6, 3, 4]),
        rot=st.sampled_from([0, 1, 1, 2, 3]),
    )
)

SIMEVAL = st.integers(1, 6).flatmap(
    lambda k: st.fixed_dictionaries(
        dict(kind=st.just('simeval'), orig=st.lists(st.integers(0, 800), min_size=k, max_size=k), sampled=_mat(20, k, st.integers(0, 400), rows_min=2))
    )
)

_KINDS = dict(bootstrap=BOOT, cdd=CDD, shrinkage=SHRINK, delta=DELTA, simeval=SIMEVAL)
STATS = st.sampled_from(['bootstrap', 'bootstrap', 'cdd', 'cdd', 'shrinkage', 'shrinkage', 'delta', 'delta', 'simeval']).flatmap(lambda k: _KINDS[k])


def _spd(ints, n):
    """symmetric positive definite n x n matrix from a list of small ints: L D L^T"""
    ints = list(ints) or [0]
    d = np.array([2.0 ** (ints[i % len(ints)] / 2.0) for i in range(n)])
    L = np.eye(n)
    k = n
    for i in range(n):
        for j in range(i):
            L[i, j] = ints[k % len(ints)] / 8.0
            k += 1
    m = L @ np.diag(d) @ L.T
    return (m + m.T) / 2


def _cmp(clause, got, exp, what, rtol=1e-9):
    try:
        g = float(got)
    except (TypeError, ValueError):
        raise Violation(f'{clause}:type', observed=repr(got)[:100], expected=exp, detail=what)
    if not close(g, float(exp), rtol=rtol):
        raise Violation(clause, observed=g, expected=float(exp), detail=what)


def _run_bootstrap(spec):
    import pandas as pd
    from pharmpy.tools.bootstrap.results import calculate_results
    from pharmpy.workflows.results import ModelfitResults

    est = [[v / 8.0 for v in row] for row in spec['est'][:50]]
    k = len(est[0])
    est = [row[:k] + [0.0] * (k - len(row)) for row in est]
    n = len(est)
    names = [f'P{j + 1}' for j in range(k)]
    ofvl = spec['ofv'] or [0]
    ofvs = [ofvl[i % len(ofvl)] / 4.0 for i in range(n)]
    results = [ModelfitResults(ofv=ofvs[i], parameter_estimates=pd.Series(est[i], index=names)) for i in range(n)]
    has = (list(spec.get('has') or []) + [0, 0, 0, 0])[:4]  # original results, iofv, included individuals, dofv runs
    orig = None if not has[0] or not spec['orig'] else [(spec['orig'][j % len(spec['orig'])]) / 8.0 for j in range(k)]
    iofv = None if not has[1] or not spec['iofv'] or orig is None else [v / 4.0 for v in spec['iofv'][:8]]
    ids = list(range(1, (len(iofv) if iofv else 0) + 1))
    included = None
    if has[2] and spec['included'] and iofv:
        inc = spec['included']
        included = [[ids[x % len(ids)] for x in inc[i % len(inc)]] for i in range(n)]
    dofv = None
    if has[3] and spec['dofv']:
        dl = spec['dofv']
        dofv = [None if dl[i % len(dl)] is None else dl[i % len(dl)] / 4.0 for i in range(n)]
    orig_ofv = spec['orig_ofv'] / 4.0
    original = None
    if orig is not None:
        original = ModelfitResults(
            ofv=orig_ofv, parameter_estimates=pd.Series(orig, index=names),
            individual_ofv=None if iofv is None else pd.Series(iofv, index=pd.Index(ids, name='ID'), name='iOFV'),
        )
    dres = None if dofv is None else [None if v is None else ModelfitResults(ofv=v) for v in dofv]

    def call():
        with warnings.catch_warnings():
            warnings.simplefilter('ignore')
            return calculate_results(None, results, original_results=original, included_individuals=included, dofv_results=dres)

    res = guard(call, allowed=(), clause='bootstrap:call')
    what = f'n={n} k={k} orig={orig is not None} iofv={iofv is not None} included={included is not None} dofv={dofv is not None}'
    evals = 0
    ps = ref.bootstrap_parameter_statistics(est, orig)
    X = np.array(est)
    for j, nm in enumerate(names):
        for c in ('mean', 'median', 'bias', 'stderr', 'RSE'):
            if c == 'RSE' and abs(ps[j]['mean']) < 1e-9:
                continue
            _cmp(f'bootstrap:parameter_statistics:{c}', res.parameter_statistics.loc[nm, c], ps[j][c], f'{nm} {what} values={list(X[:, j])}')
            evals += 1
        for cname, p in ref.DIST_COLUMNS:
            _cmp(f'bootstrap:parameter_distribution:{cname}', res.parameter_distribution.loc[nm, cname], ref.percentile(X[:, j], p), f'{nm} {what} values={list(X[:, j])}')
            evals += 1
    C = ref.cov1(X)
    for a in range(k):
        for b in range(k):
            _cmp('bootstrap:covariance_matrix', res.covariance_matrix.loc[names[a], names[b]], C[a, b], f'[{a},{b}] {what}')
    iofv_map = None if iofv is None else dict(zip(ids, iofv))
    rows = ref.bootstrap_ofvs(ofvs, orig_ofv if orig is not None else None, iofv_map, included, dofv)
    cols = ['bootstrap_bootdata_ofv', 'original_bootdata_ofv', 'bootstrap_origdata_ofv', 'delta_bootdata', 'delta_origdata']
    if orig is not None:
        cols.append('original_origdata_ofv')
    for c in cols:
        colvals = [r[c] for r in rows]
        for i in range(n):
            _cmp(f'bootstrap:ofvs:{c}', res.ofvs.loc[i, c], colvals[i], f'row {i} {what}')
            evals += 1
        fin = [v for v in colvals if v == v]
        if fin:
            _cmp(f'bootstrap:ofv_statistics:mean[{c}]', res.ofv_statistics.loc[c, 'mean'], ref.mean(fin), what)
            _cmp(f'bootstrap:ofv_statistics:median[{c}]', res.ofv_statistics.loc[c, 'median'], ref.median(fin), what)
            if len(fin) > 1:
                _cmp(f'bootstrap:ofv_statistics:stderr[{c}]', res.ofv_statistics.loc[c, 'stderr'], ref.std1(fin), what)
            for cname, p in ref.DIST_COLUMNS:
                _cmp(f'bootstrap:ofv_distribution:{cname}[{c}]', res.ofv_distribution.loc[c, cname], ref.percentile(fin, p), what)
            evals += 4
    classes = ['bootstrap', f'bootstrap:{"with" if orig is not None else "no"}-original']
    if dofv is not None:
        classes.append('bootstrap:dofv')
    if included is not None:
        classes.append('bootstrap:included')
    return CaseInfo(nontrivial=n >= 3 and k >= 2, classes=tuple(classes), render=dict(kind='bootstrap', what=what, est=est[:4]), evals=evals)


def _run_cdd(spec):
    import pandas as pd
    from pharmpy.tools.cdd import results as cdd
    from pharmpy.workflows.results import ModelfitResults

    base = [v / 8.0 for v in spec['base'][:5]] or [0.0]
    k = len(base)
    est = [([v / 8.0 for v in row] + [0.0] * k)[:k] for row in spec['est'][:10]]
    n = len(est)
    names = [f'P{j + 1}' for j in range(k)]
    C = _spd(spec['cov'], k)
    cc = spec['case_cov'] or [None]
    case_cov = [None if cc[i % len(cc)] is None else _spd(cc[i % len(cc)], k) for i in range(n)]
    iofvl = spec['iofv'] or [0]
    ids = list(range(1, n + 1))
    iofv = {i: iofvl[(i - 1) % len(iofvl)] / 4.0 for i in ids}
    ofv_all = float(sum(iofv.values()))
    okl = spec['ofv_k'] or [0]
    ofv_k = [okl[i % len(okl)] / 4.0 for i in range(n)]
    none = {x % n for x in spec['none'][:2]}
    skipped = [[ids[i]] for i in range(n)]
    if spec['multi_skip'] and n >= 3:
        skipped[0] = [ids[0], ids[1]]
    what = f'n_cases={n} k={k} none={sorted(none)} cond={ref.cond_number(C):.3g}'
    evals = 0
    RT = 1e-7  # linear solves / determinants of matrices with condition numbers up to ~1e6
    base_s = pd.Series(base, index=names)
    est_df = pd.DataFrame(est, columns=names, index=[f'cdd_{i + 1}' for i in range(n)])
    cov_df = pd.DataFrame(C, index=names, columns=names)
    # direct functions
    got = guard(cdd.compute_cook_scores, base_s, est_df, cov_df, allowed=(), clause='cdd:compute_cook_scores')
    exp = ref.cook_scores(base, est, C)
    if got is None:
        raise Violation('cdd:cook_score:None', detail=f'positive definite covariance matrix; {what}')
    for i in range(n):
        _cmp('cdd:cook_score', got[i], exp[i], f'case {i} {what} base={base} est={est[i]} cov={C.tolist()}', rtol=RT)
        evals += 1
    gotj = guard(cdd.compute_jackknife_covariance_matrix, est_df, allowed=(), clause='cdd:compute_jackknife_covariance_matrix')
    J = ref.jackknife_cov(est)
    gotj = np.asarray(gotj, dtype=float)
    for a in range(k):
        for b in range(k):
            _cmp('cdd:jackknife_covariance', gotj[a, b], J[a, b], f'[{a},{b}] {what} est={est}')
    evals += 1
    results = [None if i in none else ModelfitResults(ofv=ofv_k[i], parameter_estimates=pd.Series(est[i], index=names),
                                                      covariance_matrix=None if case_cov[i] is None else pd.DataFrame(case_cov[i], index=names, columns=names)) for i in range(n)]
    gotr = guard(cdd.compute_covariance_ratios, results, cov_df, allowed=(), clause='cdd:compute_covariance_ratios')
    if gotr is None:
        raise Violation('cdd:covariance_ratio:None', detail=what)
    for i in range(n):
        if i in none or case_cov[i] is None:
            if gotr[i] == gotr[i]:
                raise Violation('cdd:covariance_ratio:value-without-matrix', observed=gotr[i], detail=what)
        else:
            _cmp('cdd:covariance_ratio', gotr[i], ref.covariance_ratio(case_cov[i], C), f'case {i} {what}', rtol=RT)
            evals += 1
    # whole tool
    base_res = ModelfitResults(ofv=ofv_all, parameter_estimates=base_s, covariance_matrix=cov_df,
                               individual_ofv=pd.Series(iofv, name='iOFV').rename_axis('ID'))
    pheno = build_model([])
    models = [pheno.named(f'cdd_{i + 1}') for i in range(n)]

    def call():
        with warnings.catch_warnings():
            warnings.simplefilter('ignore')
            return cdd.calculate_results(pheno.model, base_res, models, results, 'ID', skipped)

    res = guard(call, allowed=(), clause='cdd:calculate_results')
    cr = res.case_results
    if len(cr) != n:
        raise Violation('cdd:case_results:rows', observed=len(cr), expected=n)
    have = [i for i in range(n) if i not in none]
    Jok = False
    if not none and n > k + 1:
        Jok = ref.cond_number(J) < 1e6 if np.linalg.matrix_rank(J) == k else False
    jexp = ref.cook_scores(base, est, J) if Jok else None
    for i in range(n):
        row = cr.iloc[i]
        if i in none:
            if row['cook_score'] == row['cook_score']:
                raise Violation('cdd:case_results:cook_score-without-results', observed=row['cook_score'], detail=what)
            continue
        _cmp('cdd:case_results:cook_score', row['cook_score'], exp[i], f'case {i} {what}', rtol=RT)
        # cdd.rst: dOFV = OFV_all - iOFV_k - OFV_k
        _cmp('cdd:case_results:delta_ofv', row['delta_ofv'], ref.cdd_delta_ofv(ofv_all, iofv, skipped[i], ofv_k[i]), f'case {i} {what} skipped={skipped[i]}')
        if case_cov[i] is not None:
            _cmp('cdd:case_results:covariance_ratio', row['covariance_ratio'], ref.covariance_ratio(case_cov[i], C), f'case {i} {what}', rtol=RT)
        if jexp is not None:
            _cmp('cdd:case_results:jackknife_cook_score', row['jackknife_cook_score'], jexp[i], f'case {i} {what}', rtol=1e-6)
        evals += 3
    classes = ['cdd'] + (['cdd:missing-results'] if none else []) + (['cdd:jackknife-cook'] if jexp is not None else [])
    return CaseInfo(nontrivial=n >= 3 and k >= 2, classes=tuple(classes), render=dict(kind='cdd', what=what), evals=evals)


def _run_shrinkage(spec):
    import pandas as pd
    from pharmpy.modeling import calculate_eta_shrinkage, calculate_individual_shrinkage

    info = build_model(spec['ops'])
    etas = info.facts['etas']
    ne = len(etas)
    if ne == 0:
        raise Reject('model without etas')
    rows = spec['etas'][:40]
    n = len(rows)
    E = [[(row[j % len(row)] + (i * (j + 1)) % 3) / 16.0 for j in range(ne)] for i, row in enumerate(rows)]
    om_names = info.facts['eta_omegas']
    pmap = {p['name']: p for p in info.facts['params']}
    ol = spec['omega'] or [1]
    pe = {}
    for i, p in enumerate(info.facts['params']):
        if not p['fix']:
            pe[p['name']] = ol[i % len(ol)] / 16.0 if p['kind'] == 'omega' else p['init']
    omegas = [pe[nm] if nm in pe else pmap[nm]['init'] for nm in om_names]
    ids = list(range(1, n + 1))
    ie = pd.DataFrame(E, columns=etas, index=pd.Index(ids, name='ID'))
    pes = pd.Series(pe, dtype=float)
    what = f'pheno+{list(info.ops)} etas={etas} omegas={dict(zip(om_names, omegas))} n={n}'
    evals = 0
    for sd in (False, True):
        got = guard(calculate_eta_shrinkage, info.model, pes, ie, sd=sd, allowed=(), clause='eta_shrinkage:call')
        exp = ref.eta_shrinkage(E, [o if o != 0 else math.nan for o in omegas], sd=sd)
        for j, e in enumerate(etas):
            if omegas[j] == 0:
                continue
            _cmp(f'eta_shrinkage:{"sd" if sd else "var"}', got[e], exp[j], f'{e} {what} values={[r[j] for r in E]}')
            evals += 1
    il = spec['icov'] or [[0]]
    covs = [_spd(il[i % len(il)], ne) / 16.0 for i in range(n)]
    ser = pd.Series([pd.DataFrame(c, index=etas, columns=etas) for c in covs], index=pd.Index(ids, name='ID'), dtype=object)
    got = guard(calculate_individual_shrinkage, info.model, pes, ser, allowed=(), clause='individual_shrinkage:call')
    exp = ref.individual_shrinkage(covs, [o if o != 0 else math.nan for o in omegas])
    if list(got.index) != ids:
        raise Violation('individual_shrinkage:index', observed=list(got.index)[:5], expected=ids[:5])
    for i in range(n):
        for j, e in enumerate(etas):
            if omegas[j] == 0:
                continue
            _cmp('individual_shrinkage:value', got.loc[ids[i], e], exp[i][j], f'id {ids[i]} {e} {what}')
            evals += 1
    classes = ['shrinkage']
    if any(pmap[nm]['fix'] for nm in om_names):
        classes.append('shrinkage:fixed-omega')
    if len(set(om_names)) < len(om_names):
        classes.append('shrinkage:iov-shared-omega')
    if any(p['kind'] == 'omega' and p['name'] not in om_names for p in info.facts['params']):
        classes.append('shrinkage:block')
    return CaseInfo(nontrivial=n >= 3 and ne >= 2, classes=tuple(classes), render=dict(kind='shrinkage', what=what), evals=evals)


def _dresolve(e, n, rot=0, cnt=None):
    """spec tree -> AST (total); the i-th parameter leaf is rotated by i*rot so that small
    generated trees still mention several parameters"""
    if cnt is None:
        cnt = [0]
    if not isinstance(e, list) or not e:
        return ['p', 0]
    k = e[0]
    if k == 'p':
        cnt[0] += 1
        return ['p', ((int(e[1]) if len(e) > 1 else 0) + (cnt[0] - 1) * rot) % n]
    if k == 'c':
        return ['c', float(e[1]) if len(e) > 1 else 1.0]
    if k in ('+', '*', '/') and len(e) >= 3:
        return [k, _dresolve(e[1], n, rot, cnt), _dresolve(e[2], n, rot, cnt)]
    if k in ('exp', 'log', 'sqrt') and len(e) >= 2:
        return [k, _dresolve(e[1], n, rot, cnt)]
    if k == 'pow' and len(e) >= 3:
        return ['pow', _dresolve(e[1], n, rot, cnt), int(e[2]) % 4 + 1]
    return ['p', 0]


def _dsympy(a, syms):
    import sympy

    k = a[0]
    if k == 'p':
        return syms[a[1]]
    if k == 'c':
        return sympy.Integer(int(a[1]))
    if k == '+':
        return _dsympy(a[1], syms) + _dsympy(a[2], syms)
    if k == '*':
        return _dsympy(a[1], syms) * _dsympy(a[2], syms)
    if k == '/':
        return _dsympy(a[1], syms) / _dsympy(a[2], syms)
    if k == 'exp':
        return sympy.exp(_dsympy(a[1], syms))
    if k == 'log':
        return sympy.log(_dsympy(a[1], syms))
    if k == 'sqrt':
        return sympy.sqrt(_dsympy(a[1], syms))
    return _dsympy(a[1], syms) ** a[2]


def _run_delta(spec):
    import pandas as pd
    import sympy
    from pharmpy.internals.math import se_delta_method

    n = max(1, min(6, spec['n']))
    ast = _dresolve(spec['expr'], n, int(spec.get('rot', 0)))
    vals = [v / 8.0 for v in (list(spec['vals']) + [8] * 6)[:6]][:n]
    C = _spd(spec['cov'], n) / 64.0
    names = [f'TH{j + 1}' for j in range(n)]
    syms = [sympy.Symbol(nm) for nm in names]
    expr = _dsympy(ast, syms)
    if not expr.free_symbols:
        raise Reject('constant expression')
    try:
        v, g = ref.ad_eval(ast, vals)
        exp = ref.se_delta(ast, vals, C)
    except (OverflowError, ValueError, ZeroDivisionError):
        raise Reject('numeric domain')
    if not math.isfinite(v) or not np.all(np.isfinite(g)) or abs(v) > 1e12 or np.max(np.abs(g)) > 1e12:
        raise Reject('numeric domain')
    # order of the covariance matrix columns is arbitrary (label based)
    order = list(range(n))
    for a, b in zip(spec['perm'][::2], spec['perm'][1::2]):
        a, b = a % n, b % n
        order[a], order[b] = order[b], order[a]
    lab = [names[i] for i in order]
    cov = pd.DataFrame(C[np.ix_(order, order)], index=lab, columns=lab)
    values = dict(zip(names, vals))
    got = guard(se_delta_method, expr, values, cov, allowed=(), clause='se_delta_method:call')
    _cmp('se_delta_method:value', got, exp, f'expr={expr} values={values} cov order={lab}', rtol=1e-9)
    nfree = len(expr.free_symbols)
    return CaseInfo(nontrivial=nfree >= 2, classes=('delta', f'delta:{min(nfree, 4)}-symbols'), render=dict(kind='delta', expr=str(expr), values=values))


def _run_simeval(spec):
    import types

    import pandas as pd
    from pharmpy.tools.simeval.results import calculate_results
    from pharmpy.workflows.results import ModelfitResults

    orig = [v / 4.0 for v in spec['orig'][:6]] or [0.0]
    k = len(orig)
    samp = [([v / 4.0 for v in row] + [0.0] * k)[:k] for row in spec['sampled'][:20]]
    ids = pd.Index(list(range(1, k + 1)), name='ID')
    ores = ModelfitResults(ofv=sum(orig), individual_ofv=pd.Series(orig, index=ids, name='iOFV'))
    sres = types.SimpleNamespace(modelfit_results=[ModelfitResults(ofv=sum(r), individual_ofv=pd.Series(r, index=ids, name='iOFV')) for r in samp])
    pheno = build_model([])

    def call():
        with warnings.catch_warnings():
            warnings.simplefilter('ignore')
            return calculate_results(pheno.model, ores, sres)

    res = guard(call, allowed=(), clause='simeval:call')
    evals = 0
    for j in range(k):
        col = [r[j] for r in samp]
        sd = ref.std1(col)
        row = res.iofv_summary.loc[j + 1]
        _cmp('simeval:sampled_mean', row['sampled_mean'], ref.mean(col), f'id {j + 1} {col}')
        _cmp('simeval:sampled_stdev', row['sampled_stdev'], sd, f'id {j + 1} {col}')
        if sd > 1e-9:
            r = ref.simeval_residual(orig[j], col)
            _cmp('simeval:residual', row['residual'], r, f'id {j + 1} orig={orig[j]} {col}')
            if abs(r - 3) > 1e-9 and bool(row['residual_outlier']) != (r >= 3):
                raise Violation('simeval:residual_outlier', observed=bool(row['residual_outlier']), expected=r >= 3, detail=f'residual {r}')
        evals += 3
    return CaseInfo(nontrivial=len(samp) >= 3 and k >= 2, classes=('simeval',), render=dict(kind='simeval', orig=orig), evals=evals)


def run_statistics(spec):
    with warnings.catch_warnings(), np.errstate(all='ignore'):
        warnings.simplefilter('ignore')
        return _run_statistics(spec)


def _run_statistics(spec):
    kind = spec.get('kind')
    if kind == 'bootstrap':
        return _run_bootstrap(spec)
    if kind == 'cdd':
        return _run_cdd(spec)
    if kind == 'shrinkage':
        return _run_shrinkage(spec)
    if kind == 'delta':
        return _run_delta(spec)
    if kind == 'simeval':
        return _run_simeval(spec)
    raise Reject('unknown kind')



# ==========================================================================================
# known-finding predicates (matched by /verif/known_findings.json entries)


def _pred_rse_with_typed_rse(spec):
    """expression uses `rse` together with rse_theta / rse_omega / rse_sigma"""
    names = set(atom_names(resolve_sexpr(spec['expr'])))
    return 'rse' in names and bool(names & {'rse_theta', 'rse_omega', 'rse_sigma'})


def _pred_fzg_typed_nan(spec):
    """expression uses final_zero_gradient_omega / _sigma and NaN gradients of the thetas and of
    that parameter type differ (the code looks at the thetas' NaNs for all three types)"""
    names = set(atom_names(resolve_sexpr(spec['expr'])))
    want = [k for k in ('omega', 'sigma') if f'final_zero_gradient_{k}' in names]
    if not want:
        return False
    info = build_model(spec['ops'])
    _, sf = make_results(info, spec['res'])
    if sf['grad'] is None:
        return False
    nan = {k: any(v != v for nm, v in sf['grad'].items() if sf['kinds'][nm] == k) for k in ('theta', 'omega', 'sigma')}
    return any(nan[k] != nan['theta'] for k in want)


def _pred_delta_equals_cutoff(spec):
    """rank type ofv/aic/bic with a cutoff and a strictness-passing candidate whose delta to the
    (strictness-passing) base equals the cutoff exactly"""
    S = _rank_setup(spec)
    if S['rank_type'] == 'lrt' or spec['cutoff'] is None or spec['strict_none']:
        return False
    items = S['items']
    if not items[0]['strict']:
        return False
    return any(it['strict'] and items[0]['value'] - it['value'] == spec['cutoff'] / 4.0 for it in items[1:])


def _pred_strictness_none(spec):
    return bool(spec['strict_none'])


KNOWN_PREDICATES = {
    'rse_with_typed_rse': _pred_rse_with_typed_rse,
    'final_zero_gradient_typed_nan': _pred_fzg_typed_nan,
    'delta_equals_cutoff': _pred_delta_equals_cutoff,
    'strictness_none': _pred_strictness_none,
}

# development aid: C19_SKIP_KNOWN=1 turns the four scenarios above into class labels so that
# other violations behind them become visible without a known_findings.json
_DEV_KNOWN = [
    ('strictness', 'strictness:rse+rse_type', _pred_rse_with_typed_rse),
    ('strictness', 'strictness:atom:final_zero_gradient_', _pred_fzg_typed_nan),
    ('ranking', 'rank:cutoff:delta-equals-cutoff-excluded', _pred_delta_equals_cutoff),
    ('ranking', 'rank:strictness-None', _pred_strictness_none),
]


def _dev(sub, fn):
    def run(spec):
        if not os.environ.get('C19_SKIP_KNOWN'):
            return fn(spec)
        try:
            return fn(spec)
        except Violation as v:
            for s_, pre, pred in _DEV_KNOWN:
                if s_ == sub and v.clause.startswith(pre) and pred(spec):
                    return CaseInfo(nontrivial=False, classes=(f'dev-known:{pre}',))
            raise

    return run



# ==========================================================================================
# oracle self-check (exit 2 on failure)


def selfcheck():
    import inspect
    import re

    src = inspect.getsource(ref)
    if re.search(r'^\s*(import|from)\s+pharmpy', src, flags=re.M):
        raise HarnessError('pv/ref/stats.py imports pharmpy')
    # automatic differentiation against central differences
    for ast, vals in [
        (['/', ['p', 1], ['*', ['sqrt', ['p', 0]], ['sqrt', ['p', 2]]]], [0.0375637, 0.0193936, 0.0219133]),
        (['+', ['exp', ['*', ['p', 0], ['p', 1]]], ['pow', ['log', ['p', 1]], 3]], [0.7, 1.9]),
    ]:
        _, g = ref.ad_eval(ast, vals)
        gn = ref.numeric_gradient(ast, vals)
        if not np.allclose(g, gn, rtol=1e-5, atol=1e-8):
            raise HarnessError(f'AD gradient {g} != numeric gradient {gn} for {ast}')
    # tests/internals/test_math.py::test_se_delta_method states 0.2219739865800438 for the first one
    C = np.array([[4.17213e-04, 1.85060e-04, -3.51477e-05], [1.85060e-04, 1.10836e-04, 3.61663e-06], [-3.51477e-05, 3.61663e-06, 4.44030e-05]])
    se = ref.se_delta(['/', ['p', 1], ['*', ['sqrt', ['p', 0]], ['sqrt', ['p', 2]]]], [3.75637e-02, 1.93936e-02, 2.19133e-02], C)
    if abs(se - 0.2219739865800438) > 1e-12:
        raise HarnessError(f'delta method reference gives {se}')
    if abs(ref.lrt_cutoff(1, 0.05) - 3.841458820694124) > 1e-12 or abs(ref.lrt_cutoff(-2, 0.01) + 9.21034037197618) > 1e-11:
        raise HarnessError('chi2 cutoff reference')
    x = [3.0, 1.0, 4.0, 1.5, 9.0, 2.5, 6.0]
    for p_ in (0.0, 0.0005, 0.025, 0.5, 0.95, 0.9995, 1.0):
        if abs(ref.percentile(x, p_) - float(np.quantile(np.array(x), p_))) > 1e-12:
            raise HarnessError('percentile reference differs from numpy linear interpolation')
    # the numbers printed in the docstrings of calculate_bic and calculate_eta_shrinkage
    from pharmpy.tools import load_example_modelfit_results

    pheno = build_model([])
    res = load_example_modelfit_results('pheno')
    doc = dict(mixed=611.7071686216575, fixed=616.5366069867251, random=610.741280948644, iiv=594.4311311730211)
    for t, v in doc.items():
        got = ref.bic(float(res.ofv), pheno.facts, t)
        if abs(got - v) > 1e-9:
            raise HarnessError(f'reference BIC[{t}] = {got}, calculate_bic docstring says {v}')
    ie = res.individual_estimates
    om = [float(res.parameter_estimates[nm]) for nm in pheno.facts['eta_omegas']]
    E = ie[pheno.facts['etas']].values.tolist()
    for sd, docv in ((False, (0.720481, 0.240295)), (True, (0.471305, 0.128389))):
        got = ref.eta_shrinkage(E, om, sd=sd)
        if any(abs(a - b) > 1e-6 for a, b in zip(got, docv)):
            raise HarnessError(f'reference eta shrinkage {got}, docstring says {docv}')
    icov = res.individual_estimates_covariance
    got = ref.individual_shrinkage([icov.iloc[0].values], om)[0]
    if abs(got[0] - 0.847789) > 1e-6 or abs(got[1] - 0.256473) > 1e-6:
        raise HarnessError(f'reference individual shrinkage {got}, docstring says 0.847789 0.256473')
    # strictness evaluator on the documented default expression
    ast = resolve_sexpr(RANK_STRICT[1])
    if render_sexpr(ast) != 'minimization_successful or (rounding_errors and sigdigs >= 0.5)':
        raise HarnessError(render_sexpr(ast))
    base = dict(ofv=1.0, minimization_successful=False, termination_cause='rounding_errors', sigdigs=3.0)
    if ref.eval_strictness(ast, base) is not True or ref.eval_strictness(ast, dict(base, termination_cause=None)) is not False:
        raise HarnessError('strictness reference evaluator')
    if ref.eval_strictness(ast, dict(base, ofv=math.nan)) is not False:
        raise HarnessError('strictness reference evaluator (nan ofv)')


SUBCHECKS = [
    SubCheck('criteria', lambda: CRIT, run_criteria, quick=500, thorough=10260),
    SubCheck('strictness', lambda: STRICT, _dev('strictness', run_strictness), quick=4000, thorough=82120),
    SubCheck('ranking', lambda: RANK, _dev('ranking', run_ranking), quick=1800, thorough=36960),
    SubCheck('statistics', lambda: STATS, run_statistics, quick=1200, thorough=24640),
]
