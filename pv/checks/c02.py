"""C02 -- Generated NONMEM code means what the transformed model means (IR -> NM-TRAN).

Histories of public modeling transformations are applied to NONMEM start models; after every
step the generated control stream T = model.code is given a meaning by the reference NM-TRAN
interpreter (pv.ref.nmmodel.TextModel, parsing the *text*) and compared with the numeric
semantics of the in-memory model (pv.modeleval): parameters, random-effect matrices, ODE
right-hand sides under a consistent compartment numbering, lag/bioavailability/rate/duration
parameter indices, default dose compartment, every variable both sides define, Y.  At the end
of a history the model is written to disk, read back and compared with the in-memory model.
"""

from __future__ import annotations

import itertools
import math
import os
import shutil
import warnings

from hypothesis import strategies as st

from .. import corpus, modeleval
from ..core import VERIF_DIR, CaseInfo, HarnessError, Reject, SubCheck, Violation, guard
from ..irsem import EvalError, close, ev
from ..ref import nmmodel
from ..ref import nmtran as R

PROPERTY = 'C02'
LEVEL = 'exploration'
RULE = (
    'Histories: NONMEM start model from the corpus x 1-5 model-changing transformations from a table of public '
    'pharmpy.modeling functions (structural setters, IIV/covariate/error-model functions, parameter edits, solver change); a step '
    'that raises a documented refusal is dropped from the history. After every step the generated code is interpreted by the '
    'reference NM-TRAN interpreter and compared with the in-memory model at sampled inputs. Non-trivial = the history changed the '
    'ODE system and the ADVAN or compartment count of the generated code differs from the start model, or a dataset column was '
    'rewritten. Distinct = (start model, normalised sequence of applied steps).'
)
ASSUMPTIONS = [
    'reference interpreter pv/ref/nmtran.py + nmmodel.py is my reading of the NONMEM guides',
    'ODE systems are compared through right-hand sides at sampled amounts under a bijection compartment name -> number that must '
    'also be consistent with dose compartment, lag/bioavailability/rate/duration indices (existence of such a bijection is required)',
    'numeric comparison rtol 1e-9 at 3 sampled inputs; samples with non-finite intermediates or near branch points are skipped',
]

STARTS = ['pheno', 'basic_iv_nm', 'basic_oral_nm', 'pheno_real', 'pheno_advan3', 'mox2', 'mox_2comp', 'pheno_conc', 'pheno5', 'oral_cmt_nm', 'oral_periph_cmt_nm']

DOC_REFUSALS = (ValueError, NotImplementedError, KeyError)


def _ip(model, k):
    """k-th individual parameter (symbol assigned before the ODE that depends on an eta or theta)"""
    from pharmpy.modeling import get_individual_parameters

    ips = get_individual_parameters(model)
    if not ips:
        ips = [str(s.symbol) for s in model.statements.before_odes if hasattr(s, 'symbol')]
    if not ips:
        raise Reject('no individual parameters')
    return ips[k % len(ips)]


def _cov(model, k):
    cands = [c for c in model.datainfo.names if c not in ('ID', 'TIME', 'AMT', 'DV', 'MDV', 'EVID', 'RATE', 'CMT', 'SS', 'II', 'ADDL') and not model.datainfo[c].drop]
    if not cands:
        raise Reject('no covariate column')
    return cands[k % len(cands)]


def _occ(model, k):
    df = model.dataset
    cands = []
    if df is not None:
        for c in df.columns:
            if c in ('ID', 'TIME', 'AMT', 'DV', 'MDV', 'EVID', 'RATE', 'CMT') or model.datainfo[c].drop:
                continue
            vals = df[c].unique()
            if 2 <= len(vals) <= 6 and all(float(v).is_integer() for v in vals):
                cands.append(c)
    if not cands:
        raise Reject('no occasion-like column')
    return cands[k % len(cands)]


def _eta(model, k):
    names = model.random_variables.etas.names
    if not names:
        raise Reject('no etas')
    return names[k % len(names)]


def _theta(model, k):
    rvp = set(model.random_variables.parameter_names)
    names = [p.name for p in model.parameters if p.name not in rvp]
    return names[k % len(names)]


def table():
    import pharmpy.modeling as pm

    T = [
        ('set_first_order_absorption', lambda m, a, b: pm.set_first_order_absorption(m)),
        ('set_zero_order_absorption', lambda m, a, b: pm.set_zero_order_absorption(m)),
        ('set_seq_zo_fo_absorption', lambda m, a, b: pm.set_seq_zo_fo_absorption(m)),
        ('set_instantaneous_absorption', lambda m, a, b: pm.set_instantaneous_absorption(m)),
        ('add_peripheral_compartment', lambda m, a, b: pm.add_peripheral_compartment(m)),
        ('remove_peripheral_compartment', lambda m, a, b: pm.remove_peripheral_compartment(m)),
        ('set_transit_compartments', lambda m, a, b: pm.set_transit_compartments(m, [0, 1, 2, 3, 5, 7, 8][a % 7])),
        ('add_lag_time', lambda m, a, b: pm.add_lag_time(m)),
        ('remove_lag_time', lambda m, a, b: pm.remove_lag_time(m)),
        ('add_bioavailability', lambda m, a, b: pm.add_bioavailability(m, logit_transform=bool(a % 2))),
        ('remove_bioavailability', lambda m, a, b: pm.remove_bioavailability(m)),
        ('set_michaelis_menten_elimination', lambda m, a, b: pm.set_michaelis_menten_elimination(m)),
        ('set_mixed_mm_fo_elimination', lambda m, a, b: pm.set_mixed_mm_fo_elimination(m)),
        ('set_first_order_elimination', lambda m, a, b: pm.set_first_order_elimination(m)),
        ('set_zero_order_elimination', lambda m, a, b: pm.set_zero_order_elimination(m)),
        ('add_iiv', lambda m, a, b: pm.add_iiv(m, _ip(m, a), ['exp', 'add', 'prop', 'log'][b % 4])),
        ('remove_iiv', lambda m, a, b: pm.remove_iiv(m, [_eta(m, a)])),
        ('add_covariate_effect', lambda m, a, b: pm.add_covariate_effect(m, _ip(m, a), _cov(m, b), ['exp', 'lin', 'pow'][(a + b) % 3])),
        ('set_proportional_error_model', lambda m, a, b: pm.set_proportional_error_model(m)),
        ('set_additive_error_model', lambda m, a, b: pm.set_additive_error_model(m)),
        ('set_combined_error_model', lambda m, a, b: pm.set_combined_error_model(m)),
        ('create_joint_distribution', lambda m, a, b: pm.create_joint_distribution(m)),
        ('split_joint_distribution', lambda m, a, b: pm.split_joint_distribution(m)),
        ('set_initial_estimates', lambda m, a, b: pm.set_initial_estimates(m, {_theta(m, a): float(m.parameters[_theta(m, a)].init) * (1.0 + 0.1 * (1 + b % 5))})),
        ('fix_parameters', lambda m, a, b: pm.fix_parameters(m, [_theta(m, a)])),
        ('set_ode_solver', lambda m, a, b: pm.set_ode_solver(m, ['LSODA', 'GL', 'DVERK', 'IDA'][a % 4])),
        ('add_allometry', lambda m, a, b: pm.add_allometry(m, allometric_variable=_cov(m, a), reference_value=70)),
        ('mu_reference_model', lambda m, a, b: pm.mu_reference_model(m)),
        ('add_metabolite', lambda m, a, b: pm.add_metabolite(m)),
        ('add_effect_compartment', lambda m, a, b: pm.add_effect_compartment(m, ['linear', 'emax', 'sigmoid'][a % 3])),
        ('set_power_on_ruv', lambda m, a, b: pm.set_power_on_ruv(m)),
        ('add_iov', lambda m, a, b: pm.add_iov(m, _occ(m, a), [_eta(m, b)])),
    ]
    return T


def _relabel_dvid(model, a, b):
    """gives one dependent variable another DVID value (models with several DVs): the generated $ERROR must
    select Y by the DVID values the model declares, not by position"""
    dvs = model.dependent_variables
    if len(dvs) < 2:
        raise ValueError('model has one dependent variable')
    keys = list(dvs.keys())
    y = keys[a % len(keys)]
    new = [3, 4, 5, 7][b % 4]
    if new in set(dvs.values()):
        raise ValueError('DVID value in use')
    return model.replace(dependent_variables=dvs.replace(y, new)).update_source()


def _declare_dv(model, a, b):
    """declares a variable of the error model as a further dependent variable with a DVID value that need not
    be the next ordinal (what add_metabolite / add_effect_compartment / set_tmdd(dv_types=...) do with their
    own variables)"""
    from pharmpy.basic import Expr
    from pharmpy.model import Assignment

    dvs = model.dependent_variables
    sts = model.statements
    after = sts.after_odes if sts.ode_system is not None else sts
    cands = [s_.symbol for s_ in after if isinstance(s_, Assignment) and s_.symbol not in dvs and str(s_.symbol) != 'F']
    cands = [c for i, c in enumerate(cands) if c not in cands[:i]]
    if not cands:
        raise ValueError('no variable to declare as dependent variable')
    new = [2, 3, 4, 6][b % 4]
    if new in set(dvs.values()):
        raise ValueError('DVID value in use')
    ynew = Expr.symbol('Y_NEW')
    if ynew in sts.free_symbols:
        raise ValueError('Y_NEW exists')
    stmt = Assignment.create(ynew, Expr(cands[a % len(cands)]) * 2)
    return model.replace(statements=sts + stmt, dependent_variables=dvs.replace(ynew, new)).update_source()


# steps added after the first findings were recorded: addressed by 100 + index so that the recorded specs
# (step number modulo len(table())) keep their meaning
EXTRA = [
    ('relabel_dvid', _relabel_dvid),
    ('declare_dv', _declare_dv),
]

SPEC = st.fixed_dictionaries(
    dict(
        start=st.integers(0, len(STARTS) - 1),
        steps=st.lists(st.tuples(st.one_of(st.integers(0, 40), st.integers(0, 40), st.integers(0, 40), st.integers(0, 40), st.integers(0, 40), st.integers(0, 40), st.integers(100, 100 + len(EXTRA) - 1)), st.integers(0, 10), st.integers(0, 10)).map(list), min_size=1, max_size=5),
        k=st.integers(0, 50),
    )
)

# ------------------------------------------------------------------------------------------


def theta_names(model):
    rvp = set(model.random_variables.parameter_names)
    return [p.name for p in model.parameters if p.name not in rvp]


def compare_parameters(model, tm, ctx):
    ths = theta_names(model)
    if len(ths) != len(tm.thetas):
        raise Violation('code:theta-count', observed=len(tm.thetas), expected=len(ths), detail=ctx)
    for i, (nm, t) in enumerate(zip(ths, tm.thetas)):
        p = model.parameters[nm]
        exp = (float(p.init), float(p.lower), float(p.upper), bool(p.fix))
        got = (t['init'], t['lower'], t['upper'], t['fix'])
        ok = close(got[0], exp[0], rtol=1e-12, atol=0) and _b(got[1], exp[1]) and _b(got[2], exp[2]) and got[3] == exp[3]
        if not ok:
            raise Violation('code:theta', observed=got, expected=exp, detail=f'THETA({i + 1}) = {nm}; {ctx}')
    inits = {p.name: float(p.init) for p in model.parameters}
    OM, SG = tm.matrices()
    for which, sub, M in (('omega', model.random_variables.etas, OM), ('sigma', model.random_variables.epsilons, SG)):
        names = list(sub.names)
        if len(names) != len(M):
            raise Violation(f'code:{which}-size', observed=len(M), expected=len(names), detail=ctx)
        cov = sub.covariance_matrix
        for a in range(len(names)):
            for c in range(len(names)):
                val = ev(cov[a, c], inits)
                if not close(val, M[a][c], rtol=1e-9, atol=1e-14):
                    raise Violation(f'code:{which}-value', observed=M[a][c], expected=val, detail=f'element ({a + 1},{c + 1}); {ctx}')


def _b(a, b):
    if math.isinf(a) or math.isinf(b):
        return a == b
    return close(a, b, rtol=1e-12, atol=0)


def data_for_text(tm, point, model):
    """data item values by the names NM-TRAN uses ($INPUT), from the point's data (by datainfo order)"""
    names = [n for n, dropped in tm.input]
    di_names = list(model.datainfo.names)
    data = {}
    for i, (n, dropped) in enumerate(tm.input):
        if i < len(di_names) and di_names[i] in point.data:
            data[n] = point.data[di_names[i]]
    for k, v in point.data.items():
        data.setdefault(k.upper(), v)
    return data


def check_semantics(model, tm, spec_k, ctx, classes):
    ode = model.statements.ode_system
    ths = theta_names(model)
    etas = list(model.random_variables.etas.names)
    epss = list(model.random_variables.epsilons.names)
    if tm.neta != len(etas) or tm.neps != len(epss):
        raise Violation('code:rv-count', observed=(tm.neta, tm.neps), expected=(len(etas), len(epss)), detail=ctx)
    cnames = list(ode.compartment_names) if ode is not None else []
    if ode is not None and 'PRED' in tm.code:
        raise Violation('code:pred-for-ode-model', detail=ctx)
    if ode is not None and tm.ncomp != len(cnames):
        raise Violation('code:compartment-count', observed=tm.ncomp, expected=len(cnames), detail=ctx)
    # candidate numberings: the map pharmpy reports first, then every permutation (n <= 6)
    cands = []
    cmap = getattr(model.internals, 'compartment_map', None)
    if cmap and ode is not None and set(cnames) <= set(cmap) and sorted(cmap[c] for c in cnames) == list(range(1, len(cnames) + 1)):
        cands.append({c: cmap[c] for c in cnames})
    if ode is not None and len(cnames) > 6 and not cands:
        raise Reject('large system without reported compartment map')
    if ode is not None and (len(cnames) <= 5 or (not cands and len(cnames) <= 6)):
        for perm in itertools.permutations(range(1, len(cnames) + 1)):
            d = dict(zip(cnames, perm))
            if d not in cands:
                cands.append(d)
    if ode is None:
        cands = [{}]
    dvs = [(str(k), v) for k, v in model.dependent_variables.items()]
    try:
        dvid_col = model.datainfo.typeix['dvid'][0].name
    except IndexError:
        dvid_col = 'DVID'
    samples = []
    for k in range(10):
        if len(samples) >= 3:
            break
        point = modeleval.sample_point(model, spec_k + k)
        mv = modeleval.evaluate(model, point)
        theta = [point.params[n] for n in ths]
        eta = [point.etas[n] for n in etas]
        eps = [point.eps[n] for n in epss]
        data = data_for_text(tm, point, model)
        samples.append((point, mv, theta, eta, eps, data))
    first_fail = None
    for sigma in cands:
        fail = None
        used = 0
        for point, mv, theta, eta, eps, data in samples:
            amounts = {sigma[c]: point.amounts[c] for c in cnames}
            if mv.undefined and any(v is modeleval.UNDEF for v in list(mv.rhs.values()) + list(mv.y.values())):
                continue  # the in-memory model has no value at this input (conditionally assigned variable)
            fail = None
            for dvname, dvid in dvs:
                data_ = dict(data)
                if len(dvs) > 1:
                    data_[dvid_col] = float(dvid)
                fail = self_eval(tm, mv, model, sigma, cnames, theta, eta, eps, data_, amounts, dvname if len(dvs) > 1 else None)
                if fail == 'skip':
                    fail = None
                    break
                if fail:
                    break
            else:
                used += 1
            if fail:
                break
        if fail is None:
            if used == 0:
                raise Reject('no usable sample')
            if cands and sigma is not cands[0] and cmap:
                classes.append('numbering-differs-from-reported-map')
            return sigma, used
        if first_fail is None:
            first_fail = fail
    clause, obs, exp = first_fail
    raise Violation(clause, observed=obs, expected=exp, detail=ctx)


def self_eval(tm, mv, model, sigma, cnames, theta, eta, eps, data, amounts, dvname):
    """-> None (agree) | 'skip' (sample unusable) | (clause, observed, expected)"""
    try:
        if tm.branch_margin(theta, eta, eps, data, amounts) < 1e-7:
            return 'skip'
        tv = tm.evaluate(theta, eta, eps, data, amounts)
    except R.UndefinedVariable as u:
        if mv.undefined:
            return 'skip'
        return ('code:undefined-variable', str(u), None)
    except KeyError as ke:
        return (f'code:required-pk-parameter-not-defined:ADVAN{tm.advan}-TRANS{tm.trans}', str(ke), None)
    except R.Unsupported as us:
        return ('code:not-interpretable', str(us), None)
    except (OverflowError, ValueError, ZeroDivisionError):
        return 'skip'
    if tv['nonfinite']:
        return 'skip'
    return compare_values(model, mv, tv, tm, sigma, cnames, dvname)


def compare_values(model, mv, tv, tm, sigma, cnames, dvname=None):
    # right-hand sides
    for c in cnames:
        a = mv.rhs.get(c)
        b = tv['rhs'].get(sigma[c])
        if a is modeleval.UNDEF:
            return 'skip'
        if b is None or not close(a, b, rtol=1e-9, atol=1e-12):
            return (f'semantics:ode-rhs', b, a)
    pk = tv['pk']
    # lag / bioavailability / rate / duration indices
    for c in cnames:
        if c not in mv.doses:
            continue  # ALAGn / Fn only act on doses entering compartment n
        n = sigma[c]
        if c in mv.lag and not close(mv.lag[c], pk.get(f'ALAG{n}', 0.0), rtol=1e-9):
            return ('semantics:lag-time-index', pk.get(f'ALAG{n}', 0.0), mv.lag[c])
        if c in mv.bio and not close(mv.bio[c], pk.get(f'F{n}', 1.0), rtol=1e-9):
            return ('semantics:bioavailability-index', pk.get(f'F{n}', 1.0), mv.bio[c])
    for c, ds in mv.doses.items():
        n = sigma[c]
        for kind, amt, admid, extra in ds:
            if extra is not None:
                what, val = extra
                key = f'D{n}' if what == 'duration' else f'R{n}'
                if key in pk:
                    if not close(val, pk[key], rtol=1e-9):
                        return (f'semantics:{what}-parameter', pk[key], val)
                elif what == 'duration':
                    return ('semantics:duration-parameter-missing', sorted(k for k in pk if k[0] in 'DR' and k[1:].isdigit()), key)
    # dose compartment (without CMT column the default dose compartment receives the doses)
    di = model.datainfo
    has_cmt = 'CMT' in di.names and not di['CMT'].drop
    if cnames and not has_cmt:
        dcs = sorted(sigma[c] for c in mv.doses)
        if dcs and dcs != [tm.defdose]:
            return ('semantics:dose-compartment', tm.defdose, dcs)
    # every variable that both sides define under the same name, and Y
    tvars = dict(tv['pk'])
    tvars.update(tv.get('err', {}))
    dvnames = {str(k).upper() for k in model.dependent_variables}
    for name, val in mv.vars.items():
        u = name.upper()
        if dvname is not None and u in dvnames:
            continue  # with several DVs the generated code overwrites Y per DVID
        if u in tvars and u not in tm_data_names(tm) and val is not modeleval.UNDEF:
            if not close(val, tvars[u], rtol=1e-9, atol=1e-12):
                return (f'semantics:variable', (name, tvars[u]), (name, val))
    if dvname is not None:
        val = mv.y.get(dvname, modeleval.UNDEF)
        if val is modeleval.UNDEF:
            return 'skip'
        if 'Y' not in tvars:
            return ('code:dependent-variable-missing', sorted(tvars)[:20], 'Y')
        if not close(val, tvars['Y'], rtol=1e-9, atol=1e-12):
            return ('semantics:dependent-variable[DVID]', tvars['Y'], (dvname, val))
        return None
    for name, val in mv.y.items():
        u = name.upper()
        if val is modeleval.UNDEF:
            return 'skip'
        if u not in tvars:
            return ('code:dependent-variable-missing', sorted(tvars)[:20], u)
        if not close(val, tvars[u], rtol=1e-9, atol=1e-12):
            return ('semantics:dependent-variable', tvars[u], val)
    return None


def tm_data_names(tm):
    return {n for n, _ in tm.input}


def dataset_consistency(model, tm, sigma, ctx):
    """RATE column flags vs dose kinds; CMT routing of dose records"""
    df = model.dataset
    ode = model.statements.ode_system
    if df is None or ode is None:
        return
    di = model.datainfo
    try:
        amt = di.typeix['dose'][0].name
    except IndexError:
        return
    doserows = df[df[amt] != 0]
    kinds = set()
    for c in ode.compartment_names:
        for d in ode.find_compartment(c).doses:
            if type(d).__name__ == 'Bolus':
                kinds.add('bolus')
            elif d.duration is not None:
                kinds.add('duration')
            elif str(d.rate) == 'RATE':
                kinds.add('datarate')
            else:
                kinds.add('rate')
    has_rate = 'RATE' in df.columns and not di['RATE'].drop
    if 'duration' in kinds and (not has_rate or not (doserows['RATE'] == -2).any()):
        raise Violation('dataset:duration-infusion-without-RATE=-2', detail=ctx)
    if 'rate' in kinds and (not has_rate or not (doserows['RATE'] == -1).any()):
        raise Violation('dataset:rate-parameter-infusion-without-RATE=-1', detail=ctx)
    if kinds == {'bolus'} and has_rate and (doserows['RATE'] != 0).any():
        raise Violation('dataset:bolus-model-with-nonzero-RATE', detail=ctx)
    # CMT column (not dropped): dose records must be routed to the compartments that carry the doses of the
    # in-memory model, observation records to the compartment whose amount the observation is taken from
    if 'CMT' in df.columns and 'CMT' in di.names and not di['CMT'].drop and sigma:
        dose_cmts = sorted({int(v) for v in doserows['CMT'].unique()})
        want = sorted(sigma[c] for c in ode.compartment_names if ode.find_compartment(c).doses)
        if dose_cmts != want:
            raise Violation('dataset:CMT-of-dose-records', observed=dose_cmts, expected=want, detail=ctx)
        obsrows = df[df[amt] == 0]
        obs_cmts = sorted({int(v) for v in obsrows['CMT'].unique()} - {0})
        used = []
        for st_ in model.statements.after_odes:
            for c in ode.compartment_names:
                if f'A_{c}(t)' in {str(x) for x in st_.rhs_symbols} and c not in used:
                    used.append(c)
        if obs_cmts and used and not set(obs_cmts) <= {sigma[c] for c in used}:
            raise Violation('dataset:CMT-of-observation-records', observed=obs_cmts, expected=sorted(sigma[c] for c in used), detail=ctx)
    if has_rate:
        inp = [n for n, dr in tm.input if not dr]
        if 'RATE' not in inp:
            raise Violation('code:RATE-column-not-in-$INPUT', observed=inp, detail=ctx)


# ------------------------------------------------------------------------------------------


def run_case(spec):
    import pharmpy.modeling as pm

    T = table()
    start = STARTS[spec['start'] % len(STARTS)]
    model = corpus.get(start)
    tm0 = _text_model(model.code, 'start model')
    applied = []
    classes = [f'start:{start}']
    evals = 0
    ode_changed = False
    struct0 = (tm0.advan, tm0.ncomp)
    cols0 = list(model.datainfo.names)
    last = None
    for fi, a, b in spec['steps'][:5]:
        name, fn = EXTRA[(fi - 100) % len(EXTRA)] if fi >= 100 else T[fi % len(T)]
        try:
            with warnings.catch_warnings():
                warnings.simplefilter('ignore')
                new = guard(fn, model, a, b, allowed=DOC_REFUSALS, clause=f'transform:{name}', internal_is_violation=False)
        except Reject as r:
            # the property quantifies over transformations that succeed; refusals and internal errors of the
            # transformation itself (other properties) drop the step
            classes.append(('refused:' if ': ' in (r.why or '') else 'internal-error:') + name)
            continue
        if new.statements.ode_system != model.statements.ode_system:
            ode_changed = True
        model = new
        applied.append(name)
        ctx = f'{start} -> ' + ' -> '.join(applied)
        prev = last[0] if last is not None else tm0
        where = f'@{name}[from ADVAN{prev.advan}-TRANS{prev.trans}]'
        try:
            code = guard(lambda: model.code, allowed=(), clause='code-generation')
            tm = _text_model(code, ctx)
            compare_parameters(model, tm, ctx + '\n' + code)
            sigma, used = check_semantics(model, tm, spec['k'], ctx + '\n' + code, classes)
            dataset_consistency(model, tm, sigma, ctx + '\n' + code)
        except Violation as v:
            # the oracle held before this step: the step is the call site of the violation
            raise Violation(v.clause + where, observed=v.observed, expected=v.expected, detail=v.detail)
        evals += used
        last = (tm, sigma, code)
    if not applied:
        raise Reject('no step applied')
    tm, sigma, code = last
    # ---- write / read round trip of the final model -------------------------------------
    ctx = f'{start} -> ' + ' -> '.join(applied)
    d = os.path.join(VERIF_DIR, '.scratch', f'c02_{os.getpid()}')
    shutil.rmtree(d, ignore_errors=True)
    os.makedirs(d, exist_ok=True)
    try:
        with warnings.catch_warnings():
            warnings.simplefilter('ignore')
            # file and directory names with a blank need quoting in $DATA
            sub_, fn_ = [('', 'run1.mod'), ('', 'run 2.mod'), ('model dir', 'run1.mod'), ('', 'run1.mod')][spec['k'] % 4]
            if sub_:
                os.makedirs(os.path.join(d, sub_), exist_ok=True)
            path = os.path.join(d, sub_, fn_)
            classes.append('write:blank-in-path' if ' ' in sub_ + fn_ else 'write:plain-path')
            where = f'@{applied[-1]}'
            try:
                guard(pm.write_model, model, path, force=True, allowed=(), clause='write_model')
                m2 = guard(pm.read_model, path, allowed=(), clause='read-back')
                roundtrip(model, m2, sigma, spec['k'], ctx + '\n' + code)
            except Violation as v:
                raise Violation(v.clause + where, observed=v.observed, expected=v.expected, detail=v.detail)
            evals += 1
    finally:
        shutil.rmtree(d, ignore_errors=True)
    nt = (ode_changed and (tm.advan, tm.ncomp) != struct0) or list(model.datainfo.names) != cols0
    classes += [f'advan:{tm.advan}', f'ncomp:{tm.ncomp}', f'len:{len(applied)}'] + [f'fn:{n}' for n in sorted(set(applied))]
    if list(model.datainfo.names) != cols0:
        classes.append('dataset-columns-changed')
    return CaseInfo(nontrivial=nt, classes=tuple(classes), key=start + ':' + '>'.join(applied), render=dict(history=ctx, code=code), evals=evals)


def _text_model(code, ctx):
    try:
        return nmmodel.TextModel(code)
    except (R.Unsupported, R.NMSyntaxError) as e:
        raise Reject(f'reference cannot interpret generated code: {type(e).__name__}: {e}')


def roundtrip(model, m2, sigma, k, ctx):
    # parameters numerically equal in order
    if len(model.parameters) != len(m2.parameters):
        raise Violation('roundtrip:parameter-count', observed=len(m2.parameters), expected=len(model.parameters), detail=ctx)
    rvp = set(model.random_variables.parameter_names)
    # thetas are compared in order; names are the business of C04
    th1 = [p for p in model.parameters if p.name not in rvp]
    rvp2 = set(m2.random_variables.parameter_names)
    th2 = [p for p in m2.parameters if p.name not in rvp2]
    if len(th1) != len(th2):
        raise Violation('roundtrip:theta-count', observed=len(th2), expected=len(th1), detail=ctx)
    for p, q in zip(th1, th2):
        # bounds of OMEGA/SIGMA elements cannot be written in a control stream (implicit in NONMEM)
        bounds_ok = p.name in rvp or (_b(float(p.lower), float(q.lower)) and _b(float(p.upper), float(q.upper)))
        if not (close(float(p.init), float(q.init), rtol=1e-12, atol=0) and bounds_ok and p.fix == q.fix):
            raise Violation('roundtrip:parameter', observed=repr(q), expected=repr(p), detail=ctx)
    if len(model.random_variables.etas.names) != len(m2.random_variables.etas.names) or len(model.random_variables.epsilons.names) != len(m2.random_variables.epsilons.names):
        raise Violation('roundtrip:rv-count', observed=list(m2.random_variables.names), expected=list(model.random_variables.names), detail=ctx)
    # dataset equal
    if model.dataset is not None:
        if m2.dataset is None:
            raise Violation('roundtrip:dataset-lost', detail=ctx)
        a, b_ = model.dataset, m2.dataset
        # DROPped data items are not read back as numbers: compare the columns the model uses
        keep = [c for c in a.columns if c in model.datainfo.names and not model.datainfo[c].drop and not c.startswith('_DROP')]
        keep2 = [c for c in b_.columns if c in m2.datainfo.names and not m2.datainfo[c].drop and not c.startswith('_DROP')]
        a, b_ = a[keep], b_[keep2]
        if list(a.columns) != list(b_.columns) or a.shape != b_.shape:
            raise Violation('roundtrip:dataset-shape', observed=(list(b_.columns), b_.shape), expected=(list(a.columns), a.shape), detail=ctx)
        import numpy as np

        for c in a.columns:
            x = a[c].to_numpy(dtype=float, na_value=float('nan'))
            y = b_[c].to_numpy(dtype=float, na_value=float('nan'))
            if not np.array_equal(x, y, equal_nan=True):
                raise Violation('roundtrip:dataset-values', observed=c, detail=ctx)
    # function equivalence: map compartments through the numbers both models report
    ode1, ode2 = model.statements.ode_system, m2.statements.ode_system
    rename = {}
    if (ode1 is None) != (ode2 is None):
        raise Violation('roundtrip:ode-presence', detail=ctx)
    if ode1 is not None:
        cm2 = getattr(m2.internals, 'compartment_map', None) or {}
        inv2 = {v: k_ for k_, v in cm2.items()}
        for c, n in sigma.items():
            if n not in inv2:
                raise Violation('roundtrip:compartment-number-unknown', observed=cm2, expected=sigma, detail=ctx)
            rename[c] = inv2[n]
    multi_dv = len(model.dependent_variables) > 1
    for kk in range(3):
        pt = modeleval.sample_point(model, k + kk)
        if multi_dv:
            # the generated code selects the DV by DVID: evaluate the read-back model for the first DV
            pt.data.setdefault('DVID', 1.0)
        params2 = {q.name: float(q.init) for q in m2.parameters}
        params2.update({q.name: pt.params[p.name] for p, q in zip(th1, th2)})
        etas2 = dict(zip(m2.random_variables.etas.names, [pt.etas[n] for n in model.random_variables.etas.names]))
        eps2 = dict(zip(m2.random_variables.epsilons.names, [pt.eps[n] for n in model.random_variables.epsilons.names]))
        pt2 = modeleval.Point(params=params2, etas=etas2, eps=eps2, data=dict(pt.data), amounts={rename.get(c, c): v for c, v in pt.amounts.items()}, t=pt.t)
        mv1 = modeleval.evaluate(model, pt)
        mv2 = modeleval.evaluate(m2, pt2)
        bad = any(not (isinstance(v, float) and math.isfinite(v)) for v in mv1.y.values())
        if bad:
            continue
        if multi_dv:
            first = str(next(iter(model.dependent_variables)))
            mv1.y = {first: mv1.y[first]}
            if first not in mv2.y:
                cand = [n for n in mv2.y]
                mv2.y = {first: mv2.y[cand[0]]} if cand else {}
        res = modeleval.compare(mv1, mv2, rtol=1e-9, names=[n for n in mv1.vars if n in mv2.vars and n not in model.datainfo.names], rename=rename)
        if res is not None:
            what, obs, exp = res
            raise Violation(f'roundtrip:{what.split(":")[0]}', observed=(what, obs), expected=exp, detail=ctx)


# canonical multi-step histories that are always run (both tiers) in addition to the generated ones:
# shapes that need a specific long sequence (>= 10 compartments, CMT column + renumbering, logit
# bioavailability, back and forth between library ADVANs and $DES)
CANONICAL = [
    ('pheno', [('set_first_order_absorption', 0, 0), ('set_transit_compartments', 5, 0), ('add_peripheral_compartment', 0, 0)]),
    ('pheno', [('set_transit_compartments', 6, 0), ('add_peripheral_compartment', 0, 0), ('add_peripheral_compartment', 0, 0)]),
    ('basic_oral_nm', [('set_transit_compartments', 5, 0), ('add_peripheral_compartment', 0, 0), ('set_michaelis_menten_elimination', 0, 0)]),
    ('oral_cmt_nm', [('set_transit_compartments', 1, 0)]),
    ('oral_cmt_nm', [('set_transit_compartments', 2, 0), ('add_peripheral_compartment', 0, 0)]),
    ('oral_periph_cmt_nm', [('set_transit_compartments', 1, 0)]),
    ('oral_periph_cmt_nm', [('set_transit_compartments', 3, 0), ('remove_peripheral_compartment', 0, 0)]),
    ('oral_periph_cmt_nm', [('add_lag_time', 0, 0), ('set_transit_compartments', 1, 0)]),
    ('basic_oral_nm', [('add_bioavailability', 1, 0)]),
    ('pheno', [('add_bioavailability', 1, 0), ('set_first_order_absorption', 0, 0)]),
    ('basic_iv_nm', [('set_michaelis_menten_elimination', 0, 0), ('set_first_order_elimination', 0, 0), ('add_peripheral_compartment', 0, 0)]),
    ('mox2', [('add_peripheral_compartment', 0, 0), ('add_peripheral_compartment', 0, 0), ('remove_peripheral_compartment', 0, 0)]),
    ('pheno_advan3', [('set_first_order_absorption', 0, 0), ('add_lag_time', 0, 0)]),
    ('mox_2comp', [('set_zero_order_elimination', 0, 0), ('set_first_order_absorption', 0, 0)]),
    ('pheno', [('add_metabolite', 0, 0), ('relabel_dvid', 1, 1)]),
    ('basic_oral_nm', [('add_effect_compartment', 0, 0), ('relabel_dvid', 1, 0), ('relabel_dvid', 0, 2)]),
    ('pheno_real', [('add_metabolite', 0, 0), ('relabel_dvid', 0, 3), ('add_peripheral_compartment', 0, 0)]),
    ('pheno_real', [('declare_dv', 0, 2)]),
    ('mox2', [('declare_dv', 1, 1), ('add_peripheral_compartment', 0, 0)]),
    ('basic_oral_nm', [('declare_dv', 0, 0)]),
]


def canonical_specs(tier):
    names = [n for n, _ in table()]
    for start, steps in CANONICAL:
        xn = [n for n, _ in EXTRA]
        yield dict(start=STARTS.index(start), steps=[[100 + xn.index(fn) if fn in xn else names.index(fn), a, b] for fn, a, b in steps], k=3)


# ------------------------------------------------------------------------------------------
# generated programs + statement level edits: the start model is a generated flat $PRED program (top level
# assignments, logical IFs and IF/ELSEIF/ELSE blocks over previously assigned variables; none of the shapes
# pharmpy is known to misread, see C01), the steps are small edits through the public API that make the
# NONMEM code record regenerate only some of its statements (rename_symbols, one statement's expression
# replaced, a statement inserted, an initial estimate changed). After every step the meaning of model.code
# (reference interpreter) must equal the meaning of the in-memory model.


def _gen_spec():
    from . import c01

    return st.fixed_dictionaries(
        dict(
            prog=c01.LOGIC_SPEC,
            edits=st.lists(st.tuples(st.integers(0, 5), st.integers(0, 30), st.integers(0, 30)).map(list), min_size=1, max_size=4),
            k=st.integers(0, 50),
        )
    )


def _scale_expr(expr, b):
    """the same expression shape with other values: e -> 2*e + 1 (applied inside the branches of a Piecewise,
    which is what an IF statement is in memory)"""
    import sympy

    e = expr._sympy_() if hasattr(expr, '_sympy_') else sympy.sympify(expr)
    f = sympy.Integer(2 + b % 3)
    if isinstance(e, sympy.Piecewise):
        # only the first branch changes: the other branches (a written `ELSE X = 0`, the kept previous value) stay
        return sympy.Piecewise(*([(f * e.args[0][0] + 1, e.args[0][1])] + [(x, c) for x, c in e.args[1:]]))
    return f * e + 1


def _apply_edit(model, kind, a, b):
    import pharmpy.modeling as pm
    from pharmpy.basic import Expr
    from pharmpy.model import Assignment

    sts = model.statements
    idx = [i for i, s_ in enumerate(sts) if isinstance(s_, Assignment)]
    dvs = {str(k) for k in model.dependent_variables}
    names = sorted({str(sts[i].symbol) for i in idx} - dvs)
    taken = {str(x) for x in sts.free_symbols} | set(names)
    kind %= 6
    if kind in (0, 1):
        if not names:
            raise Reject('nothing to rename')
        old = names[a % len(names)]
        new = old + 'N'
        while new in taken:
            new += 'N'
        return 'rename_symbols', pm.rename_symbols(model, {old: new})
    if kind in (2, 3):
        cand = [i for i in idx if str(sts[i].symbol) not in dvs]
        if kind == 2:
            # prefer conditional statements (IF lines and blocks): their regeneration is the intricate part
            pw = [i for i in cand if sts[i].expression.is_piecewise()]
            cand = pw or cand
        if not cand:
            raise Reject('no statement to change')
        i = cand[a % len(cand)]
        s_ = sts[i]
        new = Assignment.create(s_.symbol, Expr(_scale_expr(s_.expression, b)))
        return 'replace_statement', model.replace(statements=sts[:i] + new + sts[i + 1 :]).update_source()
    if kind == 4:
        i = idx[a % len(idx)]
        new = 'NEWV'
        while new in taken:
            new += 'N'
        ns = Assignment.create(Expr.symbol(new), sts[i].symbol + 1)
        return 'insert_statement', model.replace(statements=sts[: i + 1] + ns + sts[i + 1 :]).update_source()
    ths = theta_names(model)
    nm = ths[a % len(ths)]
    p_ = model.parameters[nm]
    if b % 3 == 1:
        # FIX / unFIX of one theta: a member of a repeated item `(low,init,up)xN` must leave the repeat
        if p_.fix:
            return 'unfix_parameters', pm.unfix_parameters(model, [nm])
        return 'fix_parameters', pm.fix_parameters(model, [nm])
    if p_.fix:
        raise Reject('fixed theta')
    lo, up, init = float(p_.lower), float(p_.upper), float(p_.init)
    val = init * (1.0 + 0.05 * (1 + b % 5))
    if not (lo < val < up):
        raise Reject('new initial estimate outside bounds')
    return 'set_initial_estimates', pm.set_initial_estimates(model, {nm: val})


def run_generated(spec):
    from pharmpy.modeling import read_model_from_string

    from . import c01

    b = c01.build(spec['prog'])
    with warnings.catch_warnings():
        warnings.simplefilter('ignore')
        try:
            model = read_model_from_string(b.text)
        except Exception as e:  # reading is C01's business
            raise Reject(f'start program not read: {type(e).__name__}')
        tm0 = _text_model(model.code, 'generated start')
        classes = []
        try:
            # the property is about what edits do to the code: the start model must already be consistent
            check_semantics(model, tm0, spec['k'], b.text, classes)
        except Violation as v:
            raise Reject(f'start model not consistent with its own text (C01): {v.clause}')
        applied = []
        evals = 0
        code = None
        for kind, a, bb in spec['edits'][:4]:
            try:
                name, new = guard(_apply_edit, model, kind, a, bb, allowed=DOC_REFUSALS, clause='edit', internal_is_violation=False)
            except Reject as r:
                classes.append('edit-refused')
                continue
            model = new
            applied.append(name)
            ctx = 'generated program -> ' + ' -> '.join(applied)
            try:
                code = guard(lambda: model.code, allowed=(), clause='code-generation')
                tm = _text_model(code, ctx)
                compare_parameters(model, tm, ctx + '\n' + code)
                _, used = check_semantics(model, tm, spec['k'], ctx + '\n--- start\n' + b.text + '\n--- generated\n' + code, classes)
            except Violation as v:
                raise Violation(v.clause + f'@{name}', observed=v.observed, expected=v.expected, detail=v.detail)
            evals += used
    if not applied:
        raise Reject('no edit applied')
    classes += [f'edit:{n}' for n in sorted(set(applied))] + [f'len:{len(applied)}']
    txt = b.text.upper()
    if 'ELSE' in txt:
        classes.append('start:has-else')
    return CaseInfo(nontrivial=len(applied) > 0, classes=tuple(classes), key=None, render=dict(start=b.text, edits=applied, code=code), evals=evals)


SUBCHECKS = [
    SubCheck('generated', _gen_spec, run_generated, quick=400, thorough=3000, quick_time=200, thorough_time=3000),
    SubCheck('history', lambda: SPEC, run_case, quick=320, thorough=3000, quick_time=200, thorough_time=3000, enumerate=canonical_specs),
]


def _has_empty_branch(code):
    for s_ in code or []:
        if s_[0] == 'if':
            bodies = [b for _, b in s_[1]] + ([s_[2]] if s_[2] is not None else [])
            if any(len(b) == 0 for b in bodies) or any(_has_empty_branch(b) for b in bodies):
                return True
    return False


def _exprs_of(code, out):
    for s_ in code or []:
        if s_[0] == 'asg':
            out.append(s_[2])
        elif s_[0] == 'if':
            for c, b in s_[1]:
                _cond_exprs(c, out)
                _exprs_of(b, out)
            if s_[2] is not None:
                _exprs_of(s_[2], out)
    return out


def _cond_exprs(c, out):
    if c[0] == 'rel':
        out.append(c[2])
        out.append(c[3])
    else:
        for x in c[1:]:
            _cond_exprs(x, out)


def _reads_cancelled_variable(code):
    """some expression of the program mentions a user variable its value cannot depend on (X - X, -X + (X + 1)):
    pharmpy's parsed statement does not contain that variable although the kept text does"""
    from ..gen import gen_nm as G

    grid = [-2.3, -0.7, 0.4, 1.3, 2.9, 4.2]
    for e in _exprs_of(code, []):
        names = sorted(v for v in G.expr_reads(e) if v in G.USERVARS)
        for nm in names:
            constant = True
            for k in range(3):
                vals = set()
                for g in grid:
                    data = {n: grid[(2 * j + 3 * k) % len(grid)] for j, n in enumerate(G.USERVARS + G.COVS + ['TIME', 'F'])}
                    data[nm] = g
                    env = R.Env(theta=[grid[(i + k) % 6] for i in range(40)], eta=[grid[(i + 2 * k) % 6] / 10 for i in range(40)], eps=[0.1] * 10, data=data)
                    try:
                        vals.add(round(R.eval_expr(G.strip(e), env), 10))
                    except Exception:
                        vals.add(('err', g))
                if len(vals) > 1:
                    constant = False
                    break
            if constant:
                return True
    return False


def _has_noop_branch(code):
    """an IF branch that assigns a variable to itself (IF (..W..) TVCL = TVCL): like an empty branch it has no
    representation in the parsed statements, so the symbols of its condition live in the kept text only"""
    for s_ in code or []:
        if s_[0] == 'if':
            bodies = [b for _, b in s_[1]] + ([s_[2]] if s_[2] is not None else [])
            for b in bodies:
                for x in b:
                    if x[0] == 'asg' and tuple(x[2][:2]) == ('var', x[1]):
                        return True
                if _has_noop_branch(b):
                    return True
    return False


def _pred_generated_empty_branch(spec):
    from . import c01

    try:
        code = c01.build(spec['prog']).pred
        return _has_empty_branch(code) or _has_noop_branch(code) or _reads_cancelled_variable(code)
    except Exception:
        return False


_DV_STEPS = {'add_metabolite', 'add_effect_compartment', 'relabel_dvid', 'declare_dv'}


def _pred_second_dv_update(spec):
    """the history changes the dependent variables at least twice (steps that add a dependent variable or give
    one another DVID): the second change is the one that is not written"""
    T = table()
    n = 0
    for fi, a, b in spec.get('steps', [])[:5]:
        name = EXTRA[(fi - 100) % len(EXTRA)][0] if fi >= 100 else T[fi % len(T)][0]
        n += name in _DV_STEPS
    return n >= 2


KNOWN_PREDICATES = {'generated_empty_branch': _pred_generated_empty_branch, 'second_dv_update': _pred_second_dv_update}
