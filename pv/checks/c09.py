"""C09 -- Model extensions implement documented formulas and are neutral at reference.

A spec = start model id (pv.corpus) + generated data columns + 0-1 prior transformation + one extension with
integer-coded arguments (interpreted totally).  The model before (M1) and after (M2) the extension are evaluated
numerically (pv.modeleval) at the same input point (shared parameters / etas / epsilons / data / amounts keep their
values, new thetas and etas get generated values) and the values are related by the *documented formula*
(pv.ref.formulas, transcribed from the docstrings):

  covariate           add_covariate_effect / remove_covariate_effect
  variability         add_iiv, add_pk_iiv, add_iov, transform_etas_{boxcox,tdist,john_draper}, add_allometry,
                      remove_iiv / remove_iov
  error               set_{additive,proportional,combined,weighted,dtbs,time_varying}_error_model, set_power_on_ruv,
                      set_iiv_on_ruv, use_thetas_for_error_stdev, transform_blq(m3/m4), has_*_error_model
  transit_absorption  set_transit_compartments, set_{zero_order,first_order,seq_zo_fo}_absorption
"""

from __future__ import annotations

import ast
import functools
import itertools
import math
import os
import warnings

from hypothesis import strategies as st

from .. import corpus
from ..core import CaseInfo, HarnessError, Reject, SubCheck, Violation, guard
from ..irsem import close, ev
from ..modeleval import UNDEF, Point, compare, evaluate, sample_point
from ..ref import formulas as F

PROPERTY = 'C09'
LEVEL = 'exploration'
RULE = (
    'Spec = (start model from pv.corpus: pheno example, basic iv/oral PK models, checked-in NONMEM models; data set '
    'extended with generated continuous (time-varying / per-individual), categorical (2-4 levels, modes differing by '
    'records vs individuals) and occasion columns; 0-1 prior transformation so that targets already carry covariate '
    'effects, extra etas, transformed etas, other error models, absorption models) + one extension with integer-coded '
    'arguments (parameter, covariate, effect incl. custom strings, operation, eta form, eta subset, occasion column, '
    'distribution, reference value, error-model options data_trans / zero_protection / eps subset / dv, number of '
    'transits) + input point index and data row index; add_iiv also as ONE call with 2-3 parameters and per-parameter (unequal) '
    'expression / operation / eta-name lists, which must equal the single-parameter calls one after the other (random + enumerated); '
    'sub-check error_multidv applies 2-3 error-model setters one after the other to the DVs (dv argument None/1/2) of the '
    'multi-DV corpus models (every ordered pair of basic setters x DV order is enumerated), each step must give the documented '
    'form on its DV and leave the other DV alone; every function with a dv argument is called with dv=None, the DVID number and '
    'the DV name, on single-DV models too, after the functions that introduce aliases / extra structure (enumerated for pheno, '
    'basic_iv, pheno_real); sub-check transit_history applies 2-3 set_transit_compartments steps n1 -> n2 (-> n3), n in 0..4, both '
    'directions incl. reductions to 1 and 0, on models with and without depot (all pairs enumerated for 2 + 2 models) with the '
    'transit relations checked after every step. Before/after models are evaluated at the same point (new '
    'thetas/etas get generated values) and related by the formula documented in the docstring. Non-trivial = the target '
    'parameter already carries an eta or covariate effect or is piecewise / defined in several statements, or the model '
    'came from >= 1 prior transformation (error: the previous error model is not the plain single-epsilon one or a prior '
    'was applied). Distinct = (model id, generated-data variant, prior, extension, argument tuple) without the point indices.'
)
ASSUMPTIONS = [
    'pv.modeleval.evaluate (sequential numeric execution of the statements, ODE right-hand sides at fixed amounts) is the '
    'meaning of a model; amounts are inputs, so error models are checked on the observation equation only',
    'formulas are asserted only where the docstring (or its example) states them; dataset statistics (median/mean/std, most '
    'common category) are recomputed independently and every documented reading (all records, baselines, per individual then '
    'group; records vs individuals) is accepted and counted',
    'neutrality at the reference point is derived from the documented formula: asserted for "*" covariate effects at the '
    'centring statistic / most common category, add / prop / exp* IIV at eta=0, IOV and eta transformations at eta=0, '
    'allometry at the reference value; NOT for "+" covariate effects (documented template is 1 at reference), exp+ / logit / '
    'rescaled-logit IIV',
    'new thetas/etas are identified as the parameters / random variables that exist after but not before the extension; which '
    'of several new thetas belongs to which category / eta is not documented, any one-to-one assignment is accepted',
    'exceptions raised by an extension are counted as rejections (ValueError & co. documented; internal errors are listed in '
    'the rejected histogram with prefix "internal:"): the property quantifies over the function of accepted extensions',
    'inter-occasion variability means: on a record of occasion k the parameter is the IIV formula evaluated at eta + kappa_k '
    '(the definition the docstring of add_iov relies on: "the IIV eta it is based on")',
    'set_combined_error_model after set_iiv_on_ruv / set_time_varying_error_model deliberately keeps those structures '
    '(undocumented): only Y|eps=0 is asserted there',
    'initial estimates and bounds of new parameters (documented for covariate effects) are outside the property (model '
    'function only)',
    'domain restrictions: occasion columns are integer valued; the placeholder eta_dummy left by remove_iiv() is not an eta; '
    'transform_etas_*(None) may leave IOV etas alone; error-model setters on a BLQ-transformed model are exercised only where '
    'pharmpy documents/implements the combination (proportional, combined, power; untransformed data); transform_blq below-LLOQ '
    'likelihood is asserted only for the error models its docstring lists as supported; remove_iiv must restore custom eta '
    'effects only when they are neutral at eta = 0',
    'transit compartments are the compartments named TRANSIT<i> (docstring example) or classified as transit by pharmpy; mean '
    'absorption / transit time parameters are the variables named MAT / MDT (numeric suffix when the plain name is taken): '
    'first-order rate = 1/MAT, zero-order duration = 2*MAT (2*MDT in the sequential model), transit rates n/MDT (property text)',
    'clause ids carry an attribution tag in [..] when the failing case has a recognisable generator shape (e.g. '
    '[eps-name-not-uppercase], [same-transformation-applied-before]); known findings are keyed on these tags',
]

RTOL = 1e-9

# ------------------------------------------------------------------------------------------------
# calling into pharmpy


def _doc_errors():
    from pharmpy.model import DatasetError, ModelError

    return (ValueError, NotImplementedError, ModelError, DatasetError)


def call(fn, *args, clause='ext', **kwargs):
    """pharmpy call: documented errors -> Reject; internal errors -> Reject('internal:...') (counted, see ASSUMPTIONS)"""
    with warnings.catch_warnings():
        warnings.simplefilter('ignore')
        try:
            return guard(fn, *args, allowed=_doc_errors(), clause=clause, internal_is_violation=False, **kwargs)
        except Reject as r:
            if '@' in r.why and not r.why.startswith(('ValueError', 'NotImplementedError', 'ModelError', 'DatasetError')):
                raise Reject(f'internal:{clause}:{r.why}')
            raise Reject(f'{clause}:{r.why}')


def M():
    import pharmpy.modeling as m

    return m


# ------------------------------------------------------------------------------------------------
# start models with generated columns

NGEN = 3
GEN_COLS = ('GC1', 'GC2', 'GK1', 'GK2', 'GOCC')


def _gen_columns(df, gen):
    """Deterministic generated columns (pure arithmetic on row position and individual number).

    GC1  continuous, positive, time-varying within individual  (all-records / baseline / per-individual statistics differ)
    GC2  continuous, positive, constant within individual
    GK1  categorical, 3-4 levels, constant within individual
    GK2  categorical, 2 levels, time-varying: level 0 in a few records of every individual, level 1 in most records of
         two thirds of the individuals, so that 'most common' by records and by individuals differ for gen=1
    GOCC occasion 1..2(3), changes within individual
    """
    ids = list(df['ID'])
    order = {}
    for i in ids:
        order.setdefault(i, len(order))
    pos = {}
    gc1, gc2, gk1, gk2, gocc = [], [], [], [], []
    for r, i in enumerate(ids):
        n = order[i]
        j = pos.get(i, 0)
        pos[i] = j + 1
        gc1.append(2.0 + 0.75 * ((5 * n + 3 * j * (gen + 1) + gen) % 11) + 0.125 * (j % 3))
        gc2.append(30.0 + 2.5 * ((7 * n + 2 * gen) % 13))
        gk1.append(float((n * (gen + 2) + n // 3) % (3 + gen % 2)))
        if gen == 1:
            gk2.append(0.0 if (j < 1 or n % 3 == 0) else 1.0)
        else:
            gk2.append(float((n + j // (2 + gen)) % 2))
        gocc.append(float(1 + (j // (2 + gen)) % (2 + (gen == 2))))
    df = df.copy()
    df['GC1'], df['GC2'], df['GK1'], df['GK2'], df['GOCC'] = gc1, gc2, gk1, gk2, gocc
    return df


@functools.lru_cache(maxsize=None)
def model_names():
    return tuple(corpus.names())


def model_ids():
    """strategy of start-model ids (strings, so that specs stay valid when the corpus grows)"""
    return st.sampled_from(list(model_names()))


def resolve_model(m):
    """total interpretation of the model field of a spec"""
    names = model_names()
    if isinstance(m, str):
        if m in names:
            return m
        return names[sum(m.encode()) % len(names)]
    if isinstance(m, bool) or not isinstance(m, int):
        return names[0]
    return names[m % len(names)]


@functools.lru_cache(maxsize=None)
def start_model(mid: str, gen: int):
    m = corpus.get(mid)
    with warnings.catch_warnings():
        warnings.simplefilter('ignore')
        df = _gen_columns(m.dataset, gen)
        m2 = m.replace(dataset=df)
        return m2.update_source()


@functools.lru_cache(maxsize=None)
def columns(mid: str, gen: int):
    """-> dict(ids=[...], col -> list of floats) for numeric columns (independent statistics work on these lists)"""
    df = start_model(mid, gen).dataset
    out = {}
    for c in df.columns:
        try:
            out[c] = [float(x) for x in df[c]]
        except (TypeError, ValueError):
            continue
    return out


@functools.lru_cache(maxsize=None)
def covariate_columns(mid: str, gen: int):
    """-> (continuous-capable columns, categorical-capable columns (2..6 levels))"""
    m = start_model(mid, gen)
    cols = columns(mid, gen)
    cont, cat = [], []
    for ci in m.datainfo:
        if ci.type not in ('covariate', 'unknown') or ci.name.startswith('_') or ci.name not in cols or ci.name == 'GOCC':
            continue
        if getattr(ci, 'drop', False):
            continue
        vals = [v for v in cols[ci.name] if v == v]
        levels = set(vals)
        if len(levels) < 2 or len(vals) != len(cols[ci.name]):
            continue
        cont.append(ci.name)
        if len(levels) <= 6:
            cat.append(ci.name)
    # generated columns first, then at most 6 own columns (bounded variety per model)
    own_c = [c for c in cont if c not in GEN_COLS][:6]
    own_k = [c for c in cat if c not in GEN_COLS][:4]
    return tuple(['GC1', 'GC2'] + own_c + ['GK1']), tuple(['GK1', 'GK2'] + own_k)


@functools.lru_cache(maxsize=None)
def individual_parameters(mid: str, gen: int, prior_key=None):
    m = start_model(mid, gen)
    with warnings.catch_warnings():
        warnings.simplefilter('ignore')
        return tuple(M().get_individual_parameters(m))


# ------------------------------------------------------------------------------------------------
# points


def data_row(model, r):
    df = model.dataset
    row = df.iloc[r % len(df)]
    out = {}
    for c in df.columns:
        try:
            v = float(row[c])
        except (TypeError, ValueError):
            continue
        if v == v:
            out[c] = v
    return out


def _gval(i, k, lo=-0.6, hi=0.6):
    x = (0.7548776662466927 * (i + 1) + 0.5698402909980532 * (k + 1)) % 1.0
    v = lo + (hi - lo) * x
    if abs(v) < 0.07:
        v = 0.07 + abs(v) if v >= 0 else -0.07 + v
    return v


def base_point(model, k, r) -> Point:
    p = sample_point(model, k, data_row=data_row(model, r))
    return p


def extend_point(model2, base: Point, k, new_params=None, new_etas=None, new_eps=None, data=None) -> Point:
    """Point for model2 that coincides with `base` on everything shared; new parameters / etas / eps get
    deterministic moderate values unless given."""
    p2 = sample_point(model2, k, data_row=dict(base.data) if data is None else data)
    params, etas, eps = {}, {}, {}
    for i, n in enumerate(p2.params):
        if n in base.params:
            params[n] = base.params[n]
        elif new_params and n in new_params:
            params[n] = new_params[n]
        else:
            params[n] = _gval(i, k)
    for i, n in enumerate(p2.etas):
        if n in base.etas:
            etas[n] = base.etas[n]
        elif new_etas and n in new_etas:
            etas[n] = new_etas[n]
        else:
            etas[n] = _gval(i + 31, k, -0.4, 0.4)
    for i, n in enumerate(p2.eps):
        if n in base.eps:
            eps[n] = base.eps[n]
        elif new_eps and n in new_eps:
            eps[n] = new_eps[n]
        else:
            eps[n] = _gval(i + 57, k, -0.4, 0.4)
    am = dict(p2.amounts)
    for c, v in base.amounts.items():
        if c in am:
            am[c] = v
    return Point(params=params, etas=etas, eps=eps, data=dict(p2.data), amounts=am, t=base.t)


def with_(p: Point, **kw) -> Point:
    d = dict(params=dict(p.params), etas=dict(p.etas), eps=dict(p.eps), data=dict(p.data), amounts=dict(p.amounts), t=p.t)
    for k, v in kw.items():
        if k == 't':
            d['t'] = v
        else:
            d[k].update(v)
    return Point(**d)


def val(mv, name):
    v = mv.vars.get(name, UNDEF)
    if v is UNDEF:
        return math.nan
    return v


def new_names(after, before):
    b = set(before)
    return [n for n in after if n not in b]


def finite(*xs):
    return all(isinstance(x, float) and math.isfinite(x) for x in xs)


def same_function(m_ref, p_ref, m_got, p_got, names=(), clause='restore', detail=''):
    a = evaluate(m_ref, p_ref)
    b = evaluate(m_got, p_got)
    d = compare(a, b, rtol=RTOL, names=list(names))
    if d is not None:
        what, got, exp = d
        raise Violation(f'{clause}:{what.split(":")[0]}', observed=_j(got), expected=_j(exp), detail=f'{what} {detail}')


def _j(x):
    if x is UNDEF:
        return 'UNDEF'
    return x


def carries_structure(model, par):
    """classification only: does the parameter already carry an eta / a data column / a piecewise or several definitions"""
    out = []
    try:
        sset = model.statements.before_odes
        fe = sset.full_expression(par)
        fs = {str(s) for s in fe.free_symbols}
        if fs & set(model.random_variables.etas.names):
            out.append('has_eta')
        if fs & set(model.datainfo.names):
            out.append('has_cov')
        if fe.is_piecewise() or 'Piecewise' in str(fe):
            out.append('piecewise')
        if sum(1 for s in sset if str(getattr(s, 'symbol', '')) == par) > 1:
            out.append('multi_def')
    except Exception:
        pass
    return out


# ------------------------------------------------------------------------------------------------
# priors (cached: models are immutable)


def _other_cov(mid, gen, cov_not):
    cont, _ = covariate_columns(mid, gen)
    for c in cont:
        if c != cov_not:
            return c
    return cont[0]


@functools.lru_cache(maxsize=4096)
def prior_model(mid: str, gen: int, prior: str, par: str = '', aux: str = ''):
    """-> model after the prior transformation (raises Reject when the prior itself is refused)"""
    m = start_model(mid, gen)
    mm = M()
    if prior == 'none':
        return m
    if prior == 'cov_exp':  # other covariate effect on the same parameter
        return call(mm.add_covariate_effect, m, par, aux, 'exp', '*', clause='prior')
    if prior == 'cov_cat_add':
        return call(mm.add_covariate_effect, m, par, 'GK1' if aux != 'GK1' else 'GK2', 'cat', '+', clause='prior')
    if prior == 'boxcox':
        return call(mm.transform_etas_boxcox, m, clause='prior')
    if prior == 'tdist1':  # first eta only
        return call(mm.transform_etas_tdist, m, [m.random_variables.etas.names[0]], clause='prior')
    if prior == 'john_draper1':
        return call(mm.transform_etas_john_draper, m, [m.random_variables.etas.names[0]], clause='prior')
    if prior == 'remove_iiv':
        return call(mm.remove_iiv, m, par, clause='prior')
    if prior == 'remove_iiv_all':
        return call(mm.remove_iiv, m, clause='prior')
    if prior == 'add_iiv_prop':
        m1 = call(mm.remove_iiv, m, par, clause='prior')
        return call(mm.add_iiv, m1, par, 'prop', clause='prior')
    if prior == 'fo_abs':
        return call(mm.set_first_order_absorption, m, clause='prior')
    if prior == 'zo_abs':
        return call(mm.set_zero_order_absorption, m, clause='prior')
    if prior == 'seq_abs':
        return call(mm.set_seq_zo_fo_absorption, m, clause='prior')
    if prior == 'peripheral':
        return call(mm.add_peripheral_compartment, m, clause='prior')
    if prior == 'transit2':
        return call(mm.set_transit_compartments, m, 2, clause='prior')
    if prior == 'transit4':
        return call(mm.set_transit_compartments, m, 4, clause='prior')
    if prior == 'lag':
        return call(mm.add_lag_time, m, clause='prior')
    if prior == 'iov':
        return call(mm.add_iov, m, 'GOCC', clause='prior')
    if prior == 'allometry':
        return call(mm.add_allometry, m, allometric_variable='GC2', reference_value=40, clause='prior')
    if prior == 'remove_error':
        return call(mm.remove_error_model, m, clause='prior')
    if prior == 'additive':
        return call(mm.set_additive_error_model, m, clause='prior')
    if prior == 'proportional':
        return call(mm.set_proportional_error_model, m, clause='prior')
    if prior == 'proportional_nozp':
        return call(mm.set_proportional_error_model, call(mm.remove_error_model, m, clause='prior'), zero_protection=False, clause='prior')
    if prior == 'combined':
        return call(mm.set_combined_error_model, m, clause='prior')
    if prior == 'power':
        return call(mm.set_power_on_ruv, m, clause='prior')
    if prior == 'iiv_on_ruv':
        return call(mm.set_iiv_on_ruv, m, clause='prior')
    if prior == 'thetas':
        return call(mm.use_thetas_for_error_stdev, m, clause='prior')
    if prior == 'weighted':
        return call(mm.set_weighted_error_model, m, clause='prior')
    if prior == 'time_varying':
        return call(mm.set_time_varying_error_model, m, 3.0, clause='prior')
    if prior == 'blq_m4':
        return call(mm.transform_blq, m, 'm4', lloq=0.5, clause='prior')
    if prior == 'blq_m3':
        return call(mm.transform_blq, m, 'm3', lloq=0.5, clause='prior')
    raise HarnessError(f'unknown prior {prior}')


def get_prior(mid, gen, prior, par='', aux=''):
    try:
        return prior_model(mid, gen, prior, par, aux)
    except Reject as r:
        raise Reject(r.why)


# ================================================================================================
# sub-check 1: covariate effects

# custom effects: (string given to pharmpy, reference lambda(cov, thetas, stats), statistics used, number of thetas)
CUSTOM = [
    ('((cov/std) - median) * theta', lambda c, t, s: ((c / s['std']) - s['median']) * t[0], ('std', 'median'), 1),  # user guide
    ('1 + theta*(cov - mean)', lambda c, t, s: 1 + t[0] * (c - s['mean']), ('mean',), 1),
    ('exp(theta1*(cov - median)) + theta2*cov/mean', lambda c, t, s: F._exp(t[0] * (c - s['median'])) + t[1] * c / s['mean'], ('median', 'mean'), 2),
    ('theta*cov', lambda c, t, s: t[0] * c, (), 1),
]
EFFECTS = ['lin', 'cat', 'cat2', 'piece_lin', 'exp', 'pow'] + [f'custom{i}' for i in range(len(CUSTOM))]
COV_PRIORS = ['none', 'none', 'cov_exp', 'cov_cat_add', 'boxcox', 'remove_iiv', 'iov', 'allometry', 'fo_abs']



def idx(n):
    return st.sampled_from(list(range(n)))


COV_SPEC = st.fixed_dictionaries(
    dict(
        m=model_ids(),
        gen=idx(NGEN),
        prior=idx(len(COV_PRIORS)),
        par=idx(6),
        cov=idx(12),
        eff=idx(len(EFFECTS)),
        op=idx(2),
        nested=idx(6),
        k=st.integers(0, 30),
        r=st.integers(0, 400),
    )
)


@functools.lru_cache(maxsize=None)
def stat_cands(mid, gen, cov, stat):
    cols = columns(mid, gen)
    return F.stat_candidates(stat, cols['ID'], cols[cov])


@functools.lru_cache(maxsize=None)
def mode_cands(mid, gen, cov):
    cols = columns(mid, gen)
    return F.most_common_candidates(cols['ID'], cols[cov])


def run_covariate(spec):
    mm = M()
    mid = resolve_model(spec['m'])
    gen = spec['gen'] % NGEN
    effect = EFFECTS[spec['eff'] % len(EFFECTS)]
    op = '*+'[spec['op'] % 2]
    nested = spec['nested'] % 6 == 0
    k, r = spec['k'], spec['r']
    pars = individual_parameters(mid, gen)
    if not pars:
        raise Reject('no individual parameters')
    par = pars[spec['par'] % len(pars)]
    cont, cat = covariate_columns(mid, gen)
    pool = cat if effect in F.CATEGORICAL_EFFECTS else cont
    cov = pool[spec['cov'] % len(pool)]
    prior = COV_PRIORS[spec['prior'] % len(COV_PRIORS)]
    m1 = get_prior(mid, gen, prior, par, _other_cov(mid, gen, cov))
    if par not in {str(s.symbol) for s in m1.statements.before_odes if hasattr(s, 'symbol')}:
        raise Reject('parameter vanished in prior')

    custom = None
    eff_arg = effect
    if effect.startswith('custom'):
        custom = CUSTOM[int(effect[6:])]
        eff_arg = custom[0]
    m2 = call(mm.add_covariate_effect, m1, par, cov, eff_arg, op, allow_nested=nested, clause='add_covariate_effect')
    if m2 is m1 or m2.statements == m1.statements:
        raise Reject('documented: effect already exists, model returned unchanged')
    thetas = new_names(m2.parameters.names, m1.parameters.names)
    classes = [f'effect={effect if custom is None else "custom"}', f'op={op}', f'prior={prior}']
    struct = carries_structure(m1, par)
    classes += struct
    evals = 0

    p1 = base_point(m1, k, r)
    cols = columns(mid, gen)

    def before_after(covval, thvals):
        pa = with_(p1, data={cov: covval})
        pb = extend_point(m2, pa, k, new_params=thvals)
        a, b = evaluate(m1, pa), evaluate(m2, pb)
        return val(a, par), val(b, par), pb

    detail = f'{mid} gen={gen} prior={prior}: add_covariate_effect({par!r}, {cov!r}, {eff_arg!r}, {op!r}, allow_nested={nested})'
    cvals = [v for v in cols[cov] if v == v]
    spread = max(cvals) - min(cvals)
    # thetas scaled to the spread of the covariate so that exp / lin effects stay in a comparable range
    scale = 1.0 if (effect in F.CATEGORICAL_EFFECTS or effect == 'pow') else max(1.0, spread)
    thvals = {t: _gval(i + 3, k, -0.35, 0.35) / scale for i, t in enumerate(thetas)}
    covval = p1.data[cov]
    matched_ref = None
    dep_before = _depends_on_column(m1, par, cov, p1)
    ntag = '[nested-on-same-covariate]' if dep_before else ''

    if effect in F.CONTINUOUS_EFFECTS or custom is not None:
        need = F.N_THETAS[effect] if custom is None else custom[3]
        if len(thetas) != need:
            raise Violation('covariate:theta-count', observed=thetas, expected=need, detail=detail)
        Pb, Pa, _ = before_after(covval, thvals)
        tv = [thvals[t] for t in thetas]
        if custom is None:
            cands = stat_cands(mid, gen, cov, 'median')
            exp = {nm: F.apply_operation(Pb, op, F.cov_effect(effect, covval, tv, med)) for nm, med in cands.items()}
        else:
            statnames = custom[2]
            exp = {}
            for nm in ('all_records', 'baselines', 'per_individual_then_group'):
                s = {sn: stat_cands(mid, gen, cov, sn)[nm] for sn in statnames}
                try:
                    exp[nm] = F.apply_operation(Pb, op, custom[1](covval, tv, s))
                except (OverflowError, ZeroDivisionError, ValueError):
                    exp[nm] = math.nan
        evals += 1
        if not finite(Pb):
            raise Reject('parameter before not finite at point')
        ok = [nm for nm, e in exp.items() if close(Pa, e, rtol=RTOL)]
        if not ok:
            raise Violation(
                f'covariate{ntag}:formula:{effect if custom is None else "custom"}', observed=Pa, expected=exp,
                detail=f'{detail}; {par} before={Pb} {cov}={covval} thetas={thvals}; expected per reading of the statistic',
            )
        distinct_vals = len({round(e, 12) for e in exp.values() if e == e})
        if distinct_vals > 1:
            classes.append('stat=' + '|'.join(ok))
        else:
            classes.append('stat=readings-coincide')
        if not finite(Pa):
            classes.append('nonfinite')
        # second point: on the other side of the median (piece_lin uses the other theta)
        if custom is None:
            # every reading of the median that explained the first point must also explain the second one
            # (several can survive when they coincide or the effect under/overflows at the first point)
            still, seen = [], {}
            for nm in ok:
                med = cands[nm]
                other = med + 0.37 * spread if covval <= med else med - 0.41 * spread
                if effect == 'pow' and other * med <= 0:
                    other = med * 1.5
                Pb2, Pa2, _ = before_after(other, thvals)
                e2 = F.apply_operation(Pb2, op, F.cov_effect(effect, other, tv, med))
                evals += 1
                seen[nm] = dict(cov=other, median=med, observed=Pa2, expected=e2)
                if close(Pa2, e2, rtol=RTOL):
                    still.append(nm)
            if not still:
                raise Violation(f'covariate{ntag}:formula:{effect}:other-side', observed={n_: v['observed'] for n_, v in seen.items()}, expected=seen, detail=f'{detail}; thetas={thvals}')
            med = cands[still[0]]
            matched_ref = med
            # neutrality at the reference (derived: templates are 1 at cov == median; neutral for '*')
            if F.neutral_at_reference(effect, op):
                Pb3, Pa3, _ = before_after(med, thvals)
                evals += 1
                if not close(Pa3, Pb3, rtol=RTOL):
                    raise Violation(f'covariate{ntag}:neutral:{effect}', observed=Pa3, expected=Pb3, detail=f'{detail}; at {cov}=median={med}')
    else:
        # categorical: every level of the column
        levels = sorted({v for v in cols[cov] if v == v})
        mc = mode_cands(mid, gen, cov)
        if len(thetas) < 1:
            raise Violation('covariate:theta-count', observed=thetas, expected='>=1', detail=detail)
        ratios = {}
        for lv in levels:
            Pb, Pa, _ = before_after(lv, thvals)
            if not finite(Pb):
                raise Reject('parameter before not finite at point')
            evals += 1
            # which coveff value was applied? (invert the operation)
            g = Pa - Pb if op == '+' else (Pa / Pb if Pb != 0 else math.nan)
            ratios[lv] = g
        ok = []
        why = {}
        for nm, tops in mc.items():
            for top in sorted(tops):
                used = {}
                good = True
                for lv in levels:
                    g = ratios[lv]
                    if lv == top:
                        if not close(g, 1.0, rtol=1e-8):
                            good = False
                            why[(nm, top)] = f'level {lv} (most common) has coveff {g}, expected 1'
                            break
                        continue
                    hit = [t for t in thetas if close(g, F.cat_effect(effect, False, thvals[t]), rtol=1e-8)]
                    hit = [t for t in hit if t not in used.values()]
                    if not hit:
                        good = False
                        why[(nm, top)] = f'level {lv} has coveff {g}: not the documented function of an unused new theta {thvals}'
                        break
                    used[lv] = hit[0]
                if good:
                    ok.append(nm)
                    matched_ref = top
        if not ok:
            raise Violation(
                f'covariate{ntag}:formula:{effect}', observed={str(k_): v for k_, v in ratios.items()}, expected={str(k_): sorted(v) for k_, v in mc.items()},
                detail=f'{detail}; applied coveff per level {ratios}; thetas={thvals}; most common level candidates {mc}; {why}',
            )
        classes.append('mode=' + ('|'.join(sorted(set(ok))) if mc['by_records'] != mc['by_individuals'] else 'readings-coincide'))
        classes.append(f'levels={len(levels)}')
        if F.neutral_at_reference(effect, op):
            Pb3, Pa3, _ = before_after(matched_ref, thvals)
            evals += 1
            if not close(Pa3, Pb3, rtol=RTOL):
                raise Violation(f'covariate{ntag}:neutral:{effect}', observed=Pa3, expected=Pb3, detail=f'{detail}; at most common level {matched_ref}')

    # remove_covariate_effect(add(...)) restores the function (only when there was no dependence before)
    pa = with_(p1, data={cov: covval})
    if not dep_before:
        m3 = call(mm.remove_covariate_effect, m2, par, cov, clause='remove_covariate_effect')
        p3 = extend_point(m3, pa, k)
        same_function(m1, pa, m3, p3, names=[par], clause='covariate:remove-restores', detail=detail + f' then remove_covariate_effect({par!r}, {cov!r})')
        evals += 1
        classes.append('removed')
    else:
        classes.append('nested')
    nt = bool(struct) or prior != 'none'
    key = f'{mid}|{gen}|{prior}|{par}|{cov}|{effect}|{op}|{nested}'
    return CaseInfo(nontrivial=nt, classes=tuple(classes), key=key, render=dict(case=detail, thetas=thetas, structure=struct), evals=evals)


def _depends_on_column(model, par, col, p: Point):
    a = val(evaluate(model, p), par)
    for d in (1.0, -0.37, 2.5):
        b = val(evaluate(model, with_(p, data={col: p.data[col] + d})), par)
        if not close(a, b, rtol=1e-13):
            return True
    try:
        return col in {str(s) for s in model.statements.before_odes.full_expression(par).free_symbols}
    except Exception:
        return False


# ================================================================================================
# sub-check 2: variability (IIV, IOV, eta transformations, allometry)

# (string, reference, shape): shape 'sum' = top-level sum without parentheses ("operation: Whether the new IIV should be
# added or multiplied": the custom effect as a whole is multiplied)
IIV_CUSTOM = [
    ('exp(eta_new)', lambda e: math.exp(e), 'atom'),
    ('eta_new', lambda e: e, 'atom'),
    ('(1 + eta_new)', lambda e: 1 + e, 'atom'),
    ('eta_new + 1', lambda e: e + 1, 'sum'),
    ('eta_new**2 + eta_new', lambda e: e * e + e, 'sum'),
]
IIV_FORMS = ['add', 'prop', 'exp', 'exp', 'log', 're_log'] + [f'custom{i}' for i in range(len(IIV_CUSTOM))]
VAR_EXTS = ['add_iiv'] * 5 + ['add_iiv_list'] * 3 + ['add_pk_iiv'] * 2 + ['add_iov'] * 3 + ['boxcox', 'tdist', 'john_draper'] * 2 + ['allometry'] * 3
VAR_PRIORS = ['none', 'none', 'remove_iiv', 'remove_iiv', 'remove_iiv_all', 'cov_exp', 'boxcox', 'fo_abs', 'peripheral', 'iov', 'allometry', 'add_iiv_prop', 'transit2', 'tdist1', 'john_draper1']
IOV_DIST = ['disjoint', 'joint', 'same-as-iiv', 'disjoint']
REFVALS = [70, 40, 1.5, '3.5', 'GC2']


VAR_SPEC = st.fixed_dictionaries(
    dict(
        m=model_ids(),
        gen=idx(NGEN),
        prior=idx(len(VAR_PRIORS)),
        ext=idx(len(VAR_EXTS)),
        par=idx(8),
        par2=idx(8),
        form=idx(len(IIV_FORMS)),
        op=idx(2),
        etas=st.integers(0, 31),
        occ=idx(6),
        dist=idx(len(IOV_DIST)),
        how=idx(4),
        cov=idx(12),
        ref=idx(len(REFVALS)),
        k=st.integers(0, 30),
        r=st.integers(0, 400),
    )
)


def assigned_before_odes(model):
    return [str(s.symbol) for s in model.statements.before_odes if hasattr(s, 'symbol')]


def target_parameters(mid, gen, m1):
    """candidate parameters: individual parameters of the start model and PK parameters of the model, still assigned"""
    out = list(individual_parameters(mid, gen))
    try:
        with warnings.catch_warnings():
            warnings.simplefilter('ignore')
            out += [p for p in M().get_pk_parameters(m1) if p not in out]
    except Exception:
        pass
    have = set(assigned_before_odes(m1))
    return [p for p in out if p in have]


def changed_vars(model, mv0, mv1):
    """names (in order of first assignment) whose final value differs between two evaluations of the same model"""
    seen, out = set(), []
    for s in model.statements:
        nm = str(getattr(s, 'symbol', ''))
        if not nm or nm in seen:
            continue
        seen.add(nm)
        a, b = mv0.vars.get(nm, UNDEF), mv1.vars.get(nm, UNDEF)
        if a is UNDEF or b is UNDEF:
            if a is not b:
                out.append(nm)
        elif not close(a, b, rtol=1e-13, atol=0.0) and not (a != a and b != b):
            out.append(nm)
    return out


def run_variability(spec):
    mid = resolve_model(spec['m'])
    gen = spec['gen'] % NGEN
    ext = VAR_EXTS[spec['ext'] % len(VAR_EXTS)]
    prior = VAR_PRIORS[spec['prior'] % len(VAR_PRIORS)]
    k, r = spec['k'], spec['r']
    pars0 = individual_parameters(mid, gen)
    if not pars0:
        raise Reject('no individual parameters')
    ppar = pars0[spec['par'] % len(pars0)]  # parameter the prior works on
    cont, cat = covariate_columns(mid, gen)
    m1 = get_prior(mid, gen, prior, ppar, cont[spec['cov'] % len(cont)])
    pars = target_parameters(mid, gen, m1)
    if not pars:
        raise Reject('no target parameters')
    # the prior's parameter is preferred (so that it carries the prior's structure), else any
    par = ppar if (ppar in pars and spec['par2'] % 2 == 0) else pars[spec['par2'] % len(pars)]
    p1 = base_point(m1, k, r)
    fn = dict(add_iiv=_var_add_iiv, add_iiv_list=_var_add_iiv_list, add_pk_iiv=_var_add_pk_iiv, add_iov=_var_add_iov, boxcox=_var_transform, tdist=_var_transform,
              john_draper=_var_transform, allometry=_var_allometry)[ext]
    head = f'{mid} gen={gen} prior={prior}({ppar})'
    classes, key, detail, evals = fn(spec, mid, gen, m1, p1, par, pars, head, ext)
    struct = carries_structure(m1, par) if par else []
    classes = [f'ext={ext}', f'prior={prior}'] + classes + struct
    nt = bool(struct) or prior != 'none'
    return CaseInfo(nontrivial=nt, classes=tuple(classes), key=f'{mid}|{gen}|{prior}|{ppar}|{key}', render=dict(case=detail, structure=struct), evals=evals)


def _var_add_iiv(spec, mid, gen, m1, p1, par, pars, head, ext):
    mm = M()
    k = spec['k']
    form = IIV_FORMS[spec['form'] % len(IIV_FORMS)]
    op = '*+'[spec['op'] % 2]
    custom = None
    arg = form
    if form.startswith('custom'):
        custom = IIV_CUSTOM[int(form[6:])]
        arg = custom[0]
    kwargs = {}
    free = [p for p in pars if f'IIV_{p}' not in m1.parameters.names]
    if free and spec['how'] % 4 != 3 and par not in free:
        par = free[spec['par2'] % len(free)]  # add_iiv names the new omega IIV_<par>: prefer parameters where that is free
    eta_names = set(m1.random_variables.names)
    if f'ETA_{par}' in eta_names and spec['how'] % 2 == 0:
        kwargs['eta_names'] = [f'ETA_NEW_{par}']
    detail = f'{head}: add_iiv({par!r}, {arg!r}, {op!r}{", eta_names=" + repr(kwargs["eta_names"]) if kwargs else ""})'
    m2 = call(mm.add_iiv, m1, par, arg, op, clause='add_iiv', **kwargs)
    new = new_names(m2.random_variables.etas.names, m1.random_variables.etas.names)
    if len(new) != 1:
        raise Violation('iiv:new-eta-count', observed=new, expected=1, detail=detail)
    eta = new[0]
    e = _gval(5, k, -0.5, 0.5)
    p2 = extend_point(m2, p1, k, new_etas={eta: e})
    a, b = evaluate(m1, p1), evaluate(m2, p2)
    Pb, Pa = val(a, par), val(b, par)
    if not finite(Pb):
        raise Reject('parameter before not finite at point')
    if custom is None:
        exp = F.iiv(form, op, Pb, e)
    else:
        exp = F.apply_operation(Pb, op, custom[1](e))
    evals = 1
    classes = [f'form={form if custom is None else "custom"}', f'op={op}']
    if exp != exp:
        classes.append('formula-undefined-at-point')
    if not close(Pa, exp, rtol=RTOL):
        raise Violation(f'iiv:formula:{form if custom is None else "custom-" + custom[2]}:{op}', observed=Pa, expected=exp, detail=f'{detail}; {par} before={Pb}, {eta}={e}')
    neutral = F.iiv_neutral_at_zero(form, op) if custom is None else close(F.apply_operation(1.2345, op, custom[1](0.0)), 1.2345)
    if neutral:
        p20 = with_(p2, etas={eta: 0.0})
        same_function(m1, p1, m2, p20, names=[par], clause='iiv:neutral-at-eta-zero', detail=detail)
        evals += 1
        classes.append('neutral-checked')
    # remove_iiv(new eta) restores the previous function (custom effects: only when neutral at eta = 0, there is no
    # other way to tell what "removed" means)
    if custom is not None and not neutral:
        classes.append('custom-not-neutral(remove unasserted)')
        return classes, f'add_iiv|{par}|{form}|{op}|{bool(kwargs)}', detail, evals
    m3 = call(mm.remove_iiv, m2, eta, clause='remove_iiv')
    p3 = extend_point(m3, p1, k)
    same_function(m1, p1, m3, p3, names=[par], clause=f'iiv:remove-restores:{form if custom is None else "custom"}', detail=detail + f' then remove_iiv({eta!r})')
    evals += 1
    return classes, f'add_iiv|{par}|{form}|{op}|{bool(kwargs)}', detail, evals


def _var_add_iiv_list(spec, mid, gen, m1, p1, par, pars, head, ext):
    """one add_iiv call with lists (2-3 parameters, per-parameter expression / operation / eta name, unequal entries) must be
    the same model function as the single-parameter calls one after the other (each of which is checked against the
    documented formula by _var_add_iiv)"""
    mm = M()
    k = spec['k']
    rvn = set(m1.random_variables.names)
    free = [p for p in pars if f'IIV_{p}' not in m1.parameters.names and f'ETA_{p}' not in rvn]
    if len(free) < 2:
        raise Reject('fewer than two parameters free for add_iiv')
    n = 2 + (spec['how'] % 2 if len(free) >= 3 else 0)
    start = spec['par2'] % len(free)
    plist = [free[(start + i) % len(free)] for i in range(n)]
    sel = spec['etas']
    forms, ops, args = [], [], []
    for i in range(n):
        form = IIV_FORMS[(spec['form'] + i * (1 + sel % 5)) % len(IIV_FORMS)]
        if form == 're_log':
            form = 'prop'
        forms.append(form)
        args.append(IIV_CUSTOM[int(form[6:])][0] if form.startswith('custom') else form)
        ops.append('*+'[(spec['op'] + i + (sel >> i)) % 2])
    # argument shapes: lists everywhere / one expression for all / one operation for all
    shape = spec['dist'] % 4
    expr_arg = args if shape != 1 else args[0]
    op_arg = ops if shape != 2 else ops[0]
    if shape == 1:
        args = [args[0]] * n
    if shape == 2:
        ops = [ops[0]] * n
    kwargs = {}
    if shape == 3:
        kwargs['eta_names'] = [f'ETA_L{i + 1}_{p}' for i, p in enumerate(plist)]
    detail = f'{head}: add_iiv({plist!r}, {expr_arg!r}, {op_arg!r}{", eta_names=" + repr(kwargs["eta_names"]) if kwargs else ""})'
    m2 = call(mm.add_iiv, m1, plist, expr_arg, op_arg, clause='add_iiv', **kwargs)
    ms = m1
    for i, p in enumerate(plist):
        kw = dict(eta_names=[kwargs['eta_names'][i]]) if kwargs else {}
        ms = call(mm.add_iiv, ms, p, args[i], ops[i], clause='add_iiv(single)', **kw)
    new2 = new_names(m2.random_variables.etas.names, m1.random_variables.etas.names)
    news = new_names(ms.random_variables.etas.names, m1.random_variables.etas.names)
    if sorted(new2) != sorted(news):
        raise Violation('iiv-list:eta-names', observed=new2, expected=news, detail=detail)
    ev_ = {e: _gval(i + 5, k, -0.5, 0.5) for i, e in enumerate(sorted(new2))}
    p2 = extend_point(m2, p1, k, new_etas=ev_)
    ps = extend_point(ms, p1, k, new_etas=ev_)
    same_function(ms, ps, m2, p2, names=assigned_before_odes(m1), clause='iiv-list:differs-from-single-calls', detail=detail)
    unequal = len(set(ops)) > 1
    classes = [f'n_params={n}', f'shape={shape}', 'ops-unequal' if unequal else 'ops-equal', 'forms-unequal' if len(set(args)) > 1 else 'forms-equal']
    return classes, f'add_iiv_list|{plist}|{args}|{ops}|{shape}', detail, 2


def _var_add_pk_iiv(spec, mid, gen, m1, p1, par, pars, head, ext):
    mm = M()
    k = spec['k']
    detail = f'{head}: add_pk_iiv()'
    m2 = call(mm.add_pk_iiv, m1, clause='add_pk_iiv')
    new = new_names(m2.random_variables.etas.names, m1.random_variables.etas.names)
    if not new:
        raise Reject('documented: every PK parameter already has IIV')
    zero = {e: 0.0 for e in new}
    p20 = extend_point(m2, p1, k, new_etas=zero)
    same_function(m1, p1, m2, p20, names=assigned_before_odes(m1), clause='pk_iiv:neutral-at-eta-zero', detail=detail)
    mv0 = evaluate(m2, p20)
    evals = 1
    roots = []
    for i, e in enumerate(new):
        v = _gval(i + 9, k, -0.5, 0.5)
        mv = evaluate(m2, with_(p20, etas={e: v}))
        ch = changed_vars(m2, mv0, mv)
        evals += 1
        if not ch:
            raise Violation('pk_iiv:new-eta-without-effect', observed=e, detail=detail)
        root = ch[0]
        exp = F.iiv('exp', '*', val(mv0, root), v)
        if not close(val(mv, root), exp, rtol=RTOL):
            raise Violation('pk_iiv:formula:exp', observed=val(mv, root), expected=exp, detail=f'{detail}; {root} at {e}={v}, at 0: {val(mv0, root)}')
        roots.append(root)
    if len(set(roots)) != len(roots):
        raise Violation('pk_iiv:two-etas-on-one-parameter', observed=roots, detail=detail)
    # "all parameters that are included in the ODE": every ODE symbol that depends on a theta depends on an eta afterwards
    ode = m2.statements.ode_system
    if ode is not None:
        assigned = set(assigned_before_odes(m2))
        syms = sorted(str(s) for s in ode.free_symbols if str(s) in assigned)
        thetas = {n: v * 1.37 + 0.011 for n, v in p20.params.items() if n not in set(m2.random_variables.parameter_names)}
        alletas = {n: v + 0.11 * (i + 1) * (-1) ** i for i, (n, v) in enumerate(p20.etas.items())}
        mv_t = evaluate(m2, with_(p20, params=thetas))
        mv_e = evaluate(m2, with_(p20, etas=alletas))
        evals += 2
        for s in syms:
            a0, at, ae = val(mv0, s), val(mv_t, s), val(mv_e, s)
            if finite(a0, at, ae) and not close(a0, at, rtol=1e-12) and close(a0, ae, rtol=1e-13):
                raise Violation('pk_iiv:ode-parameter-without-iiv', observed=s, detail=f'{detail}; {s} depends on thetas but on no eta after add_pk_iiv; new etas {new}')
    return [f'n_new={min(len(new), 4)}'], 'add_pk_iiv', detail, evals


def _var_add_iov(spec, mid, gen, m1, p1, par, pars, head, ext):
    mm = M()
    k = spec['k']
    _, cat = covariate_columns(mid, gen)
    colsd = columns(mid, gen)
    occs = ['GOCC', 'GOCC', 'GK2'] + [c for c in cat if c not in GEN_COLS and all(float(v).is_integer() for v in colsd[c])][:2]
    occ = occs[spec['occ'] % len(occs)]
    dist = IOV_DIST[spec['dist'] % len(IOV_DIST)]
    how = spec['how'] % 4
    etas1 = list(m1.random_variables.etas.names)
    iiv1 = list(m1.random_variables.iiv.names)
    if how == 0:
        lop = None
    elif how == 1:
        lop = [par]
    elif how == 2:
        if not iiv1:
            raise Reject('no iiv etas')
        lop = [iiv1[spec['etas'] % len(iiv1)]]
    else:
        lop = [p for i, p in enumerate(pars) if (spec['etas'] >> i) & 1] or [par]
    detail = f'{head}: add_iov({occ!r}, {lop!r}, distribution={dist!r})'
    m2 = call(mm.add_iov, m1, occ, lop, None, dist, clause='add_iov')
    new = new_names(m2.random_variables.etas.names, etas1)
    if not new:
        raise Violation('iov:no-new-etas', detail=detail)
    levels = sorted({v for v in columns(mid, gen)[occ] if v == v})
    zero = {e: 0.0 for e in new}
    p20 = extend_point(m2, p1, k, new_etas=zero)
    names1 = assigned_before_odes(m1)
    same_function(m1, p1, m2, p20, names=names1, clause='iov:neutral-at-eta-zero', detail=detail)
    mv0 = evaluate(m2, p20)
    evals = 1
    active = []
    for i, e in enumerate(new):
        v = _gval(i + 13, k, -0.4, 0.4)
        mv = evaluate(m2, with_(p20, etas={e: v}))
        evals += 1
        if changed_vars(m2, mv0, mv):
            active.append((e, v))
    classes = [f'dist={dist}', f'levels={min(len(levels), 5)}', f'how={how}']
    if p1.data[occ] in levels:
        if not active:
            raise Violation('iov:no-eta-acts-on-occasion', observed=new, detail=f'{detail}; record has {occ}={p1.data[occ]}')
        n_iov_based = len(new) // len(levels) if len(new) % len(levels) == 0 else None
        if n_iov_based is not None and len(active) > n_iov_based:
            raise Violation('iov:several-occasion-etas-act-on-one-record', observed=[a[0] for a in active], expected=n_iov_based, detail=detail)
        # additive on the IIV eta it is based on
        used = set()
        for e, v in active:
            mvb = evaluate(m2, with_(p20, etas={e: v}))
            hit = None
            for base in iiv1:
                if base in used:
                    continue
                mva = evaluate(m1, with_(p1, etas={base: p1.etas[base] + v}))
                evals += 1
                if compare(mva, mvb, rtol=RTOL, names=names1) is None:
                    hit = base
                    break
            if hit is None:
                raise Violation('iov:additive-on-eta', observed=e, detail=f'{detail}; {e}={v} on a record with {occ}={p1.data[occ]} is not equivalent to adding {v} to any IIV eta of {iiv1}')
            used.add(hit)
        classes.append(f'active={min(len(active), 4)}')
    # remove_iov restores
    m3 = call(mm.remove_iov, m2, clause='remove_iov')
    if prior_has_iov := bool(m1.random_variables.iov.names):
        classes.append('had-iov-before')
    else:
        p3 = extend_point(m3, p1, k)
        same_function(m1, p1, m3, p3, names=names1, clause='iov:remove-restores', detail=detail + ' then remove_iov()')
        evals += 1
    return classes, f'add_iov|{occ}|{lop}|{dist}', detail, evals


def _var_transform(spec, mid, gen, m1, p1, par, pars, head, ext):
    mm = M()
    k = spec['k']
    etas1 = [e for e in m1.random_variables.etas.names if e != 'eta_dummy']  # placeholder eta left by remove_iiv()
    if not etas1:
        raise Reject('no etas')
    sel = [e for i, e in enumerate(etas1) if (spec['etas'] >> i) & 1]
    how = spec['how'] % 4
    if how == 0 or not sel:
        arg, target = None, etas1
        iiv_only = [e for e in m1.random_variables.iiv.names if e != 'eta_dummy']
    elif how == 1:
        arg, target = sel[0], [sel[0]]
    else:
        arg, target = sel, sel
    fn = dict(boxcox=mm.transform_etas_boxcox, tdist=mm.transform_etas_tdist, john_draper=mm.transform_etas_john_draper)[ext]
    prefix = dict(boxcox='ETAB', tdist='ETAT', john_draper='ETAD')[ext]
    tag = '[same-transformation-applied-before]' if any(n.startswith(prefix) and n[len(prefix):].isdigit() for n in assigned_before_odes(m1)) else ''
    detail = f'{head}: transform_etas_{ext}({arg!r})'
    m2 = call(fn, m1, arg, clause=f'transform_etas_{ext}')
    thetas = new_names(m2.parameters.names, m1.parameters.names)
    if arg is None and len(thetas) != len(target) and len(thetas) == len(iiv_only):
        target = iiv_only  # "If None, all etas will be transformed": IOV etas are left alone (accepted reading)
    if len(thetas) != len(target):
        raise Violation(f'transform:{ext}:theta-count', observed=thetas, expected=len(target), detail=detail)
    if ext == 'tdist':
        tv = {t: 4.0 + 10.0 * abs(_gval(i + 17, k)) for i, t in enumerate(thetas)}
    else:
        tv = {t: _gval(i + 17, k, -1.5, 1.5) for i, t in enumerate(thetas)}
    p2 = extend_point(m2, p1, k, new_params=tv)
    mvb = evaluate(m2, p2)
    names1 = [n for n in assigned_before_odes(m1)]
    T = F.ETA_TRANSFORMS[ext]
    evals = 1
    ok = False
    last = None
    perms = itertools.islice(itertools.permutations(range(len(target))), 24)
    for perm in perms:
        et = {e: T(p1.etas[e], tv[thetas[perm[i]]]) for i, e in enumerate(target)}
        mva = evaluate(m1, with_(p1, etas=et))
        evals += 1
        last = compare(mva, mvb, rtol=RTOL, names=names1)
        if last is None:
            ok = True
            break
    if not ok:
        what, got, exp = last
        raise Violation(f'transform:{ext}{tag}:formula', observed=_j(got), expected=_j(exp), detail=f'{detail}; {what}; model with transformed etas != original model evaluated at T(eta); thetas {tv}, etas { {e: p1.etas[e] for e in target} }')
    # neutral at eta = 0 (T(0) = 0)
    z = {e: 0.0 for e in target}
    same_function(m1, with_(p1, etas=z), m2, with_(p2, etas=z), names=names1, clause=f'transform:{ext}:neutral-at-eta-zero', detail=detail)
    evals += 1
    return [f'n_etas={min(len(target), 4)}', f'arg={"none" if arg is None else type(arg).__name__}'], f'{ext}|{arg}', detail, evals


def _var_allometry(spec, mid, gen, m1, p1, par, pars, head, ext):
    mm = M()
    k = spec['k']
    cont, _ = covariate_columns(mid, gen)
    var = cont[spec['cov'] % len(cont)]
    ref = REFVALS[spec['ref'] % len(REFVALS)]
    if ref == var:
        ref = 70
    how = spec['how'] % 4
    if how == 0:
        plist = None
    elif how == 1:
        plist = [par]
    else:
        plist = [p for i, p in enumerate(pars) if (spec['etas'] >> i) & 1] or [par]
    detail = f'{head}: add_allometry(allometric_variable={var!r}, reference_value={ref!r}, parameters={plist!r})'
    kwargs = {}
    if how == 3:
        kwargs = dict(fixed=False)
    m2 = call(mm.add_allometry, m1, allometric_variable=var, reference_value=ref, parameters=plist, clause='add_allometry', **kwargs)
    thetas = new_names(m2.parameters.names, m1.parameters.names)
    names1 = assigned_before_odes(m1)
    Z = p1.data[ref] if isinstance(ref, str) and ref in p1.data else float(ref)
    if close(p1.data[var], Z, rtol=1e-3):
        p1 = with_(p1, data={var: Z * 1.37})  # keep the record away from the reference value (tested separately)
    X = p1.data[var]
    # parameters that already depend on the variable: "nothing will be added"
    dep = {p: _depends_on_column(m1, p, var, p1) for p in (plist or [])}
    if plist is not None:
        want = sum(1 for p in plist if not dep[p])
        if len(thetas) != want:
            raise Violation('allometry:theta-count', observed=thetas, expected=want, detail=f'{detail}; already depending on {var}: {dep}')
    if not thetas:
        same_function(m1, p1, m2, extend_point(m2, p1, k), names=names1, clause='allometry:noop-changed-model', detail=detail)
        return ['documented-noop'], f'allometry|{var}|{ref}|{plist}', detail, 1
    zero = {t: 0.0 for t in thetas}
    p20 = extend_point(m2, p1, k, new_params=zero)
    mv0 = evaluate(m2, p20)
    # exponent zero: (X/Z)**0 == 1
    same_function(m1, p1, m2, p20, names=names1, clause='allometry:neutral-at-exponent-zero', detail=detail)
    evals = 1
    roots = []
    for i, t in enumerate(thetas):
        tval = 0.3 + abs(_gval(i + 21, k, -1.2, 1.2))
        mv = evaluate(m2, with_(p20, params={t: tval}))
        evals += 1
        ch = changed_vars(m2, mv0, mv)
        if not ch:
            raise Violation('allometry:theta-without-effect', observed=t, detail=detail)
        root = ch[0]
        exp = F.allometry(val(mv0, root), X, Z, tval)
        if not close(val(mv, root), exp, rtol=RTOL):
            raise Violation('allometry:formula', observed=val(mv, root), expected=exp, detail=f'{detail}; {root}: P={val(mv0, root)} X={X} Z={Z} T={tval}')
        roots.append(root)
    if plist is not None and sorted(roots) != sorted(p for p in plist if not dep[p]):
        raise Violation('allometry:wrong-parameters', observed=roots, expected=[p for p in plist if not dep[p]], detail=detail)
    for p, d in dep.items():
        if d and p in roots:
            raise Violation('allometry:added-despite-existing-effect', observed=p, detail=detail)
    # neutral at the reference value with non-zero exponents
    full = {t: 0.3 + abs(_gval(i + 21, k, -1.2, 1.2)) for i, t in enumerate(thetas)}
    same_function(m1, with_(p1, data={var: Z}), m2, with_(p20, params=full, data={var: Z}), names=names1, clause='allometry:neutral-at-reference', detail=detail)
    evals += 1
    return [f'n_thetas={min(len(thetas), 4)}', f'params={"default" if plist is None else "given"}'], f'allometry|{var}|{ref}|{plist}|{how == 3}', detail, evals


# ================================================================================================
# sub-check 3: error models

ERR_EXTS = (
    ['additive', 'additive_log', 'proportional', 'proportional_log', 'proportional_nozp', 'proportional_log_nozp', 'combined', 'combined_log']
    + ['weighted', 'dtbs', 'dtbs_fixlog', 'time_varying', 'power', 'power_zp', 'iiv_on_ruv', 'thetas', 'blq_m3', 'blq_m4']
)
ERR_PRIORS = ['none', 'none', 'none', 'remove_error', 'additive', 'proportional', 'proportional_nozp', 'combined', 'power', 'iiv_on_ruv',
              'thetas', 'weighted', 'time_varying', 'blq_m4', 'blq_m3', 'cov_exp']
LLOQS = [0.1, 0.5, 2.0, 10.0]
CUTOFFS = [1.0, 2.5, 24.0]
BLQ_SUPPORTED_PRIORS = ('none', 'remove_error', 'additive', 'proportional', 'proportional_nozp', 'combined', 'power', 'cov_exp')

ERR_SPEC = st.fixed_dictionaries(
    dict(
        m=model_ids(),
        gen=idx(NGEN),
        prior=idx(len(ERR_PRIORS)),
        ext=idx(len(ERR_EXTS)),
        dv=idx(5),
        eps=st.integers(0, 7),
        same=idx(2),
        cut=idx(len(CUTOFFS)),
        lloq=idx(len(LLOQS)),
        k=st.integers(0, 30),
        r=st.integers(0, 400),
    )
)

H = 0.5


def y_at(model, p: Point, yname, eps=None, **kw):
    e = {n: 0.0 for n in p.eps}
    if eps:
        e.update(eps)
    mv = evaluate(model, with_(p, eps=e, **kw))
    v = mv.y.get(yname, UNDEF)
    return math.nan if v is UNDEF else v


def eps_coefficients(model, p: Point, yname, **kw):
    """central finite differences of y in every epsilon (others zero); exact for the (affine) documented models"""
    out = {}
    for n in p.eps:
        a = y_at(model, p, yname, {n: H}, **kw)
        b = y_at(model, p, yname, {n: -H}, **kw)
        out[n] = (a - b) / (2 * H)
    return out


def match_multiset(got, exp, rtol=1e-8):
    """one-to-one matching of two lists of floats"""
    if len(got) != len(exp):
        return False
    for perm in itertools.permutations(range(len(exp))):
        if all(close(g, exp[j], rtol=rtol) for g, j in zip(got, perm)):
            return True
    return False


def variance_param(model, eps):
    v = model.random_variables[eps].get_variance(eps)
    return str(v)


def check_blq_branches(m1, p1, m2, p2, yname, method, lloq, supported, detail, clause):
    """m2 = BLQ-transformed m1: above LLOQ identical, below LLOQ the documented likelihood of (f, sd)."""
    dvcol = m1.datainfo.dv_column.name
    above = {dvcol: lloq + 1.0}
    below = {dvcol: lloq * 0.5}
    ya = y_at(m1, p1, yname, dict(p1.eps), data=above)
    yb = y_at(m2, p2, yname, {n: p1.eps.get(n, 0.0) for n in p2.eps}, data=above)
    if not close(ya, yb, rtol=RTOL):
        raise Violation(f'{clause}:above-lloq-changed', observed=yb, expected=ya, detail=detail)
    n = 1
    if supported:
        f = y_at(m1, p1, yname, data=above)
        co = eps_coefficients(m1, p1, yname, data=above)
        var = 0.0
        for e, c in co.items():
            if c != 0.0:
                var += c * c * p1.params[variance_param(m1, e)]
        sd = math.sqrt(var) if var >= 0 else math.nan
        exp = (F.blq_m3 if method == 'm3' else F.blq_m4)(f, sd, lloq) if sd > 0 else math.nan
        got = y_at(m2, p2, yname, {n_: p1.eps.get(n_, 0.0) for n_ in p2.eps}, data=below)
        n += 1
        if exp == exp and not close(got, exp, rtol=1e-8):
            raise Violation(f'{clause}:below-lloq:{method}', observed=got, expected=exp, detail=f'{detail}; f={f} sd={sd} (coefficients {co}) lloq={lloq}')
    return n


def _guard_not_in_y(model, yname):
    """attribution only: the error block has a piecewise (zero-protection) assignment whose symbol does not occur in the
    observation statement itself (unused left-over, or used through W = IPREDADJ)"""
    try:
        err = model.statements.after_odes
        y = err.find_assignment(yname)
        direct = {str(x) for x in y.expression.free_symbols}
        return any(hasattr(s_, 'symbol') and s_.expression.is_piecewise() and str(s_.symbol) not in direct and str(s_.symbol) != yname for s_ in err)
    except Exception:
        return False


def check_blq_self(m2, p2, yname, method, lloq, detail, clause):
    """an error-model setter applied to a BLQ-transformed model keeps the BLQ likelihood consistent with the new error model"""
    dvcol = m2.datainfo.dv_column.name
    above = {dvcol: lloq + 1.0}
    below = {dvcol: lloq * 0.5}
    f = y_at(m2, p2, yname, data=above)
    co = eps_coefficients(m2, p2, yname, data=above)
    var = sum(c * c * p2.params[variance_param(m2, e)] for e, c in co.items() if c != 0.0)
    if not var > 0:
        return 1
    sd = math.sqrt(var)
    exp = (F.blq_m3 if method == 'm3' else F.blq_m4)(f, sd, lloq)
    got = y_at(m2, p2, yname, dict(p2.eps), data=below)
    if exp == exp and not close(got, exp, rtol=1e-8):
        raise Violation(f'{clause}:below-lloq:{method}', observed=got, expected=exp, detail=f'{detail}; f={f} sd={sd} (coefficients {co}) lloq={lloq}')
    return 2


def run_error(spec):
    mid = resolve_model(spec['m'])
    gen = spec['gen'] % NGEN
    ext = ERR_EXTS[spec['ext'] % len(ERR_EXTS)]
    prior = ERR_PRIORS[spec['prior'] % len(ERR_PRIORS)]
    pars0 = individual_parameters(mid, gen)
    cont, _ = covariate_columns(mid, gen)
    m1 = get_prior(mid, gen, prior, pars0[0] if pars0 else '', cont[0])
    info, _ = _error_on(m1, mid, gen, prior, ext, spec)
    return info


MULTIDV_EXTS = ['additive', 'proportional', 'proportional_nozp', 'combined', 'additive', 'proportional', 'combined', 'power', 'iiv_on_ruv', 'time_varying',
                'additive_log', 'weighted', 'thetas']

MDV_STEP = st.fixed_dictionaries(dict(ext=idx(len(MULTIDV_EXTS)), dv=idx(5), eps=st.integers(0, 7), same=idx(2), cut=idx(len(CUTOFFS)), lloq=idx(len(LLOQS))))
MDV_SPEC = st.fixed_dictionaries(dict(gen=idx(NGEN), steps=st.lists(MDV_STEP, min_size=2, max_size=3), k=st.integers(0, 30), r=st.integers(0, 400)))


@functools.lru_cache(maxsize=None)
def multidv_models():
    """start models with >= 2 dependent variables"""
    out = []
    for n in model_names():
        try:
            if len(corpus.get(n).dependent_variables) > 1:
                out.append(n)
        except Exception:
            continue
    return tuple(out)


def run_error_multidv(spec):
    """error-model setters applied to the DVs of a multi-DV model one after the other: every step must give the
    documented form on its DV and leave the other DVs alone"""
    mids = multidv_models()
    if not mids:
        raise Reject('no multi-DV model in the corpus')
    gen = spec['gen'] % NGEN
    mid = mids[spec['r'] % len(mids)]
    m = start_model(mid, gen)
    prior = 'none'
    seen_log = False
    classes, renders, evals, keys = [], [], 0, []
    steps = spec['steps'][:3]
    if not steps:
        raise Reject('no steps')
    for j, stp in enumerate(steps):
        ext = MULTIDV_EXTS[stp['ext'] % len(MULTIDV_EXTS)]
        sp = dict(stp, k=spec['k'], r=spec['r'])
        try:
            info, m2 = _error_on(m, mid, gen, prior, ext, sp)
        except Reject as rj:
            if j == 0:
                raise
            raise Reject(f'step{j + 1}:{rj.why}')
        except Violation as v:
            v.detail = f'step {j + 1} after {renders}: {v.detail}'
            raise
        classes += [c for c in info.classes if not c.startswith('prior=')] + [f'step{j + 1}-dv={stp["dv"] % 5}']
        renders.append(info.render['case'].split(': ', 1)[-1])
        keys.append(info.key.split('|', 3)[-1])
        evals += info.evals
        m = m2
        # the label by which the next step sees this one (special structures the setters keep)
        seen_log = seen_log or '_log' in ext
        base = prior.replace('+_log', '')
        prior = ext if ext in ('iiv_on_ruv', 'time_varying') else (base if base in ('iiv_on_ruv', 'time_varying') else f'seq-{ext}')
        if seen_log and '_log' not in prior:
            prior += '+_log'  # a log-scale step happened before: f is on the log scale from now on
    return CaseInfo(nontrivial=True, classes=tuple(classes), key=f'{mid}|{gen}|' + '>'.join(keys), render=dict(case=f'{mid} gen={gen}: ' + ' ; '.join(renders)), evals=evals)


def _error_on(m1, mid, gen, prior, ext, spec):
    """one error-model extension on model m1 (label `prior` = how m1 was made) -> (CaseInfo, model after)"""
    mm = M()
    k, r = spec['k'], spec['r']
    dvs = [str(d) for d in m1.dependent_variables.keys()]
    dvids = list(m1.dependent_variables.values())
    # dv argument: 0 None (default DV); 1 / 2 first / second DV by DVID number; 3 / 4 first / second DV by name
    # (single-DV models: the only DV, given explicitly)
    dvarg = None
    yname = dvs[0]
    dvmode = spec['dv'] % 5
    if dvmode:
        i = ((dvmode - 1) % 2) % len(dvs)
        yname = dvs[i]
        dvarg = dvids[i] if dvmode <= 2 else dvs[i]
    first_only = ext in ('weighted', 'dtbs', 'dtbs_fixlog', 'thetas', 'blq_m3', 'blq_m4')
    if first_only:
        yname, dvarg = dvs[0], None
    p1 = base_point(m1, k, r)
    blq_prior = prior.startswith('blq')
    lloq_prior = 0.5
    if blq_prior and ext not in ('proportional', 'proportional_nozp', 'combined', 'power', 'power_zp'):
        raise Reject('combination with a BLQ-transformed model not documented')
    dvcol = m1.datainfo.dv_column.name
    if blq_prior:
        p1 = with_(p1, data={dvcol: lloq_prior + 1.0 + p1.data.get(dvcol, 0.0) % 3.0})
    f1 = y_at(m1, p1, yname)
    if not finite(f1) or f1 == 0.0:
        raise Reject('prediction not finite / zero at point')
    c1 = eps_coefficients(m1, p1, yname)
    head = f'{mid} gen={gen} prior={prior}'
    classes = [f'ext={ext}', f'prior={prior}', 'dv=' + ('none' if dvarg is None else type(dvarg).__name__)]
    n_act1 = sum(1 for c in c1.values() if c != 0.0)
    evals = 1
    others = [d for d in dvs if d != yname]

    def others_unchanged(m2, p2, detail):
        for d in others:
            a, b = y_at(m1, p1, d), y_at(m2, p2, d)
            if not close(a, b, rtol=RTOL):
                raise Violation('error:other-dv-changed', observed=b, expected=a, detail=f'{detail}; {d}')

    if ext.split('_')[0] in ('additive', 'proportional', 'combined'):
        kind = ext.split('_')[0]
        log = '_log' in ext
        kwargs = {}
        if log:
            kwargs['data_trans'] = f'log({yname})'
            if f1 <= 0:
                raise Reject('log of non-positive prediction')
        if kind == 'proportional':
            kwargs['zero_protection'] = 'nozp' not in ext
        fn = dict(additive=mm.set_additive_error_model, proportional=mm.set_proportional_error_model, combined=mm.set_combined_error_model)[kind]
        detail = f'{head}: set_{kind}_error_model(dv={dvarg!r}, {kwargs})'
        m2 = call(fn, m1, dv=dvarg, clause=f'set_{kind}_error_model', **kwargs)
        p2 = extend_point(m2, p1, k)
        y0 = y_at(m2, p2, yname)
        exp0 = F._log(f1) if log else f1
        tag = '[returned-unchanged]' if (m2 is m1 or m2.statements == m1.statements) else ''
        if not close(y0, exp0, rtol=RTOL):
            raise Violation(f'error:{kind}{tag}:prediction{":log" if log else ""}', observed=y0, expected=exp0, detail=f'{detail}; Y at eps=0 (f before = {f1})')
        c2 = eps_coefficients(m2, p2, yname)
        act = {e: c for e, c in c2.items() if c != 0.0}
        evals += 2
        special = kind == 'combined' and (prior.replace('+_log', '') in ('iiv_on_ruv', 'time_varying'))
        if special:
            classes.append('combined-keeps-structure(undocumented)')
        else:
            expc = F.error_coefficients(kind, f1, log)
            if not match_multiset(list(act.values()), expc):
                raise Violation(
                    f'error:{kind}{tag}:coefficients{":log" if log else ""}', observed=act, expected=expc,
                    detail=f'{detail}; dY/deps (central differences) with f={f1}; before: {c1}',
                )
            # the documented models are affine in eps
            full = {e: p2.eps[e] for e in act}
            yf = y_at(m2, p2, yname, full)
            lin = y0 + sum(act[e] * full[e] for e in act)
            if not close(yf, lin, rtol=1e-8):
                raise Violation(f'error:{kind}:not-affine-in-eps', observed=yf, expected=lin, detail=detail)
            if not log and not blq_prior and '_log' not in prior:  # detectors are documented for untransformed data only
                dets = dict(additive=mm.has_additive_error_model, proportional=mm.has_proportional_error_model, combined=mm.has_combined_error_model)
                for dk, dfn in dets.items():
                    got = call(dfn, m2, dvarg, clause=f'has_{dk}_error_model')
                    want = dk == kind
                    # additive and proportional coincide when f == 1; a combined model is neither
                    if bool(got) != want:
                        dtag = '[after-time-varying]' if prior.startswith('time_varying') else ''
                        raise Violation(f'error:detector{dtag}:has_{dk}:after-set_{kind}', observed=bool(got), expected=want, detail=detail)
                classes.append('detectors')
        if blq_prior and not special and not log:
            evals += check_blq_self(m2, p2, yname, prior[-2:], lloq_prior, detail, f'error:{kind}:blq-kept')
        others_unchanged(m2, p2, detail)
        key = f'{ext}|{dvarg}'

    elif ext == 'weighted':
        detail = f'{head}: set_weighted_error_model()'
        m2 = call(mm.set_weighted_error_model, m1, clause='set_weighted_error_model')
        p2 = extend_point(m2, p1, k)
        y0 = y_at(m2, p2, yname)
        if not close(y0, f1, rtol=RTOL):
            raise Violation('error:weighted:prediction', observed=y0, expected=f1, detail=detail)
        c2 = eps_coefficients(m2, p2, yname)
        act = {e: c for e, c in c2.items() if c != 0.0}
        evals += 2
        if n_act1 >= 1:
            if len(act) != 1:
                raise Violation('error:weighted:not-one-epsilon', observed=act, expected=1, detail=detail)
            w = val(evaluate(m2, p2), 'W')
            c = list(act.values())[0]
            if not close(c, w, rtol=1e-8):
                raise Violation('error:weighted:coefficient-is-not-W', observed=c, expected=w, detail=detail)
            rss = math.sqrt(sum(c_ * c_ for c_ in c1.values()))
            classes.append('w=rss-of-coefficients' if close(abs(w), rss, rtol=1e-8) else 'w=other')
            if not blq_prior:
                got = call(mm.has_weighted_error_model, m2, clause='has_weighted_error_model')
                if not got:
                    raise Violation('error:detector:has_weighted:after-set_weighted', observed=bool(got), expected=True, detail=detail)
        key = ext

    elif ext in ('dtbs', 'dtbs_fixlog'):
        fix = ext == 'dtbs_fixlog'
        detail = f'{head}: set_dtbs_error_model(fix_to_log={fix})'
        if f1 <= 0:
            raise Reject('log of non-positive prediction')
        m2 = call(mm.set_dtbs_error_model, m1, fix, clause='set_dtbs_error_model')
        newp = new_names(m2.parameters.names, m1.parameters.names)
        tbs = [n for n in newp if n.startswith('tbs_')]
        if len(tbs) != 2:
            raise Violation('error:dtbs:parameters', observed=newp, expected='tbs_lambda, tbs_zeta', detail=detail)
        if fix:
            for n in tbs:
                prm = m2.parameters[n]
                if not (prm.fix and float(prm.init) == 0.0):
                    raise Violation('error:dtbs:fix_to_log-not-fixed-to-zero', observed=repr(prm), detail=detail)
        # "fix lambda and zeta to 0, i.e. emulating log-transformed data": at lambda = zeta = 0: log(f) + W*eps
        p2 = extend_point(m2, p1, k, new_params={n: 0.0 for n in tbs})
        # thetas introduced by use_thetas_for_error_stdev (part of dtbs) get generated values
        y0 = y_at(m2, p2, yname)
        if not close(y0, F._log(f1), rtol=RTOL):
            raise Violation('error:dtbs:prediction-at-lambda-zero', observed=y0, expected=F._log(f1), detail=f'{detail}; f={f1}')
        c2 = eps_coefficients(m2, p2, yname)
        act = {e: c for e, c in c2.items() if c != 0.0}
        evals += 2
        if n_act1 >= 1:
            e0 = {n: 0.0 for n in p2.eps}
            w = val(evaluate(m2, with_(p2, eps=e0)), 'W')
            if len(act) != 1 or not close(list(act.values())[0], w, rtol=1e-8):
                raise Violation('error:dtbs:coefficient-is-not-W', observed=act, expected=w, detail=detail)
            e = list(act)[0]
            yf = y_at(m2, p2, yname, {e: p2.eps[e]})
            if not close(yf, F.dtbs_log(f1, w, p2.eps[e]), rtol=1e-8):
                raise Violation('error:dtbs:formula-at-lambda-zero', observed=yf, expected=F.dtbs_log(f1, w, p2.eps[e]), detail=detail)
        key = ext

    elif ext == 'time_varying':
        cutoff = CUTOFFS[spec['cut'] % len(CUTOFFS)]
        idvname = m1.datainfo.idv_column.name
        detail = f'{head}: set_time_varying_error_model(cutoff={cutoff}, idv={idvname!r}, dv={dvarg!r})'
        m2 = call(mm.set_time_varying_error_model, m1, cutoff, idvname, dvarg, clause='set_time_varying_error_model')
        th = new_names(m2.parameters.names, m1.parameters.names)
        if len(th) != 1:
            raise Violation('error:time_varying:theta-count', observed=th, expected=1, detail=detail)
        tv = 0.3 + abs(_gval(3, k))
        p2 = extend_point(m2, p1, k, new_params={th[0]: tv})
        for tval in (cutoff - 0.5, cutoff + 0.5, cutoff):
            dat = {idvname: tval}
            e2 = dict(p2.eps)
            e1 = {n: F.time_varying(e2[n], tv, tval, cutoff) for n in p1.eps}
            a = y_at(m1, p1, yname, e1, data=dat, t=tval)
            b = y_at(m2, p2, yname, e2, data=dat, t=tval)
            evals += 1
            if not close(a, b, rtol=RTOL):
                raise Violation(f'error:time_varying:{"before" if tval < cutoff else "from"}-cutoff', observed=b, expected=a, detail=f'{detail}; {idvname}={tval} theta={tv}')
        others_unchanged(m2, p2, detail)
        key = f'{ext}|{cutoff}|{dvarg}'

    elif ext in ('power', 'power_zp'):
        zp = ext == 'power_zp'
        epsn = list(p1.eps)
        if not epsn:
            raise Reject('no epsilons')
        how = spec['eps'] % 4
        lst = None if how < 2 else [epsn[(spec['eps'] // 4) % len(epsn)]]
        detail = f'{head}: set_power_on_ruv({lst!r}, dv={dvarg!r}, zero_protection={zp})'
        m2 = call(mm.set_power_on_ruv, m1, lst, dvarg, 0.01, None, zp, clause='set_power_on_ruv')
        th = new_names(m2.parameters.names, m1.parameters.names)
        # attribution tags (evidence based: the name tag only when the named epsilon was really not found, i.e. no theta
        # was created for it)
        tag = '[eps-name-not-uppercase]' if (lst and lst[0] != lst[0].upper() and not th) else ''
        if not tag and prior.startswith('time_varying'):
            tag = '[after-time-varying]'
        if not tag and _guard_not_in_y(m1, yname):
            tag = '[zero-protection-symbol-not-in-Y]'
        tv = {t: 0.4 + abs(_gval(i + 7, k, -1.1, 1.1)) for i, t in enumerate(th)}
        p2 = extend_point(m2, p1, k, new_params=tv)
        y0 = y_at(m2, p2, yname)
        if not close(y0, f1, rtol=RTOL):
            raise Violation('error:power:prediction', observed=y0, expected=f1, detail=detail)
        c2 = eps_coefficients(m2, p2, yname)
        evals += 2
        used = set()
        for e in epsn:
            if e not in c2:
                raise Violation('error:power:epsilon-lost', observed=e, detail=detail)
            targeted = (lst is None or e in lst) and c1[e] != 0.0
            if not targeted:
                continue
            if close(c1[e], f1, rtol=1e-8) or close(c1[e], 1.0, rtol=1e-8):
                hits = [t for t in th if t not in used and close(c2[e], F.power_coefficient(f1, tv[t]), rtol=1e-8)]
                if not hits:
                    raise Violation(
                        f'error:power{tag}:coefficient', observed=c2[e], expected={t: F.power_coefficient(f1, v) for t, v in tv.items()},
                        detail=f'{detail}; {e}: coefficient before {c1[e]}, f={f1}, expected f**theta for a new theta',
                    )
                used.add(hits[0])
                classes.append('power-on-prop' if close(c1[e], f1, rtol=1e-8) else 'power-on-add')
            else:
                classes.append('power-on-other-coefficient(unasserted)')
        if lst is not None:
            for e in epsn:
                if e not in lst and not close(c2[e], c1[e], rtol=1e-8) and dvarg is None and len(dvs) == 1:
                    raise Violation('error:power:other-epsilon-changed', observed=c2[e], expected=c1[e], detail=f'{detail}; {e}')
        key = f'{ext}|{lst}|{dvarg}'

    elif ext == 'iiv_on_ruv':
        epsn = list(p1.eps)
        if not epsn:
            raise Reject('no epsilons')
        how = spec['eps'] % 4
        lst = None if how < 2 else [epsn[(spec['eps'] // 4) % len(epsn)]]
        same = bool(spec['same'] % 2)
        detail = f'{head}: set_iiv_on_ruv(dv={dvarg!r}, list_of_eps={lst!r}, same_eta={same})'
        m2 = call(mm.set_iiv_on_ruv, m1, dvarg, lst, same, clause='set_iiv_on_ruv')
        # evidence based: the named epsilon was really not found (statements untouched)
        tag = '[eps-name-not-uppercase]' if (lst and lst[0] != lst[0].upper() and m2.statements == m1.statements) else ''
        ne = new_names(m2.random_variables.etas.names, m1.random_variables.etas.names)
        tgt = epsn if lst is None else lst
        want = 1 if same else len(tgt)
        if len(ne) != want:
            raise Violation(f'error:iiv_on_ruv{tag}:eta-count', observed=ne, expected=want, detail=detail)
        p2 = extend_point(m2, p1, k)
        b = y_at(m2, p2, yname, dict(p2.eps))
        ok = False
        for perm in itertools.permutations(range(len(tgt))):
            e1 = dict(p1.eps)
            for i, e in enumerate(tgt):
                eta = ne[0] if same else ne[perm[i]]
                e1[e] = F.iiv_on_ruv(p1.eps[e], p2.etas[eta])
            a = y_at(m1, p1, yname, e1)
            evals += 1
            if close(a, b, rtol=RTOL):
                ok = True
                break
            if same:
                break
        if not ok:
            raise Violation(f'error:iiv_on_ruv{tag}:formula', observed=b, expected=a, detail=f'{detail}; Y with eps*exp(eta) substituted in the model before; new etas { {e: p2.etas[e] for e in ne} }')
        z = {e: 0.0 for e in ne}
        a0 = y_at(m1, p1, yname, dict(p1.eps))
        b0 = y_at(m2, with_(p2, etas=z), yname, dict(p2.eps))
        if not close(a0, b0, rtol=RTOL):
            raise Violation('error:iiv_on_ruv:neutral-at-eta-zero', observed=b0, expected=a0, detail=detail)
        key = f'{ext}|{lst}|{same}|{dvarg}'

    elif ext == 'thetas':
        detail = f'{head}: use_thetas_for_error_stdev()'
        wtag = '[weighted-model-with-several-dvs]' if len(dvs) > 1 and m1.statements.find_assignment('W') is not None else ''
        m2 = call(mm.use_thetas_for_error_stdev, m1, clause='use_thetas_for_error_stdev')
        th = new_names(m2.parameters.names, m1.parameters.names)
        epsn = list(p1.eps)
        if len(th) != len(epsn):
            raise Violation('error:thetas:theta-count', observed=th, expected=len(epsn), detail=detail)
        tv = {t: 0.3 + abs(_gval(i + 11, k)) for i, t in enumerate(th)}
        p2 = extend_point(m2, p1, k, new_params=tv)
        ok = None
        for dn in dvs:
            b = y_at(m2, p2, dn, dict(p2.eps))
            good = None
            for perm in itertools.islice(itertools.permutations(range(len(epsn))), 24):
                e1 = {e: F.theta_stdev(p1.eps[e], tv[th[perm[i]]]) for i, e in enumerate(epsn)}
                a = y_at(m1, p1, dn, e1)
                evals += 1
                if close(a, b, rtol=RTOL):
                    good = perm
                    break
            if good is None:
                raise Violation(f'error:thetas{wtag}:formula', observed=b, expected=a, detail=f'{detail}; {dn} with theta*eps substituted in the model before; thetas {tv}')
            if dn == yname:
                ok = good
        # variance bookkeeping: sigma fixed to 1, theta initial estimate = sqrt(previous variance)
        inits = sorted(float(m1.parameters[variance_param(m1, e)].init) for e in epsn)
        for e in epsn:
            prm = m2.parameters[variance_param(m2, e)]
            if not (prm.fix and close(float(prm.init), 1.0)):
                raise Violation('error:thetas:sigma-not-fixed-to-one', observed=repr(prm), detail=detail)
        got = sorted(float(m2.parameters[t].init) ** 2 for t in th)
        if not all(close(a_, b_, rtol=1e-6) for a_, b_ in zip(got, inits)):
            raise Violation('error:thetas:initial-stdev', observed=got, expected=inits, detail=f'{detail}; squares of the theta initial estimates vs previous variances')
        key = ext

    elif ext in ('blq_m3', 'blq_m4'):
        method = ext[-2:]
        lloq = LLOQS[spec['lloq'] % len(LLOQS)]
        if blq_prior:
            raise Reject('already BLQ transformed')
        detail = f'{head}: transform_blq({method!r}, lloq={lloq})'
        m2 = call(mm.transform_blq, m1, method, lloq, clause='transform_blq')
        p2 = extend_point(m2, p1, k)
        supported = prior in BLQ_SUPPORTED_PRIORS
        if not supported:
            classes.append('error-model-not-in-documented-support(below-lloq unasserted)')
        evals += check_blq_branches(m1, p1, m2, p2, yname, method, lloq, supported, detail, 'error:blq')
        key = f'{ext}|{lloq}'
    else:
        raise HarnessError(ext)

    classes.append(f'eps_before={min(n_act1, 3)}')
    nt = prior != 'none' or n_act1 != 1
    return CaseInfo(nontrivial=nt, classes=tuple(classes), key=f'{mid}|{gen}|{prior}|{key}', render=dict(case=detail, coefficients_before=c1), evals=evals), m2


# ================================================================================================
# sub-check 4: transit compartments and absorption

ABS_EXTS = ['transit'] * 5 + ['zo', 'fo', 'seq'] * 2
ABS_PRIORS = ['none', 'none', 'fo_abs', 'zo_abs', 'seq_abs', 'transit2', 'transit4', 'lag', 'peripheral', 'cov_exp', 'remove_iiv_all', 'boxcox']

ABS_SPEC = st.fixed_dictionaries(
    dict(m=model_ids(), gen=idx(NGEN), prior=idx(len(ABS_PRIORS)), ext=idx(len(ABS_EXTS)), n=idx(7), keep=idx(3), k=st.integers(0, 30), r=st.integers(0, 400))
)


def ode_env(model, p: Point, mv):
    from ..modeleval import base_env

    env = base_env(model, p)
    env.update({k_: v for k_, v in mv.vars.items() if v is not UNDEF})
    return env


def transit_rates(model, p, mv):
    """-> list of (compartment name, exit rate value) of the transit compartments"""
    ode = model.statements.ode_system
    env = ode_env(model, p, mv)
    out = []
    found = {c.name for c in ode.find_transit_compartments(model.statements)}
    # the compartments set_transit_compartments creates are named TRANSIT<i> (docstring example); pharmpy's own
    # classification is used in addition (a lone transit without depot is not classified as transit by pharmpy)
    for cname in ode.compartment_names:
        if not (cname in found or (cname.startswith('TRANSIT') and cname[7:].isdigit())):
            continue
        c = ode.find_compartment(cname)
        flows = ode.get_compartment_outflows(c)
        if len(flows) != 1:
            raise Violation('transit:transit-with-several-outflows', observed=c.name)
        out.append((c.name, ev(flows[0][1], env)))
    return out


def absorption_facts(model, p, mv):
    """-> dict(depot_rate=value or None, infusion=(kind, value) or None, dosing=name)"""
    ode = model.statements.ode_system
    env = ode_env(model, p, mv)
    dosing = ode.dosing_compartments[0]
    central = ode.central_compartment
    facts = dict(dosing=dosing.name, central=central.name, depot_rate=None, infusion=None)
    # absorption compartment: the one with a one-way flow into the central compartment
    outs = {d.name for d, _ in ode.get_compartment_outflows(central) if hasattr(d, 'name')}
    ins = [(c, rexpr) for c, rexpr in ode.get_compartment_inflows(central) if c.name not in outs]
    if len(ins) == 1:
        facts['depot_rate'] = ev(ins[0][1], env)
        facts['depot'] = ins[0][0].name
    for kind, amt, admid, extra in mv.doses.get(dosing.name, []):
        if kind == 'Infusion' and extra is not None:
            facts['infusion'] = extra
            break
    return facts


def mean_time_variable(mv, prefixes, target):
    """-> (asserted?, names with that value): the model variables named MAT*/MDT* (mean absorption / transit time
    parameters; a numeric suffix is used when the plain name is taken) one of which must hold `target`"""
    cands = {n: v for n, v in mv.vars.items() if v is not UNDEF and any(n == q or (n.startswith(q) and n[len(q):].isdigit()) for q in prefixes)}
    return bool(cands), [n for n, v in cands.items() if close(v, target, rtol=RTOL)], cands


def _transit_step(m1, p1, mv1, n, keep, k, head):
    """one set_transit_compartments(n, keep_depot) step: count, equal rates n/MDT, mean transit time kept"""
    mm = M()
    classes = []
    detail = f'{head}: set_transit_compartments({n}, keep_depot={keep})'
    m2 = call(mm.set_transit_compartments, m1, n, keep, clause='set_transit_compartments')
    p2 = extend_point(m2, p1, k, new_params={q: 0.4 + abs(_gval(i, k, -2.0, 2.0)) for i, q in enumerate(new_names(m2.parameters.names, m1.parameters.names))})
    mv2 = evaluate(m2, p2)
    tr2 = transit_rates(m2, p2, mv2)
    tr1 = transit_rates(m1, p1, mv1)
    if len(tr2) != n:
        tag0 = ''
        if len(tr1) == 1 and not m1.statements.ode_system.find_transit_compartments(m1.statements):
            # the model before the step has one transit compartment and no depot: pharmpy does not classify it
            # as a transit compartment at all (same root cause as the reduced-to-one finding), so it is not removed
            tag0 = '[lone-transit-without-depot-not-recognised]'
        raise Violation(f'transit{tag0}:count', observed=[c for c, _ in tr2], expected=n, detail=detail)
    classes += [f'n={n}', f'from={len(tr1)}', f'keep_depot={keep}']
    ttag = ''
    if n == 1 and len(tr1) > 1 and not m2.statements.ode_system.find_transit_compartments(m2.statements):
        ttag = '[reduced-to-one-transit-without-depot]'
    if n > 0:
        rates = [v for _, v in tr2]
        if not all(finite(v) and v > 0 for v in rates):
            raise Reject('transit rate not positive at point')
        if not all(close(v, rates[0], rtol=RTOL) for v in rates):
            raise Violation('transit:unequal-rates', observed=tr2, detail=detail)
        mtt = F.mean_transit_time(rates)
        asserted, hit, cands = mean_time_variable(mv2, ('MDT',), mtt)
        if asserted:
            if not hit:
                raise Violation(f'transit{ttag}:mean-transit-time-is-not-MDT', observed=mtt, expected=cands, detail=f'{detail}; rates {tr2}; sum of 1/rate vs MDT variables')
            classes.append('mdt-checked')
        if tr1:
            mtt1 = F.mean_transit_time([v for _, v in tr1])
            if not close(mtt, mtt1, rtol=RTOL):
                raise Violation(f'transit{ttag}:mean-transit-time-not-kept', observed=mtt, expected=mtt1, detail=f'{detail}; before {tr1}; after {tr2}')
            classes.append('kept-checked')
    return m2, p2, mv2, classes, detail


TRH_PRIORS = ['none', 'fo_abs', 'none', 'fo_abs', 'lag', 'cov_exp', 'seq_abs']
TRH_SPEC = st.fixed_dictionaries(
    dict(m=model_ids(), gen=idx(NGEN), prior=idx(len(TRH_PRIORS)), ns=st.lists(idx(5), min_size=2, max_size=3), keep=st.lists(idx(3), min_size=3, max_size=3),
         k=st.integers(0, 30), r=st.integers(0, 400))
)


def run_transit_history(spec):
    """histories of transit-count changes n1 -> n2 (-> n3), both directions incl. reductions to 1 and 0, on models with and
    without depot; the documented relations are checked after every step"""
    mid = resolve_model(spec['m'])
    gen = spec['gen'] % NGEN
    prior = TRH_PRIORS[spec['prior'] % len(TRH_PRIORS)]
    k, r = spec['k'], spec['r']
    pars0 = individual_parameters(mid, gen)
    cont, _ = covariate_columns(mid, gen)
    m = get_prior(mid, gen, prior, pars0[0] if pars0 else '', cont[0])
    if m.statements.ode_system is None:
        raise Reject('no ODE system')
    ns = [n % 5 for n in spec['ns'][:3]]
    keeps = [(q % 3 != 0) for q in (list(spec['keep']) + [1, 1, 1])[:3]]
    if len(ns) < 2:
        raise Reject('history needs two steps')
    p = base_point(m, k, r)
    mv = evaluate(m, p)
    mv_start = mv
    head = f'{mid} gen={gen} prior={prior}'
    depot0 = m.statements.ode_system.find_depot(m.statements) is not None
    classes, renders = [f'prior={prior}', 'start-with-depot' if depot0 else 'start-without-depot'], []
    cls = []
    for j, (n, keep) in enumerate(zip(ns, keeps)):
        try:
            m2, p2, mv2, cls, detail = _transit_step(m, p, mv, n, keep, k, head)
        except Reject as rj:
            if j == 0:
                raise
            raise Reject(f'step{j + 1}:{rj.why}')
        except Violation as v:
            v.detail = f'step {j + 1} after {renders}: {v.detail}'
            raise
        renders.append(detail.split(': ', 1)[-1])
        if j > 0:
            a, b = int(cls[1].split('=')[1]), n
            classes.append('change=' + ('up' if b > a else 'down' if b < a else 'same') + (f'-to-{b}' if b < 2 and b < a else ''))
        d = compare(mv_start, mv2, rtol=RTOL, check_ode=False)
        if d is not None:
            raise Violation('absorption:observation-changed', observed=_j(d[1]), expected=_j(d[2]), detail=f'step {j + 1} after {renders}; {d[0]}')
        m, p, mv = m2, p2, mv2
    classes += [c for c in cls if c.endswith('checked')]
    return CaseInfo(nontrivial=True, classes=tuple(classes), key=f'{mid}|{gen}|{prior}|{ns}|{keeps[:len(ns)]}', render=dict(case=f'{head}: ' + ' ; '.join(renders)), evals=len(ns) + 1)


def _enum_transit_history(tier):
    """every change n1 -> n2 with n1, n2 in 0..4 on two models with depot and two without"""
    for m in ('basic_oral', 'mox2', 'basic_iv', 'pheno'):
        if m not in model_names():
            continue
        for n1 in range(5):
            for n2 in range(5):
                if n1 != n2:
                    yield dict(m=m, gen=0, prior=0, ns=[n1, n2], keep=[1, 1, 1], k=1, r=2)


def run_transit_absorption(spec):
    mm = M()
    mid = resolve_model(spec['m'])
    gen = spec['gen'] % NGEN
    ext = ABS_EXTS[spec['ext'] % len(ABS_EXTS)]
    prior = ABS_PRIORS[spec['prior'] % len(ABS_PRIORS)]
    k, r = spec['k'], spec['r']
    pars0 = individual_parameters(mid, gen)
    cont, _ = covariate_columns(mid, gen)
    m1 = get_prior(mid, gen, prior, pars0[spec['n'] % len(pars0)] if pars0 else '', cont[0])
    if m1.statements.ode_system is None:
        raise Reject('no ODE system')
    p1 = base_point(m1, k, r)
    mv1 = evaluate(m1, p1)
    head = f'{mid} gen={gen} prior={prior}'
    classes = [f'ext={ext}', f'prior={prior}']
    evals = 1
    if ext == 'transit':
        n = spec['n'] % 7
        keep = spec['keep'] % 3 != 0
        m2, p2, mv2, cls, detail = _transit_step(m1, p1, mv1, n, keep, k, head)
        classes += cls
        key = f'transit|{n}|{keep}'
    else:
        fn = dict(zo=mm.set_zero_order_absorption, fo=mm.set_first_order_absorption, seq=mm.set_seq_zo_fo_absorption)[ext]
        detail = f'{head}: set_{dict(zo="zero_order", fo="first_order", seq="seq_zo_fo")[ext]}_absorption()'
        m2 = call(fn, m1, clause=f'set_{ext}_absorption')
        p2 = extend_point(m2, p1, k, new_params={q: 0.4 + abs(_gval(i, k, -2.0, 2.0)) for i, q in enumerate(new_names(m2.parameters.names, m1.parameters.names))})
        mv2 = evaluate(m2, p2)
        facts = absorption_facts(m2, p2, mv2)
        mat, mdt = val(mv2, 'MAT'), val(mv2, 'MDT')
        if ext in ('fo', 'seq'):
            if facts['depot_rate'] is None:
                raise Violation(f'absorption:{ext}:no-depot', observed=facts, detail=detail)
            got = F.first_order_mat(facts['depot_rate'])
            asserted, hit, cands = mean_time_variable(mv2, ('MAT',), got)
            if asserted:
                if not hit:
                    raise Violation(f'absorption:{ext}:KA-is-not-1/MAT', observed=got, expected=cands, detail=f'{detail}; depot rate {facts["depot_rate"]}')
                classes.append('mat-checked')
            else:
                classes.append('no-MAT(unasserted)')
        if ext in ('zo', 'seq'):
            if facts['infusion'] is None:
                raise Violation(f'absorption:{ext}:no-infusion', observed=facts, detail=detail)
            kindv, v = facts['infusion']
            got = F.zero_order_mat(v)
            # zero order alone: MAT (MDT when the zero-order part of a sequential model is kept); sequential: MDT
            asserted, hit, cands = mean_time_variable(mv2, ('MAT', 'MDT') if ext == 'zo' else ('MDT',), got)
            if kindv == 'duration' and asserted:
                if not hit:
                    raise Violation(f'absorption:{ext}:duration-is-not-2*mean-time', observed=v, expected={n_: 2 * v_ for n_, v_ in cands.items()}, detail=detail)
                classes.append('duration-checked')
            else:
                classes.append('duration(unasserted)')
        if ext == 'zo' and facts['depot_rate'] is not None and not transit_rates(m2, p2, mv2):
            raise Violation('absorption:zo:depot-left', observed=facts, detail=detail)
        # the mean absorption time parameter is kept when both models have it
        mat1 = val(mv1, 'MAT')
        if mat1 == mat1 and mat == mat:
            if not close(mat, mat1, rtol=RTOL):
                raise Violation(f'absorption:{ext}:MAT-not-kept', observed=mat, expected=mat1, detail=detail)
            classes.append('mat-kept')
        key = ext
    # observation equation unchanged (amounts are inputs)
    d = compare(mv1, mv2, rtol=RTOL, check_ode=False)
    if d is not None:
        raise Violation('absorption:observation-changed', observed=_j(d[1]), expected=_j(d[2]), detail=f'{detail}; {d[0]}')
    struct = [c for p_ in ('MAT', 'MDT') if p_ in mv1.vars for c in carries_structure(m1, p_)]
    nt = prior != 'none' or bool(struct)
    return CaseInfo(nontrivial=nt, classes=tuple(classes + sorted(set(struct))), key=f'{mid}|{gen}|{prior}|{key}', render=dict(case=detail), evals=evals + 1)


# ================================================================================================


def selfcheck():
    # reference must be independent of pharmpy
    src = open(F.__file__).read()
    tree = ast.parse(src)
    for node in ast.walk(tree):
        mods = []
        if isinstance(node, ast.Import):
            mods = [a.name for a in node.names]
        elif isinstance(node, ast.ImportFrom):
            mods = [node.module or '']
        for md in mods:
            if md.split('.')[0] not in ('math', '__future__'):
                raise HarnessError(f'pv/ref/formulas.py imports {md}')
    # identities of the reference
    for lam in (0.3, -1.2, 2.0):
        assert F.boxcox(0.0, lam) == 0.0 and F.john_draper(0.0, lam) == 0.0
        assert close(F.boxcox(0.4, lam), (math.exp(0.4 * lam) - 1) / lam)
        assert close(F.john_draper(-0.4, lam), -F.john_draper(0.4, lam))
    assert F.tdist(0.0, 5.0) == 0.0 and close(F.tdist(0.3, 1e12), 0.3, rtol=1e-9)
    assert close(F.boxcox(0.37, 1e-9), 0.37, rtol=1e-6) and close(F.john_draper(0.37, 1.0), 0.37)
    assert F.median([3, 1, 2]) == 2 and F.median([4, 1, 2, 3]) == 2.5 and close(F.std([1, 2, 3, 4]), math.sqrt(5 / 3))
    c = F.stat_candidates('median', [1, 1, 1, 2, 2, 3], [1, 5, 9, 2, 4, 7])
    assert c == {'all_records': 4.5, 'baselines': 2, 'per_individual_then_group': 5}, c
    mc = F.most_common_candidates([1, 1, 1, 2, 3], [0, 0, 0, 1, 1])
    assert mc == {'by_records': {0}, 'by_individuals': {1}}, mc
    assert F.iiv('exp', '*', 2.0, 0.0) == 2.0 and F.iiv('exp', '+', 2.0, 0.0) == 3.0 and F.iiv('log', '*', 2.0, 0.0) == 1.0
    assert close(F.iiv('re_log', '*', 0.3, 1.0), 0.3) and close(F.iiv('re_log', '*', 0.3, 0.0), 0.5)
    assert close(F.blq_m4(1.0, 0.5, 0.2), (F.phi(-1.6) - F.phi(-2.0)) / (1 - F.phi(-2.0)))
    for eff in F.CONTINUOUS_EFFECTS:
        assert close(F.cov_effect(eff, 3.5, [0.2, 0.4], 3.5), 1.0)
    if not model_names():
        raise HarnessError('empty corpus')


def _enum_variability(tier):
    """deterministic list-argument cases: add_iiv with 2-3 parameters and unequal operations / expressions"""
    exti = VAR_EXTS.index('add_iiv_list')
    base = dict(m='pheno_real', gen=0, prior=0, ext=exti, par=0, par2=0, form=0, op=0, etas=0, occ=0, dist=0, how=0, cov=0, ref=0, k=1, r=3)
    for m in ('pheno_real', 'pheno_conc', 'mox_2comp', 'pheno'):
        if m not in model_names():
            continue
        for form in (IIV_FORMS.index('exp'), IIV_FORMS.index('custom1'), IIV_FORMS.index('add')):
            for op in (0, 1):
                for shape in (0, 1, 2, 3):
                    for etas in (0, 1):
                        yield dict(base, m=m, prior=VAR_PRIORS.index('remove_iiv_all') if m == 'pheno' else 0, form=form, op=op, dist=shape, etas=etas, how=etas)


def _enum_error(tier):
    """every function with a dv argument, called with dv=None / DVID number / name, after the functions that introduce
    aliases or extra structure (W, ETA_RV1, time_varying, SD thetas)"""
    exts = [ERR_EXTS.index(x) for x in ('additive', 'proportional', 'combined', 'time_varying', 'power', 'iiv_on_ruv')]
    for m, priors in (('pheno', ('none', 'weighted', 'iiv_on_ruv', 'time_varying', 'thetas', 'combined')),
                      ('basic_iv', ('none', 'weighted', 'iiv_on_ruv', 'time_varying', 'thetas', 'combined')),
                      ('pheno_real', ('none', 'weighted'))):
        if m not in model_names():
            continue
        for pr in priors:
            for e in exts:
                for dv in (0, 1, 3):
                    yield dict(m=m, gen=0, prior=ERR_PRIORS.index(pr), ext=e, dv=dv, eps=0, same=0, cut=0, lloq=0, k=2, r=60)


def _enum_multidv(tier):
    """every ordered pair of basic setters applied to the two DVs one after the other"""
    basic = [MULTIDV_EXTS.index(x) for x in ('additive', 'proportional', 'proportional_nozp', 'combined')]
    for a in basic:
        for b in basic:
            for dva, dvb in ((1, 2), (2, 1), (0, 2)):
                st_ = dict(eps=0, same=0, cut=0, lloq=0)
                yield dict(gen=0, steps=[dict(st_, ext=a, dv=dva), dict(st_, ext=b, dv=dvb)], k=2, r=0)


SUBCHECKS = [
    SubCheck('covariate', lambda: COV_SPEC, run_covariate, quick=400, thorough=7080),
    SubCheck('variability', lambda: VAR_SPEC, run_variability, quick=600, thorough=10640, enumerate=_enum_variability),
    SubCheck('error', lambda: ERR_SPEC, run_error, quick=450, thorough=9760, enumerate=_enum_error),
    SubCheck('error_multidv', lambda: MDV_SPEC, run_error_multidv, quick=150, thorough=2660, enumerate=_enum_multidv),
    SubCheck('transit_absorption', lambda: ABS_SPEC, run_transit_absorption, quick=300, thorough=5320),
    SubCheck('transit_history', lambda: TRH_SPEC, run_transit_history, quick=120, thorough=2000, enumerate=_enum_transit_history),
]
