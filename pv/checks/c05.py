"""C05 -- Compartmental system graph and its differential equations agree.

A pure-Python reference model (pv/ref/cmtref.py: compartments by name with doses / lag /
bioavailability / input, dict of edge rates as small ASTs) is kept next to pharmpy's
CompartmentalSystemBuilder.  After building (sub-check `direct`) or after every builder
operation (sub-check `history`) the builder is frozen to a CompartmentalSystem and the
reported eqs / compartmental_matrix / amounts / compartment_names / zero_order_inputs are
compared numerically with the reference, with each other, with get_flow, with the system
recovered by to_compartmental_system, after to_dict/from_dict (+json) and after subs.
"""

from __future__ import annotations

import hashlib
import json

import sympy
from hypothesis import strategies as st

from ..core import CaseInfo, HarnessError, Reject, SubCheck, Violation, guard
from ..irsem import EvalError, Undefined, close, ev
from ..ref.cmtref import (
    ONE,
    OUT,
    ZERO,
    RefSystem,
    amount_key,
    ast_amts,
    ast_eval,
    ast_rename,
    ast_render,
    ast_terms,
    dose_value,
)

PROPERTY = 'C05'
LEVEL = 'exploration'
RULE = (
    'direct: 1-6 compartments named from a pool of 8 names, <=14 random directed edges without self loops, rates from '
    '{K, CL/V, K*Q, Michaelis-Menten VM/(KM + A_x(t)/V) with x the source or another compartment, sums K+K\', CL/V+Q/V\', (CL+Q)/V}, 0-2 output flows, '
    '0-3 doses (Bolus / Infusion by rate / by duration, admid 1-3) on 0-2 compartments, zero-order inputs, lag time and '
    'bioavailability expressions. history: a direct system of <=4 compartments followed by <=10 builder operations '
    '(add/remove compartment, add/remove flow, move/set/add/remove dose, set lag/F/input, optionally continuing from '
    'CompartmentalSystemBuilder(frozen system)), interpreted totally (indices modulo existing compartments), frozen and '
    'checked after every operation. Non-trivial = >=3 compartments and (an edge i->j whose reverse edge is missing or has '
    'a different rate, or a directed cycle, or >=2 nodes relabelled in one step: move_dose / subs). '
    'Distinct = hash of the canonical text of the final reference graph (+ operation kinds for histories).'
)
ASSUMPTIONS = [
    'numeric comparison at one sample point with pairwise distinct positive values for all symbols and amounts (rtol 1e-9)',
    'compartment names are unique and avoid METABOLITE/EFFECT/COMPLEX/RESPONSE (name-based central compartment heuristic)',
    'move_dose is only called with source != destination ("from one compartment to another"); admids are >= 1',
    'to_compartmental_system: the recovered *graph* is only required to equal the original when no compartment has two '
    'outgoing flows (output included) sharing an additive rate term, e.g. K1 and K1+K2 (its term matching merges them: -2*K*A); the recovered right-hand '
    'sides must agree numerically in every case; doses/lag/F are not recoverable from equations and not compared',
    'CompartmentalSystem.__eq__ raises ValueError for systems without dose or without output flow (sub-check eq_total owns '
    'that finding); direct/history fall back to comparing to_dict() on such shapes',
    'doses of one compartment are compared as multisets (the order of Compartment.doses is marked FIXME in the source)',
]

NAMES = ['CENTRAL', 'DEPOT', 'PERIPHERAL1', 'PERIPHERAL2', 'TRANSIT1', 'LIVER', 'GUT', 'X1']
MAXN = 6

SYMS = (
    [f'K{i}' for i in range(6)]
    + [f'Q{i}' for i in range(4)]
    + [f'CL{i}' for i in range(4)]
    + [f'V{i}' for i in range(4)]
    + [f'VM{i}' for i in range(3)]
    + [f'KM{i}' for i in range(3)]
    + ['AMT', 'AMT2', 'R1', 'R2', 'D1', 'D2']
    + [f'ALAG{i}' for i in range(3)]
    + [f'FB{i}' for i in range(3)]
    + [f'RIN{i}' for i in range(3)]
)


# ------------------------------------------------------------------------------------------
# generator

_i = st.integers(0, 23)
RATE = st.tuples(st.sampled_from([0, 0, 0, 1, 1, 2, 2, 3, 4, 4, 5, 6, 6]), _i, _i, st.sampled_from([0, 0, 0, 0, 0, 0, 0, 1, 2, 3])).map(list)
AUX = st.tuples(st.integers(0, 2), _i, _i).map(list)
DOSE = st.tuples(st.integers(0, 2), st.integers(0, 2), st.integers(0, 1), st.integers(0, 1)).map(list)


EDGE = st.tuples(_i, _i, RATE).map(list)


def _direct(maxn):
    return st.fixed_dictionaries(
        dict(
            n=st.sampled_from([k for k in (1, 2, 3, 3, 4, 4, 5, 5, 6, 6) if k <= maxn]),
            names=st.lists(st.integers(0, 7), min_size=6, max_size=6),
            edges=st.one_of(st.lists(EDGE, max_size=14), st.lists(EDGE, min_size=4, max_size=14), st.lists(EDGE, min_size=8, max_size=14)),
            nout=st.sampled_from([0, 1, 1, 1, 1, 2, 2]),
            outs=st.lists(st.tuples(_i, RATE).map(list), min_size=2, max_size=2),
            ndose=st.sampled_from([0, 1, 1, 1, 2, 2, 3]),
            doses=st.lists(st.tuples(st.integers(0, 1), DOSE).map(list), min_size=3, max_size=3),
            dose_at=st.lists(_i, min_size=2, max_size=2),
            inputs=st.lists(st.tuples(_i, AUX).map(list), max_size=2),
            lags=st.lists(st.tuples(_i, AUX).map(list), max_size=2),
            fs=st.lists(st.tuples(_i, AUX).map(list), max_size=2),
        )
    )


TAIL = dict(
    vals=st.lists(st.integers(0, 6), min_size=8, max_size=8),
    ren=st.lists(_i, max_size=4),
    swap=st.one_of(st.none(), st.tuples(_i, _i).map(list)),
)

DIRECT = st.fixed_dictionaries(dict(sys=_direct(MAXN), **TAIL))

OPS = ['addc', 'addf', 'addf', 'addf', 'out', 'rmc', 'rmf', 'mvd', 'mvd', 'setd', 'addd', 'rmd', 'lag', 'F', 'inp']

OP = st.fixed_dictionaries(
    dict(
        op=st.integers(0, len(OPS) - 1),
        a=_i,
        b=_i,
        adm=st.integers(0, 3),
        rate=RATE,
        dose=DOSE,
        doses=st.lists(DOSE, max_size=2),
        expr=st.one_of(st.none(), AUX),
        rebuild=st.booleans(),
    )
)

HISTORY = st.fixed_dictionaries(dict(sys=_direct(4), ops=st.lists(OP, min_size=1, max_size=10), at=_i, **TAIL))

EQSPEC = st.fixed_dictionaries(dict(sys=_direct(3), vals=st.just([0] * 8)))


# ------------------------------------------------------------------------------------------
# spec -> reference objects (pure)


def _pad(x, n):
    """total view of a (possibly shrunk) spec list: exactly n items, missing ones 0"""
    if not isinstance(x, list):
        x = []
    return (x + [0] * n)[:n]


def _int(x):
    return x if isinstance(x, int) and not isinstance(x, bool) else 0


def mk_rate(r, src, names):
    kind, a, b, x = (_int(v) for v in _pad(r, 4))
    kind %= 7
    if kind == 0:
        return ['sym', f'K{a % 6}']
    if kind == 4:
        # sum of two different symbols
        return ['add', ['sym', f'K{a % 6}'], ['sym', f'K{(a % 6 + 1 + b % 5) % 6}']]
    if kind == 5:
        # sum of two quotients
        return ['add', ['div', ['sym', f'CL{a % 4}'], ['sym', f'V{b % 4}']], ['div', ['sym', f'Q{a % 4}'], ['sym', f'V{(b + 1) % 4}']]]
    if kind == 6:
        # (a + b)/V
        return ['div', ['add', ['sym', f'CL{a % 4}'], ['sym', f'Q{b % 4}']], ['sym', f'V{b % 4}']]
    if kind == 1:
        return ['div', ['sym', f'CL{a % 4}'], ['sym', f'V{b % 4}']]
    if kind == 2:
        return ['mul', ['sym', f'K{a % 6}'], ['sym', f'Q{b % 4}']]
    who = src if x == 0 or not names else names[(x - 1) % len(names)]
    return ['div', ['sym', f'VM{a % 3}'], ['add', ['sym', f'KM{a % 3}'], ['div', ['amt', who], ['sym', f'V{b % 4}']]]]


def mk_aux(e, prefix):
    kind, a, b = (_int(v) for v in _pad(e, 3))
    kind %= 3
    s = ['sym', f'{prefix}{a % 3}']
    if kind == 0:
        return s
    if kind == 1:
        return ['mul', s, ['sym', f'Q{b % 4}']]
    return ['div', s, ['sym', f'V{b % 4}']]


def mk_dose(d):
    kind, admid, amt, par = (_int(v) for v in _pad(d, 4))
    kind %= 3
    amount = ['sym', 'AMT' if amt % 2 == 0 else 'AMT2']
    admid = 1 + admid % 3
    if kind == 0:
        return dict(kind='bolus', amount=amount, admid=admid, par=None)
    if kind == 1:
        return dict(kind='rate', amount=amount, admid=admid, par=['sym', f'R{1 + par % 2}'])
    return dict(kind='duration', amount=amount, admid=admid, par=['sym', f'D{1 + par % 2}'])


def pick_names(ks, n):
    pool = list(NAMES)
    out = []
    for k in _pad(ks, n):
        out.append(pool.pop(_int(k) % len(pool)))
    return out


def ref_direct(sys):
    """-> (RefSystem, construction plan): compartments are created with all attributes, then flows added."""
    n = 1 + (_int(sys['n']) - 1) % MAXN
    names = pick_names(sys['names'], n)
    ref = RefSystem()
    per = {nm: dict(doses=[], lag=ZERO, F=ONE, input=ZERO) for nm in names}
    at = [_int(v) for v in _pad(sys['dose_at'], 2)]
    for item in sys['doses'][: min(3, sys['ndose'])]:
        slot, d = _pad(item, 2)
        per[names[at[_int(slot) % 2] % n]]['doses'].append(mk_dose(d))
    for key, field, prefix in (('inputs', 'input', 'RIN'), ('lags', 'lag', 'ALAG'), ('fs', 'F', 'FB')):
        for item in sys[key][:2]:
            i, e = _pad(item, 2)
            per[names[_int(i) % n]][field] = mk_aux(e, prefix)
    for nm in names:
        ref.add_compartment(nm, **per[nm])
    for item in sys['edges'][:14]:
        i, j, r = _pad(item, 3)
        i, j = _int(i) % n, _int(j) % n
        if i == j:
            continue
        ref.add_flow(names[i], names[j], mk_rate(r, names[i], names))
    for item in sys['outs'][: min(2, sys['nout'])]:
        i, r = _pad(item, 2)
        ref.add_flow(names[_int(i) % n], OUT, mk_rate(r, names[_int(i) % n], names))
    return ref


def make_env(vals):
    vals = [_int(v) for v in _pad(vals, 8)]
    env = {}
    for k, s in enumerate(SYMS):
        env[s] = 0.3 + 0.11 * k + 0.013 * (vals[k % 8] % 7)
    for k, nm in enumerate(NAMES):
        env[amount_key(nm)] = 0.2 + 0.17 * k + 0.019 * (vals[(k + 3) % 8] % 7)
    return env


def make_sigma(spec, used):
    used = sorted(used)
    sigma = {}
    if not used:
        return sigma
    for k in spec['ren'][:4]:
        s = used[_int(k) % len(used)]
        sigma[s] = s + '_R'
    sw = spec.get('swap')
    if sw and len(used) >= 2:
        sw = [_int(v) for v in _pad(sw, 2)]
        s1 = used[sw[0] % len(used)]
        s2 = used[sw[1] % len(used)]
        if s1 != s2 and s1 not in sigma and s2 not in sigma:
            sigma[s1] = s2
            sigma[s2] = s1
    return sigma


def env_renamed(env, sigma):
    out = dict(env)
    for old, new in sigma.items():
        out[new] = env[old]
    return out


# ------------------------------------------------------------------------------------------
# reference -> pharmpy objects

_T = sympy.Symbol('t')


def to_sympy(a):
    op = a[0]
    if op == 'sym':
        return sympy.Symbol(a[1])
    if op == 'num':
        return sympy.Integer(a[1])
    if op == 'amt':
        return sympy.Function(f'A_{a[1]}')(_T)
    if op == 'mul':
        return to_sympy(a[1]) * to_sympy(a[2])
    if op == 'div':
        return to_sympy(a[1]) / to_sympy(a[2])
    if op == 'add':
        return to_sympy(a[1]) + to_sympy(a[2])
    raise HarnessError(f'bad ast {a!r}')


def px(a):
    from pharmpy.basic import Expr

    return Expr(to_sympy(a))


def p_dose(d):
    from pharmpy.model import Bolus, Infusion

    if d['kind'] == 'bolus':
        return Bolus.create(px(d['amount']), admid=d['admid'])
    if d['kind'] == 'rate':
        return Infusion.create(px(d['amount']), admid=d['admid'], rate=px(d['par']))
    return Infusion.create(px(d['amount']), admid=d['admid'], duration=px(d['par']))


def p_comp(name, c):
    from pharmpy.model import Compartment

    return Compartment.create(
        name,
        doses=tuple(p_dose(d) for d in c['stored']),
        input=px(c['input']),
        lag_time=px(c['lag']),
        bioavailability=px(c['F']),
    )


def build_direct(ref):
    """builder with the compartments of ref in ref order (created with all attributes), then the
    flows in ref.edges order"""
    from pharmpy.model import CompartmentalSystemBuilder, output

    def go():
        cb = CompartmentalSystemBuilder()
        comps = {}
        for nm, c in ref.comps.items():
            comps[nm] = p_comp(nm, c)
            cb.add_compartment(comps[nm])
        for (s, d), e in ref.edges.items():
            cb.add_flow(comps[s], output if d == OUT else comps[d], px(e))
        return cb

    return guard(go, allowed=(), clause='build')


def freeze(cb):
    from pharmpy.model import CompartmentalSystem

    return guard(CompartmentalSystem, cb, allowed=(), clause='freeze')


# ------------------------------------------------------------------------------------------
# oracle


def num(e, env, clause, what=''):
    try:
        return ev(e, env)
    except Undefined as u:
        raise Violation(f'{clause}:unknown-symbol', observed=str(e), detail=f'{u} has no value; {what}')
    except EvalError as ee:
        raise HarnessError(f'cannot evaluate {e}: {ee}')


def p_dose_value(d, env, clause):
    from pharmpy.model import Bolus, Infusion

    if isinstance(d, Bolus):
        return ('bolus', d.admid, num(d.amount, env, clause), None)
    if isinstance(d, Infusion):
        if d.rate is not None and d.duration is None:
            return ('rate', d.admid, num(d.amount, env, clause), num(d.rate, env, clause))
        if d.duration is not None and d.rate is None:
            return ('duration', d.admid, num(d.amount, env, clause), num(d.duration, env, clause))
    raise Violation(f'{clause}:malformed-dose', observed=repr(d))


def same_doses(got, exp):
    if len(got) != len(exp):
        return False
    rest = list(exp)
    for g in got:
        for k, e in enumerate(rest):
            if g[0] == e[0] and g[1] == e[1] and close(g[2], e[2]) and ((g[3] is None and e[3] is None) or (g[3] is not None and e[3] is not None and close(g[3], e[3]))):
                del rest[k]
                break
        else:
            return False
    return True


def check_content(cs, ref, env, tag):
    """flows, doses, lag, F, input of cs by compartment NAME == reference.  Returns name->Compartment."""
    from pharmpy.model import Compartment, output

    n = len(ref.comps)
    ln = guard(len, cs, allowed=(), clause=f'{tag}len')
    if ln != n:
        raise Violation(f'{tag}len', observed=ln, expected=n, detail=str(ref.render()))
    comps = {}
    for nm in ref.names:
        c = guard(cs.find_compartment, nm, allowed=(), clause=f'{tag}find_compartment')
        if not isinstance(c, Compartment) or c.name != nm:
            raise Violation(f'{tag}find_compartment', observed=repr(c), expected=nm, detail=str(ref.render()))
        comps[nm] = c
    for nm in NAMES:
        if nm not in ref.comps:
            c = guard(cs.find_compartment, nm, allowed=(), clause=f'{tag}find_compartment')
            if c is not None:
                raise Violation(f'{tag}find_compartment:ghost', observed=repr(c), expected=None, detail=str(ref.render()))
    for nm, rc in ref.comps.items():
        c = comps[nm]
        if str(c.amount) != amount_key(nm):
            raise Violation(f'{tag}amount-function', observed=str(c.amount), expected=amount_key(nm))
        got = [p_dose_value(d, env, f'{tag}doses') for d in c.doses]
        exp = [dose_value(d, env) for d in rc['doses']]
        if not same_doses(got, exp):
            raise Violation(f'{tag}doses', observed=repr(c.doses), expected=[str(x) for x in exp], detail=f'{nm} in {ref.render()}')
        for attr, key in (('lag_time', 'lag'), ('bioavailability', 'F'), ('input', 'input')):
            g = num(getattr(c, attr), env, f'{tag}{attr}')
            e = ast_eval(rc[key], env)
            if not close(g, e):
                raise Violation(f'{tag}{attr}', observed=str(getattr(c, attr)), expected=ast_render(rc[key]), detail=f'{nm} in {ref.render()}')
    for a in ref.names:
        for b in ref.names + [OUT]:
            if a == b:
                continue
            fl = guard(cs.get_flow, comps[a], output if b == OUT else comps[b], allowed=(), clause=f'{tag}get_flow')
            g = num(fl, env, f'{tag}flow')
            e = ref.rate(a, b, env)
            if not close(g, e):
                raise Violation(f'{tag}flow', observed=f'{a}->{b}: {fl}', expected=ast_render(ref.edges.get((a, b), ZERO)), detail=str(ref.render()))
    return comps


def check_core(cs, ref, env, tag=''):
    """clauses (i) (ii) (iii) (vi) on one frozen system.  Returns (names, amounts, eqs)."""
    from pharmpy.basic import Expr
    from pharmpy.model import output

    n = len(ref.comps)
    comps = check_content(cs, ref, env, tag)
    names = guard(lambda: list(cs.compartment_names), allowed=(), clause=f'{tag}compartment_names')
    A = guard(lambda: cs.amounts, allowed=(), clause=f'{tag}amounts')
    M = guard(lambda: cs.compartmental_matrix, allowed=(), clause=f'{tag}compartmental_matrix')
    U = guard(lambda: cs.zero_order_inputs, allowed=(), clause=f'{tag}zero_order_inputs')
    eqs = guard(lambda: tuple(cs.eqs), allowed=(), clause=f'{tag}eqs')
    if sorted(names) != sorted(ref.names):
        raise Violation(f'{tag}names:set', observed=names, expected=sorted(ref.names))
    shape = (len(names), A.rows, A.cols, M.rows, M.cols, U.rows, U.cols, len(eqs))
    if shape != (n, n, 1, n, n, n, 1, n):
        raise Violation(f'{tag}shape', observed=shape, expected=(n, n, 1, n, n, n, 1, n), detail=str(ref.render()))
    t = Expr.symbol('t')
    amts = [A[i, 0] for i in range(n)]
    a = [env[amount_key(nm)] for nm in names]
    # (ii) one order
    for i, nm in enumerate(names):
        if str(amts[i]) != amount_key(nm) or amts[i] != comps[nm].amount:
            raise Violation(f'{tag}order:amounts-vs-names', observed=[str(x) for x in amts], expected=names, detail=str(ref.render()))
        if eqs[i].lhs != Expr.derivative(amts[i], t):
            raise Violation(f'{tag}order:eqs-lhs', observed=[str(e.lhs) for e in eqs], expected=names, detail=str(ref.render()))
    # reported matrix / inputs numerically
    mnum = [[num(M[i, j], env, f'{tag}matrix') for j in range(n)] for i in range(n)]
    unum = [num(U[i, 0], env, f'{tag}inputs') for i in range(n)]
    # M rebuilt from get_flow in compartment_names order, and from the reference
    mflow = [[0.0] * n for _ in range(n)]
    outs = []
    for i, src in enumerate(names):
        tot = 0.0
        for j, dst in enumerate(names):
            if i != j:
                r = num(cs.get_flow(comps[src], comps[dst]), env, f'{tag}flow')
                mflow[j][i] = r
                tot += r
        o = num(cs.get_flow(comps[src], output), env, f'{tag}flow')
        outs.append(o)
        mflow[i][i] = -(tot + o)
    mref = ref.matrix(names, env)
    for i in range(n):
        for j in range(n):
            if not close(mnum[i][j], mflow[i][j]) or not close(mnum[i][j], mref[i][j]):
                kind = 'diagonal' if i == j else 'offdiagonal'
                raise Violation(
                    f'{tag}matrix:{kind}', observed=f'M[{i},{j}]={M[i, j]} ({mnum[i][j]})', expected=f'from get_flow {mflow[i][j]}, reference {mref[i][j]}',
                    detail=f'order {names}; {ref.render()}',
                )
        e = ast_eval(ref.comps[names[i]]['input'], env)
        if not close(unum[i], e):
            raise Violation(f'{tag}inputs:order', observed=[str(U[k, 0]) for k in range(n)], expected=names, detail=str(ref.render()))
    # (i) eqs == M*A + u entrywise, and == inflows - outflows + input of the reference
    for i, nm in enumerate(names):
        r = num(eqs[i].rhs, env, f'{tag}eqs')
        e1 = sum(mnum[i][j] * a[j] for j in range(n)) + unum[i]
        e2 = ref.rhs(nm, env)
        if not close(r, e1) or not close(r, e2):
            raise Violation(f'{tag}eqs:rhs', observed=f'{eqs[i]} = {r}', expected=f'(M*A+u)[{i}]={e1}; reference {e2}', detail=f'order {names}; {ref.render()}')
    # (iii) mass balance
    tot = sum(mnum[i][j] * a[j] for i in range(n) for j in range(n))
    loss = -sum(outs[i] * a[i] for i in range(n))
    loss_ref = -sum(ref.rate(nm, OUT, env) * env[amount_key(nm)] for nm in names)
    if not close(tot, loss) or not close(tot, loss_ref):
        raise Violation(f'{tag}mass-balance', observed=tot, expected=(loss, loss_ref), detail=str(ref.render()))
    # (vi) dosing compartments
    check_dosing(cs, ref, tag)
    return names, amts, eqs


def check_dosing(cs, ref, tag=''):
    dosed = sorted(ref.dosed())
    outs = ref.outputs()
    try:
        dc = cs.dosing_compartments
    except ValueError:
        if dosed and outs:
            raise Violation(f'{tag}dosing_compartments:ValueError', expected=dosed, detail=str(ref.render()))
        return
    except Exception as e:  # noqa
        raise Violation(f'{tag}dosing_compartments:{type(e).__name__}', detail=str(e)[:300])
    got = [c.name for c in dc]
    if sorted(got) != dosed:
        raise Violation(f'{tag}dosing_compartments:set', observed=got, expected=dosed, detail=str(ref.render()))
    if len(outs) == 1:
        # "The central compartment is defined to be the compartment that has an outward flow to the
        # output compartment"; "The order of dose compartments is defined to put the central compartment last."
        cen = guard(lambda: cs.central_compartment, allowed=(), clause=f'{tag}central_compartment')
        if cen.name != outs[0]:
            raise Violation(f'{tag}central_compartment', observed=cen.name, expected=outs[0], detail=str(ref.render()))
        if outs[0] in dosed and got[-1] != outs[0]:
            raise Violation(f'{tag}dosing_compartments:central-not-last', observed=got, expected=outs[0], detail=str(ref.render()))


def eq_defined(ref):
    """CompartmentalSystem.__eq__ evaluates dosing_compartments, which raises ValueError without a
    dose or without an output flow"""
    return bool(ref.dosed()) and bool(ref.outputs())


def canon(cs, sort_doses):
    """order-insensitive content of to_dict(): compartments by name, rates by (source, destination)"""
    d = json.loads(json.dumps(cs.to_dict()))
    nm = [c.get('name', '@out') for c in d['compartments']]
    comps = {}
    for c in d['compartments']:
        c = dict(c)
        if sort_doses and c.get('doses'):
            c['doses'] = sorted(json.dumps(x, sort_keys=True) for x in c['doses'])
        comps[c.get('name', '@out')] = c
    rates = sorted((nm[i], nm[j], r) for i, j, r in d['rates'])
    return comps, rates, d['t']


def same_system(a, b, ref, clause):
    """a == b through pharmpy's __eq__; on shapes where __eq__ is undefined (no dose or no output
    flow: dosing_compartments raises) compare the content of to_dict() instead."""
    try:
        r = a == b
    except ValueError as e:
        if eq_defined(ref):
            raise Violation(f'{clause}:eq-ValueError', detail=str(e))
        return guard(canon, a, False, allowed=(), clause=clause) == guard(canon, b, False, allowed=(), clause=clause)
    except Exception as e:  # noqa
        raise Violation(f'{clause}:eq-{type(e).__name__}', detail=str(e)[:300])
    return bool(r)


def require_same(a, b, ref, clause, what, deferred):
    """a == b must hold.  Two recognisable ways in which pharmpy's == is False although both systems
    have identical content are reported under their own clause ids (deferred to the end of the case
    so that the remaining clauses still run):
      eq-dose-order:<clause>  -- same content, but the stored order of the doses of a compartment differs
      eq-node-order:<clause>  -- to_dict() content identical (by name), only the graph's node order differs"""
    if same_system(a, b, ref, clause):
        return
    if canon(a, False) == canon(b, False):
        deferred.append(Violation(f'eq-node-order:{clause}', detail=f'{what}; {ref.render()}'))
    elif canon(a, True) == canon(b, True):
        deferred.append(Violation(f'eq-dose-order:{clause}', detail=f'{what}; {ref.render()}'))
    else:
        raise Violation(f'{clause}:not-equal', observed=repr(a.to_dict())[:800], expected=repr(b.to_dict())[:800], detail=f'{what}; {ref.render()}')


def check_serialisation(cs, ref, env, deferred):
    """(v) dict / json round trip"""
    from pharmpy.model import CompartmentalSystem

    d = guard(cs.to_dict, allowed=(), clause='to_dict')
    try:
        text = json.dumps(d)
    except (TypeError, ValueError) as e:
        raise Violation('to_dict:not-json', detail=str(e)[:300])
    for label, dd in (('dict', d), ('json', json.loads(text))):
        back = guard(CompartmentalSystem.from_dict, dd, allowed=(), clause=f'from_dict[{label}]')
        check_content(back, ref, env, f'roundtrip[{label}]:')
        require_same(back, cs, ref, f'roundtrip[{label}]', 'from_dict(to_dict(cs)) != cs', deferred)
        if label == 'dict' and guard(back.to_dict, allowed=(), clause='to_dict') != d:
            raise Violation('roundtrip[dict]:to_dict-differs', observed=repr(back.to_dict())[:600], expected=repr(d)[:600])


def check_subs(cs, ref, env, spec, rebuild, deferred):
    """(v) subs with a renaming; subs({})"""
    from pharmpy.basic import Expr

    sigma = make_sigma(spec, ref.symbols())
    # identity substitution: nothing changes
    same = guard(cs.subs, {}, allowed=(), clause='subs[empty]')
    check_content(same, ref, env, 'subs[empty]:')
    require_same(same, cs, ref, 'subs[empty]', 'cs.subs({}) != cs', deferred)
    if not sigma:
        return 1
    psigma = {Expr.symbol(k): Expr.symbol(v) for k, v in sigma.items()}
    got = guard(cs.subs, psigma, allowed=(), clause='subs')
    ref_r = ref.renamed(sigma)
    env_r = env_renamed(env, sigma)
    check_core(got, ref_r, env_r, 'subs:')
    fs = {str(s) for s in guard(lambda: got.free_symbols, allowed=(), clause='subs:free_symbols')}
    left = sorted(k for k in sigma if k not in sigma.values() and k in fs)
    if left:
        raise Violation('subs:old-symbol-left', observed=left, detail=f'{sigma}; {ref.render()}')
    direct = rebuild(sigma)
    require_same(got, direct, ref_r, 'subs', f'cs.subs({sigma}) != the system built the same way with renamed symbols', deferred)
    # the original is untouched
    check_content(cs, ref, env, 'subs:original-changed:')
    return 2


def aliased_outflows(ref):
    """some compartment has two outgoing flows (output included) that share an additive term of the
    rate (K1+K2 and K1; (CL+Q)/V and CL/V; two identical rates): their contributions merge into one
    term -2*K1*A in the source equation and cannot be told apart by term matching"""
    seen = set()
    for (s, d), e in ref.edges.items():
        for t in ast_terms(e):
            if (s, t) in seen:
                return True
            seen.add((s, t))
    return False


def additive_edges(ref):
    """flows whose rate is a sum of >= 2 terms: (to compartments, to output)"""
    c2c = [k for k, e in ref.edges.items() if k[1] != OUT and len(ast_terms(e)) > 1]
    out = [k for k, e in ref.edges.items() if k[1] == OUT and len(ast_terms(e)) > 1]
    return c2c, out


def foreign_amount_edges(ref):
    """compartment -> compartment flows whose rate mentions the amount of an existing compartment
    other than the source"""
    out = []
    for (s, d), e in ref.edges.items():
        if d == OUT:
            continue
        if any(x != s and x in ref.comps for x in ast_amts(e)):
            out.append((s, d))
    return out


def check_back_conversion(cs, ref, env, names, amts, eqs, deferred):
    """(iv) to_compartmental_system(names, eqs)"""
    from pharmpy.model import output, to_compartmental_system

    fmap = {amts[i]: names[i] for i in range(len(names))}
    cs2 = guard(to_compartmental_system, fmap, list(eqs), allowed=(), clause='back')
    names2 = guard(lambda: list(cs2.compartment_names), allowed=(), clause='back:compartment_names')
    if sorted(names2) != sorted(names):
        raise Violation('back:names', observed=names2, expected=names)
    eqs2 = guard(lambda: tuple(cs2.eqs), allowed=(), clause='back:eqs')
    A2 = guard(lambda: cs2.amounts, allowed=(), clause='back:amounts')
    foreign = bool(foreign_amount_edges(ref))
    for i, nm in enumerate(names2):
        if str(A2[i, 0]) != amount_key(nm) or str(eqs2[i].lhs) != f'Derivative({amount_key(nm)}, t)':
            raise Violation('back:order', observed=[str(e.lhs) for e in eqs2], expected=names2)
        r = num(eqs2[i].rhs, env, 'back:eqs')
        e = ref.rhs(nm, env)
        if not close(r, e):
            v = Violation(
                'back-foreign-amount:rhs' if foreign else 'back:rhs', observed=f'{eqs2[i]} = {r}', expected=f'{eqs[names.index(nm)]} = {e}', detail=str(ref.render())
            )
            if foreign:
                deferred.append(v)
                return
            raise v
    if aliased_outflows(ref):
        return
    comps = {nm: cs2.find_compartment(nm) for nm in names}
    for a in names:
        for b in names + [OUT]:
            if a == b:
                continue
            fl = guard(cs2.get_flow, comps[a], output if b == OUT else comps[b], allowed=(), clause='back:get_flow')
            g = num(fl, env, 'back:flow')
            e = ref.rate(a, b, env)
            if not close(g, e):
                v = Violation(
                    'back-foreign-amount:flow' if foreign else 'back:flow', observed=f'{a}->{b}: {fl}', expected=ast_render(ref.edges.get((a, b), ZERO)), detail=str(ref.render())
                )
                if foreign:
                    deferred.append(v)
                    return
                raise v
        g = num(comps[a].input, env, 'back:input')
        e = ast_eval(ref.comps[a]['input'], env)
        if not close(g, e):
            raise Violation('back:input', observed=f'{a}: {comps[a].input}', expected=ast_render(ref.comps[a]['input']), detail=str(ref.render()))


def classify(ref):
    cl = [f'n={len(ref.comps)}', f'outputs={len(ref.outputs())}', f'dosed={len(ref.dosed())}']
    if ref.has_cycle():
        cl.append('cycle')
    if ref.has_asymmetric_pair():
        cl.append('asymmetric')
    if any(ast_amts(e) for e in ref.edges.values()):
        cl.append('michaelis-menten')
    if foreign_amount_edges(ref):
        cl.append('foreign-amount-rate')
    if aliased_outflows(ref):
        cl.append('aliased-outflows')
    c2c, out = additive_edges(ref)
    if c2c:
        cl.append('additive-rate:compartment')
        if not aliased_outflows(ref) and not foreign_amount_edges(ref):
            cl.append('additive-rate:compartment:graph-compared')
    if out:
        cl.append('additive-rate:output')
        if not aliased_outflows(ref) and not foreign_amount_edges(ref):
            cl.append('additive-rate:output:graph-compared')
    if any(c['input'] != ZERO for c in ref.comps.values()):
        cl.append('zero-order-input')
    if any(c['lag'] != ZERO or c['F'] != ONE for c in ref.comps.values()):
        cl.append('lag-or-F')
    if any(d['kind'] != 'bolus' for c in ref.comps.values() for d in c['doses']):
        cl.append('infusion')
    if not eq_defined(ref):
        cl.append('eq-undefined-shape')
    return cl


def full_check(cs, ref, env, spec, rebuild, deferred):
    """all clauses on one frozen system; returns number of oracle evaluations"""
    names, amts, eqs = check_core(cs, ref, env)
    check_serialisation(cs, ref, env, deferred)
    k = check_subs(cs, ref, env, spec, rebuild, deferred)
    check_back_conversion(cs, ref, env, names, amts, eqs, deferred)
    return 3 + k


def key_of(*parts):
    return hashlib.sha256(repr(parts).encode()).hexdigest()[:16]


# ------------------------------------------------------------------------------------------
# sub-check direct


def run_direct(spec):
    ref = ref_direct(spec['sys'])
    env = make_env(spec['vals'])
    cs = freeze(build_direct(ref))
    deferred = []

    def rebuild(sigma):
        return freeze(build_direct(ref.renamed(sigma)))

    evals = full_check(cs, ref, env, spec, rebuild, deferred)
    if deferred:
        raise deferred[0]
    classes = classify(ref)
    nt = len(ref.comps) >= 3 and (ref.has_cycle() or ref.has_asymmetric_pair())
    return CaseInfo(nontrivial=nt, classes=tuple(classes), key=key_of(ref.canonical()), render=ref.render(), evals=evals)


# ------------------------------------------------------------------------------------------
# sub-check history


class Hist:
    """Interprets the operation list on the reference and (unless dry) on a pharmpy builder.
    sigma renames the symbols of every expression handed to pharmpy / the reference."""

    def __init__(self, spec, sigma=None, dry=False):
        self.sigma = sigma or {}
        self.dry = dry
        self.ref = ref_direct(spec['sys']).renamed(self.sigma)
        self.cb = None if dry else build_direct(self.ref)
        self.log = []
        self.relabel2 = False

    def r(self, ast):
        return ast_rename(ast, self.sigma)

    def rd(self, d):
        return dict(kind=d['kind'], amount=self.r(d['amount']), admid=d['admid'], par=None if d['par'] is None else self.r(d['par']))

    def comp(self, nm):
        from pharmpy.model import output

        if nm == OUT:
            return output
        c = self.cb.find_compartment(nm)
        if c is None:
            raise Violation('builder.find_compartment', observed=None, expected=nm, detail=str(self.log))
        return c

    def do(self, method, args, updated=None):
        """call builder.<method>(*args()); `updated` names the compartment the call documents to
        return as 'The new updated compartment'"""
        if self.dry:
            return
        res = guard(getattr(self.cb, method), *args(), allowed=(), clause=method)
        if updated is not None:
            cur = self.comp(updated)
            if res != cur:
                raise Violation(f'{method}:returned-compartment', observed=repr(res), expected=repr(cur), detail=str(self.log))

    def step(self, o, cs_prev):
        """apply one operation; returns a label (None = skipped)"""
        ref = self.ref
        names = ref.names
        n = len(names)
        kind = OPS[o['op'] % len(OPS)]
        if o['rebuild'] and cs_prev is not None and not self.dry:
            # editing continues from the frozen system
            from pharmpy.model import CompartmentalSystemBuilder

            self.cb = guard(CompartmentalSystemBuilder, cs_prev, allowed=(), clause='builder-from-system')
        if kind == 'addc':
            free = [x for x in NAMES if x not in ref.comps]
            if n >= MAXN or not free:
                return None
            nm = free[o['a'] % len(free)]
            doses = [self.rd(mk_dose(o['dose']))] if o['b'] % 3 == 0 else []
            ref.add_compartment(nm, doses=doses)
            self.do('add_compartment', lambda: (p_comp(nm, ref.comps[nm]),))
            self.log.append(f'add_compartment({nm}, doses={len(doses)})')
            return kind
        if n == 0:
            return None
        a = names[o['a'] % n]
        if kind == 'rmc':
            if n <= 1:
                return None
            self.do('remove_compartment', lambda: (self.comp(a),))
            ref.remove_compartment(a)
            self.log.append(f'remove_compartment({a})')
            return kind
        if kind in ('addf', 'out'):
            if kind == 'out':
                b = OUT
            else:
                if n < 2:
                    return None
                others = [x for x in names if x != a]
                b = others[o['b'] % len(others)]
            rate = self.r(mk_rate(o['rate'], a, names))
            ref.add_flow(a, b, rate)
            self.do('add_flow', lambda: (self.comp(a), self.comp(b), px(rate)))
            self.log.append(f'add_flow({a}, {"output" if b == OUT else b}, {ast_render(rate)})')
            return kind
        if kind == 'rmf':
            edges = list(ref.edges)
            if not edges:
                return None
            s, d = edges[o['a'] % len(edges)]
            ref.remove_flow(s, d)
            self.do('remove_flow', lambda: (self.comp(s), self.comp(d)))
            self.log.append(f'remove_flow({s}, {"output" if d == OUT else d})')
            return kind
        admid = None if o['adm'] == 0 else o['adm']
        if kind == 'mvd':
            if n < 2:
                return None
            dosed = ref.dosed()
            if dosed and o['b'] % 4 != 3:
                a = dosed[o['a'] % len(dosed)]
            others = [x for x in names if x != a]
            b = others[o['b'] % len(others)]
            before = ref.copy()
            try:
                ref.move_dose(a, b, admid)
                expect_error = False
            except ValueError:
                expect_error = True
            if not self.dry:
                ca, cbb = self.comp(a), self.comp(b)
                try:
                    res = self.cb.move_dose(ca, cbb, admid)
                except ValueError as e:
                    if not expect_error:
                        raise Violation('move_dose:unexpected-ValueError', detail=f'{e}; {self.log}')
                    res = None
                except Exception as e:  # noqa
                    raise Violation(f'move_dose:{type(e).__name__}', detail=f'{str(e)[:300]}; {self.log}')
                else:
                    if expect_error:
                        raise Violation('move_dose:no-ValueError-without-doses', detail=f'{a}->{b}; {before.render()}')
                    if not (isinstance(res, tuple) and len(res) == 2):
                        raise Violation('move_dose:return-shape', observed=repr(res))
                    if res[0] != self.comp(a) or res[1] != self.comp(b):
                        raise Violation('move_dose:returned-compartment', observed=repr(res), expected=repr((self.comp(a), self.comp(b))), detail=str(self.log))
            if expect_error:
                self.log.append(f'move_dose({a}, {b}, {admid}) -> ValueError')
                return 'mvd-refused'
            self.log.append(f'move_dose({a}, {b}, {admid})')
            if before.comps[a]['doses'] != ref.comps[a]['doses']:
                self.relabel2 = True
            return kind
        if kind == 'setd':
            doses = [self.rd(mk_dose(d)) for d in o['doses'][:2]]
            ref.set_dose(a, doses)

            def args():
                if not doses:
                    return self.comp(a), None
                if len(doses) == 1 and o['b'] % 2 == 0:
                    return self.comp(a), p_dose(doses[0])
                return self.comp(a), tuple(p_dose(d) for d in doses)

            self.do('set_dose', args, a)
            self.log.append(f'set_dose({a}, {len(doses)} doses)')
        elif kind == 'addd':
            d = self.rd(mk_dose(o['dose']))
            ref.add_dose(a, d)
            self.do('add_dose', lambda: (self.comp(a), p_dose(d) if o['b'] % 2 == 0 else (p_dose(d),)), a)
            self.log.append(f'add_dose({a})')
        elif kind == 'rmd':
            ref.remove_dose(a, admid)
            self.do('remove_dose', lambda: (self.comp(a), admid), a)
            self.log.append(f'remove_dose({a}, {admid})')
        elif kind in ('lag', 'F', 'inp'):
            method, prefix, default, setter = {
                'lag': ('set_lag_time', 'ALAG', ZERO, ref.set_lag_time),
                'F': ('set_bioavailability', 'FB', ONE, ref.set_bioavailability),
                'inp': ('set_input', 'RIN', ZERO, ref.set_input),
            }[kind]
            e = default if o['expr'] is None else self.r(mk_aux(o['expr'], prefix))
            setter(a, e)
            self.do(method, lambda: (self.comp(a), px(e)), a)
            self.log.append(f'{method}({a}, {ast_render(e)})')
        else:
            raise HarnessError(kind)
        return kind


def dry_run(spec):
    """reference-only interpretation: [(operation index, label, reference after the operation)]"""
    h = Hist(spec, dry=True)
    out = []
    for k, o in enumerate(spec['ops'][:10]):
        label = h.step(o, None)
        if label is not None:
            out.append((k, label, h.ref.copy()))
    return out


def deep_steps(spec, plan):
    """operation indices after which all clauses (incl. serialisation, subs, back conversion) run"""
    if not plan:
        return set()
    return {plan[-1][0], plan[spec['at'] % len(plan)][0]}


def replay_history(spec, sigma, upto):
    """the same history with renamed symbols, frozen after operation number `upto`"""
    h = Hist(spec, sigma)
    cs = freeze(h.cb)
    for k, o in enumerate(spec['ops'][:10]):
        if k > upto:
            break
        if h.step(o, cs) is not None:
            cs = freeze(h.cb)
    return cs


def run_history(spec):
    env = make_env(spec['vals'])
    plan = dry_run(spec)
    if not plan:
        raise Reject('no operation applicable')
    deep = deep_steps(spec, plan)
    h = Hist(spec)
    deferred = []
    cs = freeze(h.cb)
    check_core(cs, h.ref, env, 'init:')
    evals = 1
    done = []
    nontrivial = False
    snap = None
    for k, o in enumerate(spec['ops'][:10]):
        label = h.step(o, cs)
        if label is None:
            continue
        done.append(label)
        cs = freeze(h.cb)
        ref = h.ref
        if k in deep:

            def rebuild(sigma, _k=k):
                return replay_history(spec, sigma, _k)

            evals += full_check(cs, ref, env, spec, rebuild, deferred)
        else:
            check_core(cs, ref, env)
            evals += 1
        if len(ref.comps) >= 3 and (ref.has_cycle() or ref.has_asymmetric_pair() or h.relabel2):
            nontrivial = True
        if snap is None:
            snap = (cs, ref.copy())
    if [x[1] for x in plan] != done:
        raise HarnessError(f'dry run and real run disagree: {[x[1] for x in plan]} vs {done}')
    # a frozen system is not affected by later builder operations
    check_content(snap[0], snap[1], env, 'frozen-system-changed:')
    if deferred:
        raise deferred[0]
    classes = classify(h.ref) + sorted({f'op:{d}' for d in done})
    if h.relabel2:
        classes.append('two-nodes-relabelled')
    return CaseInfo(nontrivial=nontrivial, classes=tuple(classes), key=key_of(h.ref.canonical(), done), render=dict(final=h.ref.render(), ops=h.log), evals=evals)


# ------------------------------------------------------------------------------------------
# sub-check eq_total: == is total on every buildable system


def run_eq_total(spec):
    ref = ref_direct(spec['sys'])
    a = freeze(build_direct(ref))
    b = freeze(build_direct(ref))
    shape = ('dosed' if ref.dosed() else 'no-dose') + '/' + ('output' if ref.outputs() else 'no-output')
    try:
        r = a == b
    except Exception as e:  # noqa
        raise Violation(f'eq:{type(e).__name__}:{shape}', detail=f'{e}; two systems built identically; {ref.render()}')
    if r is not True:
        raise Violation('eq:false-for-identical-construction', detail=str(ref.render()))
    return CaseInfo(nontrivial=not eq_defined(ref), classes=(shape,), key=key_of(ref.canonical()), render=ref.render())


# ------------------------------------------------------------------------------------------
# known-finding predicates (pure functions of the spec, reference only)


def deep_states(spec):
    """reference systems on which the serialisation / subs / back-conversion clauses run"""
    if 'ops' not in spec:
        return [ref_direct(spec['sys'])]
    plan = dry_run(spec)
    deep = deep_steps(spec, plan)
    return [ref for k, _, ref in plan if k in deep]


def bolus_stored_before_infusion(ref):
    for c in ref.comps.values():
        kinds = [d['kind'] == 'bolus' for d in c['stored']]
        if len(kinds) > 1 and any(kinds[i] and not kinds[j] for i in range(len(kinds)) for j in range(i + 1, len(kinds))):
            return True
    return False


def pred_eq_undefined_shape(spec):
    """system without any dose or without any output flow"""
    return not eq_defined(ref_direct(spec['sys']))


def pred_dose_order(spec):
    """a compartment holds >= 2 doses stored with a Bolus before an Infusion"""
    return any(bolus_stored_before_infusion(r) for r in deep_states(spec))


def pred_foreign_amount(spec):
    """a compartment->compartment flow whose rate mentions the amount of another existing compartment"""
    return any(foreign_amount_edges(r) for r in deep_states(spec))


def pred_two_outputs_two_dosed(spec):
    """>= 2 output flows and >= 2 dosing compartments (the order of dosing_compartments, which __eq__
    compares, then depends on the node order of the graph)"""
    return any(len(r.outputs()) >= 2 and len(r.dosed()) >= 2 for r in deep_states(spec))


KNOWN_PREDICATES = {
    'eq_undefined_shape': pred_eq_undefined_shape,
    'two_outputs_two_dosed': pred_two_outputs_two_dosed,
    'bolus_stored_before_infusion': pred_dose_order,
    'foreign_amount_in_rate': pred_foreign_amount,
}


# ------------------------------------------------------------------------------------------


def selfcheck():
    # the AST evaluator and the IR evaluator agree on every expression shape the generator emits
    env = make_env([1, 2, 3, 4, 5, 6, 0, 1])
    for r in ([0, 1, 2, 0], [1, 3, 2, 0], [2, 5, 1, 0], [3, 1, 2, 0], [3, 2, 1, 2], [4, 5, 4, 0], [5, 3, 3, 0], [6, 2, 1, 0]):
        a = mk_rate(r, 'CENTRAL', ['CENTRAL', 'DEPOT'])
        if not close(ast_eval(a, env), ev(px(a), env)):
            raise HarnessError(f'AST and IR evaluation disagree on {a}')
    for e in ([0, 1, 1], [1, 2, 3], [2, 0, 1]):
        a = mk_aux(e, 'RIN')
        if not close(ast_eval(a, env), ev(px(a), env)):
            raise HarnessError(f'AST and IR evaluation disagree on {a}')
    # hand-computed two-compartment system
    ref = RefSystem()
    ref.add_compartment('DEPOT', input=['sym', 'RIN0'])
    ref.add_compartment('CENTRAL')
    ref.add_flow('DEPOT', 'CENTRAL', ['sym', 'K0'])
    ref.add_flow('CENTRAL', OUT, ['sym', 'K1'])
    e = {'K0': 2.0, 'K1': 3.0, 'RIN0': 5.0, amount_key('DEPOT'): 7.0, amount_key('CENTRAL'): 11.0}
    if ref.matrix(['DEPOT', 'CENTRAL'], e) != [[-2.0, 0.0], [2.0, -3.0]]:
        raise HarnessError('reference matrix wrong')
    if ref.rhs('DEPOT', e) != 5.0 - 14.0 or ref.rhs('CENTRAL', e) != 14.0 - 33.0:
        raise HarnessError('reference rhs wrong')
    # sample values of symbols pairwise distinct (a swapped symbol must be visible)
    for vals in ([6, 0, 6, 0, 6, 0, 6, 0], [0, 6, 0, 6, 0, 6, 0, 6]):
        env = make_env(vals)
        sv = sorted(env[s] for s in SYMS)
        av = sorted(env[amount_key(nm)] for nm in NAMES)
        if any(b - a < 1e-3 for a, b in zip(sv, sv[1:])) or any(b - a < 1e-3 for a, b in zip(av, av[1:])):
            raise HarnessError('sample values not distinct')


SUBCHECKS = [
    SubCheck('direct', lambda: DIRECT, run_direct, quick=1000, thorough=20530),
    SubCheck('history', lambda: HISTORY, run_history, quick=800, thorough=16420),
    SubCheck('eq_total', lambda: EQSPEC, run_eq_total, quick=96, thorough=400),
]
