"""C20 -- Estimation results are read faithfully from NONMEM output.

Reference writer E8 (pv/ref/nmout.py, no pharmpy import) renders ext / phi / cov / cor / coi
/ $TABLE files in NONMEM's fixed-width formats; pharmpy's readers must return the printed
numbers (expected value of a cell = float(printed field)), pick the designated special rows,
rename parameters like the model does, and report cov / cor / coi / se that satisfy their
defining relations.  Results objects must survive to_json / read_results.

Sub-checks
  tables    NONMEMTableFile / ExtTable / PhiTable / CovTable / NONMEMTable on generated files,
            plus pharmpy.modeling.calculate_* matrix conversions on the parsed matrices
  endtoend  control stream + lst + ext + phi + cov/cor/coi + $TABLE in a scratch directory,
            pharmpy.tools.read_modelfit_results
  json      read_results(res.to_json()) == res for generated ModelfitResults
"""

from __future__ import annotations

import datetime
import math
import os
import shutil

import numpy as np
from hypothesis import strategies as st

from ..core import VERIF_DIR, CaseInfo, HarnessError, Reject, SubCheck, Violation, guard, spec_hash
from ..ref import nmout

PROPERTY = 'C20'
LEVEL = 'exploration'
RULE = (
    'Parameter configurations with 1-6 thetas (FIX flags, optional comment names), 1-3 omega blocks of size 1-3 and '
    '1-2 sigma blocks of size 1-2 (FIX, SAME); synthetic values from a spec-seeded generator (magnitudes 1e-8..1e8, '
    'both signs, exact zeros); 1-3 estimation steps = TABLE NO. blocks with 0-5 iterations, optional negative burn-in '
    'iterations, any subset of the special ITERATION rows -1000000000..-1000000008, objective values negative / '
    'large / small; phi tables with ETA/ETC or PHI/PHC, non-contiguous IDs, all-zero individuals; positive definite '
    'covariance matrices (correlation part with condition number <= 50) written as cov/cor/coi with fixed parameters '
    'as zero rows/columns; $TABLE files with several tables, headers repeated every 900 records, ONEHEADER, NOTITLE, '
    'NOLABEL. Non-trivial = a fixed/SAME parameter that is not the last one (zero row inside the matrices) or >= 2 '
    'estimation steps or a negative number printed at full width right after another field. Distinct = hash of the spec.'
)
ASSUMPTIONS = [
    'file formats as in docs/NONMEM.rst and the checked-in NONMEM 7.4 outputs; the writer is validated at start-up by '
    'regenerating pheno_real.{ext,phi,cov,cor,coi}, sdtab1 and pheno_real.tab byte for byte from their parsed numbers',
    'expected value of every cell is float(printed field); comparisons with pharmpy use rtol 1e-12 (same text parsed twice)',
    'relations between cov/cor/coi/se read from different files are compared at printed precision: 1e-4 relative for '
    'cor and se (six printed digits, two factors), elementwise bound 1.1e-5*(|A||B|) for coi*cov = I',
    'SAME blocks and unused off-diagonal elements are flagged fixed in row -1000000006 (as in tests/testdata/nonmem/qa/iov.ext)',
    'JSON: pandas values are written with 15 decimals by design (workflows/results.py), so values are compared with '
    'abs 1e-15 + rel 1e-14; a change beyond NONMEM printed precision (rel 5e-6) is a violation',
]

SCRATCH = os.path.join(VERIF_DIR, '.scratch', 'c20')
TESTDATA = '/repo/tests/testdata/nonmem'

# ------------------------------------------------------------------------------------------
# deterministic value source (pure function of the spec)

_M = (1 << 64) - 1


class Rng:
    def __init__(self, seed, stream=0):
        self.s = ((int(seed) + 1) * 6364136223846793005 + (int(stream) + 1) * 1442695040888963407) & _M
        for _ in range(3):
            self.next()

    def next(self):
        self.s = (self.s * 6364136223846793005 + 1442695040888963407) & _M
        x = self.s
        x ^= x >> 33
        x = (x * 0xFF51AFD7ED558CCD) & _M
        x ^= x >> 33
        return x >> 11

    def u(self):
        return self.next() / float(1 << 53)

    def i(self, n):
        return self.next() % n

    def val(self, lo=-8, hi=8, pneg=0.5, pzero=0.0):
        """sign * m * 10**e, m in [1,10), e in [lo,hi]"""
        if pzero and self.u() < pzero:
            return 0.0
        m = 1.0 + 9.0 * self.u()
        e = lo + self.i(hi - lo + 1)
        v = m * 10.0**e
        return -v if self.u() < pneg else v

    def pos(self, lo=-4, hi=2):
        return self.val(lo, hi, pneg=0.0)

    def obj(self, kind):
        k = kind % 6
        if k == 0:
            return self.val(0, 3, pneg=0.0)
        if k == 1:
            return self.val(0, 4, pneg=1.0)
        if k == 2:
            return self.val(8, 13, pneg=0.5)
        if k == 3:
            return self.val(-6, -2, pneg=0.5)
        if k == 4:
            return self.val(-1, 0, pneg=0.5)
        return float(self.i(2000) - 1000)


# ------------------------------------------------------------------------------------------
# parameter configuration

TH_POOL = ['TVCL', 'TVV', 'POP_KA', 'COVEFF', 'BASE', 'SLP']
OM_POOL = ['IIV_CL', 'IIV_V', 'IOV', 'BSV']
SG_POOL = ['RUV_PROP', 'RUV_ADD']


class Cfg:
    """Interprets spec['cfg'] totally.  Attributes:
    thetas: list of dict(fix, name or None)
    om / sg: dict(n, blocks=[dict(start, size, fix, same)], used={(i,j)}, fixed={(i,j)})
    labels (NONMEM file order T,S,O), nm (label -> 'THETA(1)' style), name (label -> model name),
    fixflag (label -> bool), ordered (labels in pharmpy order T,O,S)
    """

    def __init__(self, c):
        c = c if isinstance(c, dict) else {}
        th = [t for t in (c.get('th') or []) if isinstance(t, list)][:6] or [[False, 0]]
        self.thetas = []
        for i, t in enumerate(th):
            fix = bool(t[0]) if len(t) > 0 else False
            k = int(t[1]) if len(t) > 1 and isinstance(t[1], int) else 0
            self.thetas.append(dict(fix=fix, name=(TH_POOL[(k - 1) % len(TH_POOL)] + str(i + 1)) if k > 0 else None))
        if all(t['fix'] for t in self.thetas):
            self.thetas[0]['fix'] = False
        self.om = self._blocks(c.get('om'), 3, 3, OM_POOL)
        self.sg = self._blocks(c.get('sg'), 2, 2, SG_POOL)
        nth = len(self.thetas)
        self.labels = nmout.param_labels(nth, self.om['n'], self.sg['n'])
        self.nm = {}
        self.name = {}
        self.fixflag = {}
        for i, t in enumerate(self.thetas):
            lab = 'THETA%d' % (i + 1)
            self.nm[lab] = 'THETA(%d)' % (i + 1)
            self.name[lab] = t['name'] or 'THETA_%d' % (i + 1)
            self.fixflag[lab] = t['fix']
        for pre, m in (('OMEGA', self.om), ('SIGMA', self.sg)):
            for ij in nmout.tri(m['n']):
                lab = '%s(%d,%d)' % ((pre,) + ij)
                self.nm[lab] = lab
                self.fixflag[lab] = ij not in m['used'] or ij in m['fixed']
                self.name[lab] = m['names'].get(ij) or '%s_%d_%d' % ((pre,) + ij)
        self.ordered = (
            [l for l in self.labels if l.startswith('THETA')]
            + [l for l in self.labels if l.startswith('OMEGA')]
            + [l for l in self.labels if l.startswith('SIGMA')]
        )
        self.free = [l for l in self.ordered if not self.fixflag[l]]

    @staticmethod
    def _blocks(raw, maxblocks, maxsize, pool):
        raw = [b for b in (raw or []) if isinstance(b, list)][:maxblocks] or [[1, False, False, 0]]
        blocks = []
        start = 0
        for bi, b in enumerate(raw):
            size = 1 + (int(b[0]) - 1) % maxsize if len(b) > 0 and isinstance(b[0], int) else 1
            fix = bool(b[1]) if len(b) > 1 else False
            same = bool(b[2]) if len(b) > 2 else False
            k = int(b[3]) if len(b) > 3 and isinstance(b[3], int) else 0
            if same and bi == 0:
                same = False
            if same:
                size = blocks[-1]['size']
                fix = False
            blocks.append(dict(start=start, size=size, fix=fix, same=same, name=(pool[(k - 1) % len(pool)] + str(start + 1)) if (k > 0 and size == 1 and not same) else None))
            start += size
        if all(b['fix'] or b['same'] for b in blocks):
            for b in blocks:
                if not b['same']:
                    b['fix'] = False
                    break
        used, fixed, names = set(), set(), {}
        for b in blocks:
            for i in range(b['size']):
                for j in range(i + 1):
                    ij = (b['start'] + i + 1, b['start'] + j + 1)
                    used.add(ij)
                    if b['fix'] or b['same']:
                        fixed.add(ij)
            if b['name']:
                names[(b['start'] + 1, b['start'] + 1)] = b['name']
        return dict(n=start, blocks=blocks, used=used, fixed=fixed, names=names)

    def describe(self):
        return dict(
            thetas=[('FIX ' if t['fix'] else '') + (t['name'] or '-') for t in self.thetas],
            omega=[('SAME' if b['same'] else ('FIX' if b['fix'] else '')) + 'B%d' % b['size'] for b in self.om['blocks']],
            sigma=[('SAME' if b['same'] else ('FIX' if b['fix'] else '')) + 'B%d' % b['size'] for b in self.sg['blocks']],
        )

    def zero_row_inside(self):
        """a fixed label that is followed by a free one in file order (zero row inside the matrix)"""
        seen_fixed = False
        for l in self.labels:
            if self.fixflag[l]:
                seen_fixed = True
            elif seen_fixed:
                return True
        return False

    # ---- values -------------------------------------------------------------------------
    def param_values(self, rng):
        """dict label -> value: a consistent parameter vector (block matrices positive definite,
        unused elements 0, SAME blocks copy the previous block)"""
        v = {}
        for i in range(len(self.thetas)):
            v['THETA%d' % (i + 1)] = rng.val(-6, 6, pneg=0.35, pzero=0.03)
        for pre, m in (('OMEGA', self.om), ('SIGMA', self.sg)):
            for ij in nmout.tri(m['n']):
                v['%s(%d,%d)' % ((pre,) + ij)] = 0.0
            prev = None
            for b in m['blocks']:
                s = b['start']
                if b['same']:
                    for i in range(b['size']):
                        for j in range(i + 1):
                            v['%s(%d,%d)' % (pre, s + i + 1, s + j + 1)] = v['%s(%d,%d)' % (pre, prev['start'] + i + 1, prev['start'] + j + 1)]
                    continue
                d = [rng.pos(-5, 1) for _ in range(b['size'])]
                for i in range(b['size']):
                    for j in range(i + 1):
                        if i == j:
                            x = d[i]
                        else:
                            x = (rng.u() * 0.8 - 0.4) * math.sqrt(d[i] * d[j])
                        v['%s(%d,%d)' % (pre, s + i + 1, s + j + 1)] = x
                prev = b
        return v

    def perturb(self, v, rng):
        """next iteration: free parameters move, fixed ones stay; SAME follows its source"""
        w = dict(v)
        for l in self.labels:
            if not self.fixflag[l]:
                w[l] = v[l] * (1.0 + 0.1 * (rng.u() - 0.5))
        for pre, m in (('OMEGA', self.om), ('SIGMA', self.sg)):
            prev = None
            for b in m['blocks']:
                if b['same']:
                    for i in range(b['size']):
                        for j in range(i + 1):
                            w['%s(%d,%d)' % (pre, b['start'] + i + 1, b['start'] + j + 1)] = w['%s(%d,%d)' % (pre, prev['start'] + i + 1, prev['start'] + j + 1)]
                else:
                    prev = b
        return w

    def sdcorr(self, v):
        """row -1000000004: thetas 0, omega/sigma as sd (diagonal) and correlation (off-diagonal)"""
        w = {l: 0.0 for l in self.labels}
        for pre, m in (('OMEGA', self.om), ('SIGMA', self.sg)):
            for (i, j) in nmout.tri(m['n']):
                lab = '%s(%d,%d)' % (pre, i, j)
                if i == j:
                    w[lab] = math.sqrt(v[lab]) if v[lab] > 0 else 0.0
                elif v[lab] != 0:
                    w[lab] = v[lab] / math.sqrt(v['%s(%d,%d)' % (pre, i, i)] * v['%s(%d,%d)' % (pre, j, j)])
        return w


METHODS = [
    ('First Order', 'MINIMUM VALUE OF OBJECTIVE FUNCTION', 'ZERO'),
    ('First Order Conditional Estimation', 'MINIMUM VALUE OF OBJECTIVE FUNCTION', 'COND'),
    ('First Order Conditional Estimation with Interaction', 'MINIMUM VALUE OF OBJECTIVE FUNCTION', 'COND INTER'),
    ('Laplacian Conditional Estimation', 'MINIMUM VALUE OF OBJECTIVE FUNCTION', 'COND LAPLACE'),
    ('Importance Sampling', 'FINAL VALUE OF OBJECTIVE FUNCTION', 'IMP'),
    ('Importance Sampling (No Prior)', 'FINAL VALUE OF OBJECTIVE FUNCTION', 'IMP'),
    ('Stochastic Approximation Expectation-Maximization', 'FINAL VALUE OF LIKELIHOOD FUNCTION', 'SAEM'),
    ('Iterative Two Stage', 'FINAL VALUE OF OBJECTIVE FUNCTION', 'ITS'),
    ('Objective Function Evaluation by Importance Sampling', 'FINAL VALUE OF OBJECTIVE FUNCTION', 'IMP EONLY=1'),
    ('MCMC Bayesian Analysis', 'AVERAGE VALUE OF LIKELIHOOD FUNCTION', 'BAYES'),
]
EM = {4, 5, 6, 7, 8, 9}
BAYES = 9


def _ints(x, n, default=0):
    x = list(x) if isinstance(x, list) else []
    out = []
    for k in range(n):
        v = x[k] if k < len(x) else default
        out.append(int(v) if isinstance(v, (int, bool)) else default)
    return out


class Step:
    """one estimation step = one TABLE NO. block of the ext/phi files
    raw: [method, niter, burn, rowsmask, objkind, flags]
      rowsmask bit k set -> special row -(1000000000+k) present
      flags bit0 (Evaluation) title, bit1 final row differs from last iteration, bit2 print interval 5
    """

    def __init__(self, raw, number):
        m, niter, burn, mask, objkind, flags = _ints(raw, 6)
        self.number = number
        self.mi = m % len(METHODS)
        self.niter = niter % 6
        self.burn = burn % 3
        self.mask = mask % 512
        self.objkind = objkind
        self.evaluation = bool(flags & 1)
        self.final_differs = bool(flags & 2)
        self.interval = 5 if flags & 4 else 1
        self.method = METHODS[self.mi][0] + (' (Evaluation)' if self.evaluation else '')
        self.goal = METHODS[self.mi][1]

    def has(self, code):
        return bool(self.mask & (1 << (nmout.IT_FINAL - code)))


def build_ext_step(cfg: Cfg, step: Step, rng: Rng, se=None, objname='OBJ'):
    """-> (table dict, info) where info holds the raw python values per special row
    (expected values are taken from the formatted fields, not from these)."""
    rows = []
    v = cfg.param_values(rng)
    its = []
    for b in range(step.burn, 0, -1):
        its.append(-10 * b)
    its += [k * step.interval for k in range(step.niter + 1)]
    for it in its:
        rows.append((it, [v[l] for l in cfg.labels], rng.obj(step.objkind)))
        last = (v, rows[-1][2])
        v = cfg.perturb(v, rng)
    fv, fobj = last
    if step.final_differs:
        fv, fobj = v, rng.obj(step.objkind)
    zeros = [0.0] * len(cfg.labels)
    if step.has(nmout.IT_FINAL):
        rows.append((nmout.IT_FINAL, [fv[l] for l in cfg.labels], fobj))
    sevals = None
    if step.has(nmout.IT_SE):
        if se is None:
            se = {l: rng.pos(-5, 1) for l in cfg.labels}
        sevals = [1e10 if cfg.fixflag[l] else se[l] for l in cfg.labels]
        rows.append((nmout.IT_SE, sevals, 0.0))
    if step.has(nmout.IT_EIGEN):
        k = len(cfg.free)
        ev = sorted(rng.pos(-2, 1) for _ in range(k))
        rows.append((nmout.IT_EIGEN, ev + [0.0] * (len(cfg.labels) - k), 0.0))
    if step.has(nmout.IT_COND):
        lo, hi = rng.pos(-3, 0), rng.pos(0, 2)
        rows.append((nmout.IT_COND, ([hi / lo, lo, hi] + zeros)[: len(cfg.labels)], 0.0))
    if step.has(nmout.IT_SDCORR):
        sc = cfg.sdcorr(fv)
        rows.append((nmout.IT_SDCORR, [sc[l] for l in cfg.labels], 0.0))
    if step.has(nmout.IT_SE_SDCORR):
        rows.append((nmout.IT_SE_SDCORR, [1e10 if cfg.fixflag[l] else (0.0 if l.startswith('THETA') else rng.pos(-4, 0)) for l in cfg.labels], 0.0))
    if step.has(nmout.IT_FIXED):
        rows.append((nmout.IT_FIXED, [1.0 if cfg.fixflag[l] else 0.0 for l in cfg.labels], 0.0))
    if step.has(nmout.IT_TERM):
        rows.append((nmout.IT_TERM, ([float(rng.i(3)), 37.0, float(rng.i(50))] + zeros)[: len(cfg.labels)], 0.0))
    if step.has(nmout.IT_PARTIAL):
        rows.append((nmout.IT_PARTIAL, [0.0 if cfg.fixflag[l] else rng.val(-6, 1, pneg=0.8) for l in cfg.labels], 0.0))
    title = nmout.title_line(step.number, step.method, goal=step.goal)
    return nmout.ext_table(title, cfg.labels, rows, objname=objname)


def build_phi_step(cfg: Cfg, step: Step, rng: Rng, ids, zero_mask, prefix='ETA', objname='OBJ'):
    neta = cfg.om['n']
    rows = []
    for k, ident in enumerate(ids):
        if zero_mask & (1 << k):
            rows.append((k + 1, ident, [0.0] * neta, [0.0] * (neta * (neta + 1) // 2), 0.0))
            continue
        etas = [rng.val(-4, 1, pneg=0.5, pzero=0.05) for _ in range(neta)]
        d = [rng.pos(-5, 0) for _ in range(neta)]
        etcs = []
        for (i, j) in nmout.tri(neta):
            etcs.append(d[i - 1] if i == j else (rng.u() * 0.6 - 0.3) * math.sqrt(d[i - 1] * d[j - 1]))
        obj = rng.obj(step.objkind + k)
        if obj == 0.0:
            obj = 1.5
        if all(e == 0 for e in etas):
            etas[0] = 0.125
        rows.append((k + 1, ident, etas, etcs, obj))
    title = nmout.title_line(step.number, step.method)
    return nmout.phi_table(title, neta, rows, prefix=prefix, objname=objname)


def make_ids(rng: Rng, n, gap):
    ids = []
    cur = 1 + rng.i(50)
    for _ in range(n):
        ids.append(cur)
        cur += 1 + rng.i(max(1, gap))
    return ids


def build_cov(cfg: Cfg, rng: Rng, se):
    """positive definite covariance of the free parameters: cov = D C D with C a correlation
    matrix with eigenvalues >= w (w in [0.3,0.9]) -> condition number of C <= m/w <= 50.
    -> (cov, cor(diag = se), coi) as full matrices in file label order, zeros for fixed."""
    free = [l for l in cfg.labels if not cfg.fixflag[l]]
    m = len(free)
    a = np.array([[rng.u() - 0.5 for _ in range(m)] for _ in range(m)])
    g = a @ a.T + 1e-3 * np.eye(m)
    dg = np.sqrt(np.diag(g))
    c0 = g / np.outer(dg, dg)
    w = 0.3 + 0.6 * rng.u()
    c = (1 - w) * c0 + w * np.eye(m)
    d = np.array([se[l] for l in free])
    cov = c * np.outer(d, d)
    coi = np.linalg.inv(cov)
    cor = c.copy()
    np.fill_diagonal(cor, d)
    n = len(cfg.labels)
    idx = [cfg.labels.index(l) for l in free]

    def full(mat):
        f = np.zeros((n, n))
        for a_, i in enumerate(idx):
            for b_, j in enumerate(idx):
                f[i, j] = mat[a_, b_]
        return f.tolist()

    return full(cov), full(cor), full(coi)


# ------------------------------------------------------------------------------------------
# comparison helpers


def fval(field):
    return float(field.strip())


def eq(a, b, rtol=1e-12):
    """same printed text parsed by two readers: equal up to rtol (NaN == NaN)"""
    try:
        a = float(a)
        b = float(b)
    except (TypeError, ValueError):
        return False
    if a != a or b != b:
        return a != a and b != b
    return abs(a - b) <= rtol * max(abs(a), abs(b))


def row_of(table, code):
    for r in table['rows']:
        if int(r[0]) == code:
            return r
    return None


def _isint(x):
    try:
        return float(x) == int(x)
    except (TypeError, ValueError, OverflowError):
        return False


# ------------------------------------------------------------------------------------------
# sub-check 1: tables

CFG = st.fixed_dictionaries(
    dict(
        th=st.lists(st.tuples(st.booleans(), st.integers(0, 6)).map(list), min_size=1, max_size=6),
        om=st.lists(st.tuples(st.integers(1, 3), st.booleans(), st.booleans(), st.integers(0, 4)).map(list), min_size=1, max_size=3),
        sg=st.lists(st.tuples(st.integers(1, 2), st.booleans(), st.booleans(), st.integers(0, 2)).map(list), min_size=1, max_size=2),
    )
)

ROWMASK = st.one_of(st.just(511), st.just(1 | 16 | 64), st.just(0), st.integers(0, 511), st.integers(0, 511).map(lambda x: x | 1 | 64))

STEP = st.tuples(st.integers(0, len(METHODS) - 1), st.integers(0, 5), st.integers(0, 2), ROWMASK, st.integers(0, 5), st.integers(0, 7)).map(list)

TABLES = st.fixed_dictionaries(
    dict(
        cfg=CFG,
        seed=st.integers(0, 2**31 - 1),
        steps=st.lists(STEP, min_size=1, max_size=3),
        objname=st.sampled_from([0, 0, 0, 1, 2]),
        phi=st.tuples(st.integers(1, 6), st.integers(0, 1), st.integers(1, 5), st.integers(0, 63)).map(list),
        # $TABLE: ncols, nrows, ntables, layout (0 default, 1 ONEHEADER, 2 NOTITLE, 3 NOTITLE NOLABEL, 4 NOLABEL), big
        tab=st.tuples(
            st.integers(1, 6), st.integers(1, 12), st.integers(1, 3), st.sampled_from([0, 0, 0, 1, 1, 2, 2, 3, 4]), st.sampled_from([False] * 11 + [True])
        ).map(list),
    )
)

DT_NAMES = ['ID', 'TIME', 'DV', 'PRED', 'RES', 'CWRES', 'IPRED']


def _write(path, text):
    with open(path, 'w') as f:
        f.write(text)


def _scratch(spec, tag):
    d = os.path.join(SCRATCH, '%s_%d_%s' % (tag, os.getpid(), spec_hash(spec)))
    os.makedirs(d, exist_ok=True)
    return d


def _check_title(t, step: Step, has_goal, where):
    exp = dict(number=step.number, method=step.method, goal_function=step.goal if has_goal else None, problem=1, subproblem=0,
               superproblem1=0, iteration1=0, superproblem2=0, iteration2=0, design_optimality=None, is_evaluation=step.evaluation)
    if 'Evaluation' in METHODS[step.mi][0]:
        del exp['is_evaluation']  # 'Objective Function Evaluation by ...' is itself an evaluation; not asserted
    for k, v in exp.items():
        got = getattr(t, k)
        if got != v:
            raise Violation(f'{where}:title:{k}', observed=got, expected=v)


def check_ext_table(cfg: Cfg, step: Step, tab, t):
    """tab: written table (fields); t: pharmpy ExtTable"""
    from pharmpy.model.external.nonmem.table import ExtTable

    if not isinstance(t, ExtTable):
        raise Violation('ext:type', observed=type(t).__name__)
    _check_title(t, step, True, 'ext')
    df = guard(lambda: t.data_frame, clause='ext:data_frame')
    exp_cols = ['ITERATION'] + [cfg.nm[l] for l in cfg.ordered] + ['OBJ']
    if list(df.columns) != exp_cols:
        raise Violation('ext:labels', observed=list(df.columns), expected=exp_cols)
    if len(df) != len(tab['rows']):
        raise Violation('ext:nrows', observed=len(df), expected=len(tab['rows']))
    col = {cfg.nm[l]: 1 + k for k, l in enumerate(cfg.labels)}
    n = 0
    for ri, r in enumerate(tab['rows']):
        got = df.iloc[ri]
        if not _isint(got['ITERATION']) or int(got['ITERATION']) != int(r[0]):
            raise Violation('ext:iteration-index', observed=repr(got['ITERATION']), expected=int(r[0]), detail=f'row {ri}')
        for name, ci in col.items():
            n += 1
            if not eq(got[name], fval(r[ci])):
                raise Violation('ext:value', observed=float(got[name]), expected=fval(r[ci]), detail=f'row {ri} (iteration {int(r[0])}) column {name}: field {r[ci]!r}')
        if not eq(got['OBJ'], fval(r[-1])):
            raise Violation('ext:obj', observed=float(got['OBJ']), expected=fval(r[-1]), detail=f'row {ri}: field {r[-1]!r}')
    # designated rows
    its = [int(r[0]) for r in tab['rows']]
    nonneg = [i for i in its if i >= 0]
    got_its = guard(lambda: t.iterations, clause='ext:iterations')
    if [int(x) for x in got_its] != nonneg:
        raise Violation('ext:iterations', observed=list(got_its), expected=nonneg)

    def expect_row(code, thetas=True):
        r = row_of(tab, code)
        if r is None:
            return None
        return {cfg.nm[l]: fval(r[1 + k]) for k, l in enumerate(cfg.labels) if thetas or not l.startswith('THETA')}

    def compare_series(what, getter, exp, order):
        if exp is None:
            try:
                got = getter()
            except KeyError:
                return
            except Exception as e:  # noqa
                raise Violation(f'ext:{what}:missing-row:{type(e).__name__}', detail=str(e)[:200])
            raise Violation(f'ext:{what}:missing-row-no-error', observed=repr(got)[:200], detail='designated row absent: KeyError is what callers catch')
        got = guard(getter, allowed=(), clause=f'ext:{what}')
        if list(got.index) != order:
            raise Violation(f'ext:{what}:labels', observed=list(got.index), expected=order)
        for k in order:
            if isinstance(exp[k], bool):
                if bool(got[k]) != exp[k]:
                    raise Violation(f'ext:{what}:value', observed=bool(got[k]), expected=exp[k], detail=k)
            elif not eq(got[k], exp[k]):
                raise Violation(f'ext:{what}:value', observed=float(got[k]), expected=exp[k], detail=k)

    allp = [cfg.nm[l] for l in cfg.ordered]
    osp = [cfg.nm[l] for l in cfg.ordered if not l.startswith('THETA')]
    final = expect_row(nmout.IT_FINAL)
    final_obj = None
    if final is not None:
        final_obj = fval(row_of(tab, nmout.IT_FINAL)[-1])
    elif nonneg:
        # documented fall-back: estimates of the last iteration
        last = max(nonneg)
        final = expect_row(last)
        final_obj = fval(row_of(tab, last)[-1])
    compare_series('final_parameter_estimates', lambda: t.final_parameter_estimates, final, allp)
    got = guard(lambda: t.final_ofv, clause='ext:final_ofv')
    if not eq(got, final_obj):
        raise Violation('ext:final_ofv', observed=float(got), expected=final_obj)
    init = row_of(tab, 0) or row_of(tab, nmout.IT_FINAL)
    if init is not None:
        got = guard(lambda: t.initial_ofv, clause='ext:initial_ofv')
        if not eq(got, fval(init[-1])):
            raise Violation('ext:initial_ofv', observed=float(got), expected=fval(init[-1]))
    compare_series('standard_errors', lambda: t.standard_errors, expect_row(nmout.IT_SE), allp)
    compare_series('omega_sigma_stdcorr', lambda: t.omega_sigma_stdcorr, expect_row(nmout.IT_SDCORR, thetas=False), osp)
    compare_series('omega_sigma_se_stdcorr', lambda: t.omega_sigma_se_stdcorr, expect_row(nmout.IT_SE_SDCORR, thetas=False), osp)
    fx = expect_row(nmout.IT_FIXED)
    if fx is not None:
        fx = {k: v != 0 for k, v in fx.items()}
    compare_series('fixed', lambda: t.fixed, fx, allp)
    r = row_of(tab, nmout.IT_COND)
    if r is not None:
        # the condition number is the first value of the row in file order (THETA1 column)
        got = guard(lambda: t.condition_number, clause='ext:condition_number')
        if not eq(got, fval(r[1])):
            raise Violation('ext:condition_number', observed=float(got), expected=fval(r[1]))
    return n


def check_phi_table(cfg: Cfg, step: Step, tab, t, prefix):
    from pharmpy.model.external.nonmem.table import PhiTable

    if not isinstance(t, PhiTable):
        raise Violation('phi:type', observed=type(t).__name__)
    _check_title(t, step, False, 'phi')
    neta = cfg.om['n']
    ntri = neta * (neta + 1) // 2
    keep = [r for r in tab['rows'] if any(fval(x) != 0 for x in r[2:])]
    ids = [int(r[1]) for r in keep]
    df = guard(lambda: t.data_frame, clause='phi:data_frame')
    # the objective function column of EM methods (SAEMOBJ, MCMCOBJ) is presented as OBJ
    if list(df.columns) != tab['names'][:-1] + ['OBJ']:
        raise Violation('phi:labels', observed=list(df.columns), expected=tab['names'][:-1] + ['OBJ'])
    if len(df) != len(tab['rows']):
        raise Violation('phi:nrows', observed=len(df), expected=len(tab['rows']))
    for ri, r in enumerate(tab['rows']):
        for ci, name in enumerate(tab['names']):
            if not eq(df.iloc[ri, ci], fval(r[ci])):
                raise Violation('phi:value', observed=float(df.iloc[ri, ci]), expected=fval(r[ci]), detail=f'row {ri} column {name}: field {r[ci]!r}')
    iofv = guard(lambda: t.iofv, clause='phi:iofv')
    if [int(x) for x in iofv.index] != ids:
        raise Violation('phi:iofv:ids', observed=list(iofv.index), expected=ids)
    for k, r in enumerate(keep):
        if not eq(iofv.iloc[k], fval(r[-1])):
            raise Violation('phi:iofv:value', observed=float(iofv.iloc[k]), expected=fval(r[-1]), detail=f'ID {ids[k]}')
    etas = guard(lambda: t.etas, clause='phi:etas')
    exp_cols = ['%s(%d)' % (prefix, i + 1) for i in range(neta)]
    if list(etas.columns) != exp_cols:
        raise Violation('phi:etas:labels', observed=list(etas.columns), expected=exp_cols)
    if [int(x) for x in etas.index] != ids:
        raise Violation('phi:etas:ids', observed=list(etas.index), expected=ids)
    for k, r in enumerate(keep):
        for i in range(neta):
            if not eq(etas.iloc[k, i], fval(r[2 + i])):
                raise Violation('phi:etas:value', observed=float(etas.iloc[k, i]), expected=fval(r[2 + i]), detail=f'ID {ids[k]} eta {i + 1}')
    etcs = guard(lambda: t.etcs, clause='phi:etcs')
    if [int(x) for x in etcs.index] != ids:
        raise Violation('phi:etcs:ids', observed=list(etcs.index), expected=ids)
    names = ['ETA(%d)' % (i + 1) for i in range(neta)]
    for k, r in enumerate(keep):
        m = etcs.iloc[k]
        if list(m.index) != names or list(m.columns) != names:
            raise Violation('phi:etcs:labels', observed=[list(m.index), list(m.columns)], expected=names)
        for q, (i, j) in enumerate(nmout.tri(neta)):
            e = fval(r[2 + neta + q])
            if not eq(m.iloc[i - 1, j - 1], e) or not eq(m.iloc[j - 1, i - 1], e):
                raise Violation('phi:etcs:value', observed=[float(m.iloc[i - 1, j - 1]), float(m.iloc[j - 1, i - 1])], expected=e, detail=f'ID {ids[k]} ETC({i},{j})')
    return len(tab['rows']) * (2 + neta + ntri)


def check_matrix_table(cfg: Cfg, step: Step, tab, t, kind):
    from pharmpy.model.external.nonmem.table import CovTable

    if not isinstance(t, CovTable):
        raise Violation(f'{kind}:type', observed=type(t).__name__)
    _check_title(t, step, False, kind)
    df = guard(lambda: t.data_frame, clause=f'{kind}:data_frame')
    exp = [cfg.nm[l] for l in cfg.free]
    if list(df.index) != exp or list(df.columns) != exp:
        raise Violation(f'{kind}:labels', observed=[list(df.index), list(df.columns)], expected=exp, detail='fixed parameters must be absent, order THETA, OMEGA, SIGMA')
    pos = {l: k for k, l in enumerate(cfg.labels)}
    for a in cfg.free:
        for b in cfg.free:
            e = fval(tab['rows'][pos[a]][1 + pos[b]])
            g = df.loc[cfg.nm[a], cfg.nm[b]]
            if not eq(g, e):
                raise Violation(f'{kind}:value', observed=float(g), expected=e, detail=f'[{a},{b}]')
    return df


def check_math(cov_df, cor_df, coi_df, se_fields):
    """pharmpy.modeling.calculate_* on the parsed matrices: defining relations.
    cor_df still has the standard errors on its diagonal (file convention)."""
    import pandas as pd

    from pharmpy import modeling as pm

    cov = cov_df.values.astype(float)
    m = cov.shape[0]
    se = np.sqrt(np.diag(cov))
    c = cov / np.outer(se, se)
    tol = 1e-9
    got = guard(pm.calculate_se_from_cov, cov_df, allowed=(), clause='math:se_from_cov')
    if list(got.index) != list(cov_df.index) or not np.allclose(got.values, se, rtol=tol, atol=0):
        raise Violation('math:se_from_cov', observed=got.tolist(), expected=se.tolist())
    got = guard(pm.calculate_corr_from_cov, cov_df, allowed=(), clause='math:corr_from_cov')
    if not isinstance(got, pd.DataFrame) or list(got.index) != list(cov_df.index) or list(got.columns) != list(cov_df.columns):
        raise Violation('math:corr_from_cov:labels', observed=repr(got)[:200])
    if not np.allclose(got.values, c, rtol=tol, atol=1e-12):
        raise Violation('math:corr_from_cov', observed=got.values.tolist(), expected=c.tolist())
    prec = guard(pm.calculate_prec_from_cov, cov_df, allowed=(), clause='math:prec_from_cov')
    if list(prec.index) != list(cov_df.index):
        raise Violation('math:prec_from_cov:labels', observed=list(prec.index))
    # scaled residual: D P D C = I ; condition number of C <= 50 by construction
    r = (prec.values * np.outer(se, se)) @ c - np.eye(m)
    if np.abs(r).max() > 1e-9:
        raise Violation('math:prec_from_cov', observed=float(np.abs(r).max()), expected='<=1e-9', detail='max |D*P*D*C - I|')
    back = guard(pm.calculate_cov_from_prec, prec, allowed=(), clause='math:cov_from_prec')
    if not np.allclose(back.values / np.outer(se, se), c, rtol=0, atol=1e-9):
        raise Violation('math:cov_from_prec', observed=back.values.tolist(), expected=cov.tolist())
    se_s = pd.Series(se, index=cov_df.index)
    corr_df = pd.DataFrame(c, index=cov_df.index, columns=cov_df.columns)
    got = guard(pm.calculate_cov_from_corrse, corr_df, se_s, allowed=(), clause='math:cov_from_corrse')
    if list(got.index) != list(cov_df.index) or not np.allclose(got.values, cov, rtol=1e-9, atol=0):
        raise Violation('math:cov_from_corrse', observed=got.values.tolist(), expected=cov.tolist())
    got = guard(pm.calculate_prec_from_corrse, corr_df, se_s, allowed=(), clause='math:prec_from_corrse')
    r = (got.values * np.outer(se, se)) @ c - np.eye(m)
    if np.abs(r).max() > 1e-9:
        raise Violation('math:prec_from_corrse', observed=float(np.abs(r).max()), expected='<=1e-9')
    got = guard(pm.calculate_corr_from_prec, prec, allowed=(), clause='math:corr_from_prec')
    if not np.allclose(got.values, c, rtol=0, atol=1e-9):
        raise Violation('math:corr_from_prec', observed=got.values.tolist(), expected=c.tolist())
    got = guard(pm.calculate_se_from_prec, prec, allowed=(), clause='math:se_from_prec')
    if list(got.index) != list(cov_df.index) or not np.allclose(got.values, se, rtol=1e-8, atol=0):
        raise Violation('math:se_from_prec', observed=got.tolist(), expected=se.tolist())
    # files against each other at printed precision
    check_relations(cov_df.values, cor_df.values, coi_df.values, None, 'files')


def check_relations(cov, cor, coi, se, where):
    """cov, cor, coi (numpy, same order); cor may carry anything on its diagonal (ignored unless
    where == 'results', then it must be exactly 1); se: vector or None."""
    cov = np.asarray(cov, dtype=float)
    m = cov.shape[0]
    d = np.sqrt(np.diag(cov))
    if not np.all(np.isfinite(d)) or np.any(d <= 0):
        raise Violation(f'{where}:cov-diagonal-not-positive', observed=np.diag(cov).tolist())
    if cor is not None:
        cor = np.asarray(cor, dtype=float)
        exp = cov / np.outer(d, d)
        for i in range(m):
            for j in range(m):
                if i == j:
                    if where == 'results' and abs(cor[i, j] - 1.0) > 1e-12:
                        raise Violation(f'{where}:cor-diagonal', observed=float(cor[i, j]), expected=1.0)
                    continue
                if abs(cor[i, j] - exp[i, j]) > 1e-4 * max(abs(exp[i, j]), 1e-3):
                    raise Violation(f'{where}:cor-vs-cov', observed=float(cor[i, j]), expected=float(exp[i, j]), detail=f'[{i},{j}] cor != cov_ij/sqrt(cov_ii cov_jj) at 1e-4')
    if coi is not None:
        coi = np.asarray(coi, dtype=float)
        prod = coi @ cov
        bound = 1.1e-5 * (np.abs(coi) @ np.abs(cov)) + 1e-9
        r = np.abs(prod - np.eye(m))
        if np.any(r > bound):
            i, j = np.unravel_index(np.argmax(r - bound), r.shape)
            raise Violation(f'{where}:coi-vs-cov', observed=float(prod[i, j]), expected=float(i == j), detail=f'(coi*cov)[{i},{j}] off by {r[i, j]:.3g} > bound {bound[i, j]:.3g}')
    if se is not None:
        se = np.asarray(se, dtype=float)
        for i in range(m):
            if abs(se[i] - d[i]) > 1e-4 * d[i]:
                raise Violation(f'{where}:se-vs-cov', observed=float(se[i]), expected=float(d[i]), detail=f'parameter #{i}: se != sqrt(cov_ii) at 1e-4')


def build_dollar(spec_tab, rng: Rng):
    ncols, nrows, ntab, layout, big = (_ints(spec_tab, 4) + [bool(spec_tab[4]) if isinstance(spec_tab, list) and len(spec_tab) > 4 else False])
    ncols = 1 + (ncols - 1) % 6
    nrows = 1 + (nrows - 1) % 12
    ntab = 1 + (ntab - 1) % 3
    layout = layout % 5
    if layout in (2, 3):
        ntab = 1  # without title lines tables cannot be told apart
    if big:
        nrows = 901 + nrows * 83
        ntab = min(ntab, 2)
    names = DT_NAMES[:ncols]
    tabs = []
    for k in range(ntab):
        rows = []
        for r in range(nrows):
            row = [float(1 + r // 3), 0.5 * (r % 3)]
            row += [rng.val(-4, 4, pneg=0.6, pzero=0.05) for _ in range(ncols)]
            rows.append(row[:ncols])
        tabs.append(nmout.dollar_table(k + 1, names, rows))
    title = layout in (0, 1, 4)
    label = layout in (0, 1, 2)
    text = nmout.render_dollar_tables(tabs, title=title, label=label, oneheader=(layout == 1))
    return tabs, text, dict(title=title, label=label, layout=layout, big=big, names=names)


def check_dollar(path, tabs, info):
    from pharmpy.model.external.nonmem.table import NONMEMTableFile

    tf = guard(NONMEMTableFile, path, notitle=not info['title'], nolabel=not info['label'], allowed=(), clause='dtable:read')
    dt = 'dtable-nolabel' if not info['label'] else 'dtable'
    exp_rows = [r for t in tabs for r in t['rows']]
    exp_numbers = [int(t['title'].split('.')[1]) for t in tabs] if info['title'] else [None]
    got_numbers = []
    got = []
    ncols = len(info['names'])
    for t in tf.tables:
        df = guard(lambda: t.data_frame, clause='dtable:data_frame')
        if not got_numbers or got_numbers[-1] != t.number:
            got_numbers.append(t.number)
        if info['label'] and list(df.columns) != info['names']:
            raise Violation('dtable:labels', observed=list(df.columns), expected=info['names'])
        if df.shape[1] != ncols:
            raise Violation(dt + ':ncols', observed=df.shape[1], expected=ncols)
        got.extend(df.values.tolist())
    if got_numbers != exp_numbers:
        raise Violation('dtable:table-numbers', observed=got_numbers, expected=exp_numbers)
    if len(got) != len(exp_rows):
        raise Violation(dt + ':nrows', observed=len(got), expected=len(exp_rows),
                        detail='rows of all tables of the file together' + ('; without label line the first record is consumed as header' if not info['label'] else ''))
    ga = np.array(got, dtype=float).reshape(len(got), ncols)
    ea = np.array([[fval(x) for x in e] for e in exp_rows], dtype=float).reshape(len(exp_rows), ncols)
    fast_equal = bool(np.all(np.abs(ga - ea) <= 1e-12 * np.maximum(np.abs(ga), np.abs(ea))))
    for ri, (g, e) in enumerate(zip(got, exp_rows)):
        if fast_equal:
            break
        for ci in range(ncols):
            if not eq(g[ci], fval(e[ci])):
                raise Violation(dt + ':value', observed=g[ci], expected=fval(e[ci]), detail=f'row {ri} column {ci}: field {e[ci]!r}')
    for t in tabs:
        if info['title']:
            n = int(t['title'].split('.')[1])
            first = guard(tf.table_no, n, clause='dtable:table_no')
            if first is None or first.number != n:
                raise Violation('dtable:table_no', observed=repr(first), expected=n)
    return len(exp_rows) * ncols


def run_tables(spec):
    cfg = Cfg(spec.get('cfg'))
    seed = spec.get('seed', 0) if isinstance(spec.get('seed', 0), int) else 0
    steps = [Step(s, k + 1) for k, s in enumerate((spec.get('steps') or [[2, 2, 0, 511, 0, 0]])[:3])]
    objname = ['OBJ', 'SAEMOBJ', 'MCMCOBJ'][_ints([spec.get('objname')], 1)[0] % 3]
    nind, pfx, gap, zmask = _ints(spec.get('phi'), 4, 1)
    nind = 1 + (nind - 1) % 6
    prefix = 'PHI' if pfx % 2 else 'ETA'
    zmask = zmask % (1 << nind)
    if zmask == (1 << nind) - 1:
        zmask = 0
    d = _scratch(spec, 't')
    evals = 0
    classes = []
    try:
        from pharmpy.model.external.nonmem.table import NONMEMTableFile

        # ---- ext -------------------------------------------------------------------------
        ext_tabs = [build_ext_step(cfg, s, Rng(seed, 10 + s.number), objname=objname) for s in steps]
        p = os.path.join(d, 'run.ext')
        _write(p, nmout.render(ext_tabs))
        tf = guard(NONMEMTableFile, p, allowed=(), clause='ext:read')
        if len(tf) != len(steps):
            raise Violation('ext:ntables', observed=len(tf), expected=len(steps))
        for s, tab, t in zip(steps, ext_tabs, tf):
            evals += check_ext_table(cfg, s, tab, t)
        for s in steps:
            t = guard(tf.table_no, s.number, clause='ext:table_no')
            if t is None or t.number != s.number:
                raise Violation('ext:table_no', observed=repr(t), expected=s.number)
        # ---- phi -------------------------------------------------------------------------
        ids = make_ids(Rng(seed, 20), nind, gap)
        phi_tabs = [build_phi_step(cfg, s, Rng(seed, 30 + s.number), ids, zmask, prefix=prefix, objname=objname) for s in steps]
        p = os.path.join(d, 'run.phi')
        _write(p, nmout.render(phi_tabs))
        tf = guard(NONMEMTableFile, p, allowed=(), clause='phi:read')
        if len(tf) != len(steps):
            raise Violation('phi:ntables', observed=len(tf), expected=len(steps))
        for s, tab, t in zip(steps, phi_tabs, tf):
            evals += check_phi_table(cfg, s, tab, t, prefix)
        # ---- cov / cor / coi ---------------------------------------------------------------
        rng = Rng(seed, 40)
        se = {l: rng.pos(-5, 1) for l in cfg.labels}
        cov, cor, coi = build_cov(cfg, rng, se)
        last = steps[-1]
        title = nmout.title_line(last.number, last.method)
        dfs = {}
        for kind, mat in (('cov', cov), ('cor', cor), ('coi', coi)):
            tab = nmout.matrix_table(title, cfg.labels, mat)
            p = os.path.join(d, 'run.' + kind)
            _write(p, nmout.render([tab]))
            tf = guard(NONMEMTableFile, p, allowed=(), clause=f'{kind}:read')
            if len(tf) != 1:
                raise Violation(f'{kind}:ntables', observed=len(tf), expected=1)
            dfs[kind] = check_matrix_table(cfg, last, tab, tf[0], kind)
            evals += len(cfg.free) ** 2
        check_math(dfs['cov'], dfs['cor'], dfs['coi'], None)
        evals += 9
        # ---- $TABLE (last: NOLABEL layouts are checked after everything else) ----------------
        tabs, text, info = build_dollar(spec.get('tab'), Rng(seed, 50))
        p = os.path.join(d, 'sdtab')
        _write(p, text)
        evals += check_dollar(p, tabs, info)
        classes.append('dtable:layout%d' % info['layout'])
        if info['big']:
            classes.append('dtable:repeated-headers-900')
        if len(tabs) > 1:
            classes.append('dtable:multi')
    finally:
        shutil.rmtree(d, ignore_errors=True)
    neg_full = any(f.startswith(' -') and len(f) == 13 for t in ext_tabs for r in t['rows'] for f in r[2:-1])
    zin = cfg.zero_row_inside()
    if zin:
        classes.append('zero-row-inside')
    if any(b['same'] for b in cfg.om['blocks'] + cfg.sg['blocks']):
        classes.append('same')
    if any(b['size'] > 1 for b in cfg.om['blocks']):
        classes.append('omega-block')
    classes.append('steps=%d' % len(steps))
    classes.append('phi:' + prefix)
    if zmask:
        classes.append('phi:zero-individual')
    if neg_full:
        classes.append('neg-full-width')
    if any(s.burn for s in steps):
        classes.append('burn-in-iterations')
    if any(not s.has(nmout.IT_FINAL) for s in steps):
        classes.append('no-final-row')
    if objname != 'OBJ':
        classes.append('objname:' + objname)
    return CaseInfo(
        nontrivial=zin or len(steps) >= 2 or neg_full, classes=tuple(classes),
        render=dict(cfg=cfg.describe(), steps=[[s.method, s.niter, bin(s.mask)] for s in steps], ext_head=nmout.render(ext_tabs).split('\n')[:4]),
        evals=evals,
    )


# ------------------------------------------------------------------------------------------
# sub-check 2: end to end

E2E_METHODS = [0, 1, 2, 2, 3, 4, 6, 7, BAYES]  # no evaluation-only methods: the last step is the last estimation

E2E_STEP = st.tuples(
    st.integers(0, len(E2E_METHODS) - 1), st.integers(0, 4), st.integers(0, 2), st.sampled_from([0, 128, 256, 384]), st.integers(0, 5), st.sampled_from([0, 0, 4])
).map(list)

ENDTOEND = st.fixed_dictionaries(
    dict(
        cfg=CFG,
        seed=st.integers(0, 2**31 - 1),
        steps=st.lists(E2E_STEP, min_size=1, max_size=2),
        # covariance scenario: 0 no $COV, 1 ok, 2 $COV requested but failed ; which of cov/cor/coi files exist (bits)
        # third: printed covariance matrix made indefinite (outside the PD domain: only type/labels/PSD are asserted)
        cov=st.tuples(st.sampled_from([0, 1, 1, 1, 1, 2]), st.sampled_from([7, 7, 7, 1, 2, 4, 3, 5, 6]), st.sampled_from([False] * 9 + [True])).map(list),
        phi=st.tuples(st.integers(1, 5), st.integers(0, 1), st.integers(1, 5), st.integers(0, 31), st.booleans()).map(list),
        lst=st.lists(st.tuples(st.integers(0, 3), st.integers(1, 9999), st.integers(10, 99), st.integers(1, 99999)).map(list), min_size=2, max_size=2),
        # $TABLE: present, layout (0 default, 1 ONEHEADER, 2 NOTITLE, 3 NOHEADER), appended columns, nrows, big, ipred
        tab=st.tuples(
            st.booleans(), st.sampled_from([0, 0, 1, 1, 1, 2, 3]), st.booleans(), st.integers(1, 12), st.sampled_from([False] * 9 + [True]), st.booleans()
        ).map(list),
    )
)


def _num(x):
    return repr(float(x))


def build_model_text(cfg: Cfg, steps, fixed_vals, mu, cov_requested, table_rec):
    lines = ['$PROBLEM c20 generated', '$DATA data.csv IGNORE=@', '$INPUT ID TIME DV', '$PRED']
    nth, neta, neps = len(cfg.thetas), cfg.om['n'], cfg.sg['n']
    if mu:
        lines.append('MU_1 = THETA(1)')
    lines.append('X = ' + ' + '.join('THETA(%d)' % (i + 1) for i in range(nth)))
    lines.append('E = ' + ('MU_1 + ' if mu else '') + ' + '.join('ETA(%d)' % (i + 1) for i in range(neta)))
    lines.append('IPRED = X + E')
    lines.append('Y = IPRED + ' + ' + '.join('EPS(%d)' % (i + 1) for i in range(neps)))
    for i, t in enumerate(cfg.thetas):
        init = fixed_vals['THETA%d' % (i + 1)] if t['fix'] else 0.1 * (i + 1)
        lines.append('$THETA %s%s%s' % (_num(init), ' FIX' if t['fix'] else '', ' ; ' + t['name'] if t['name'] else ''))
    for rec, m in (('$OMEGA', cfg.om), ('$SIGMA', cfg.sg)):
        for b in m['blocks']:
            if b['same']:
                lines.append('%s BLOCK(%d) SAME' % (rec, b['size']))
            elif b['size'] == 1:
                lines.append('%s 0.1%s%s' % (rec, ' FIX' if b['fix'] else '', ' ; ' + b['name'] if b['name'] else ''))
            else:
                lines.append('%s BLOCK(%d)%s' % (rec, b['size'], ' FIX' if b['fix'] else ''))
                for i in range(b['size']):
                    lines.append(' ' + ' '.join('0.1' if i == j else '0.01' for j in range(i + 1)))
    for s in steps:
        lines.append('$ESTIMATION METHOD=' + METHODS[s.mi][2])
    if cov_requested:
        lines.append('$COVARIANCE')
    if table_rec:
        lines.append(table_rec)
    return '\n'.join(lines) + '\n'


def build_lst(model_text, steps, lst_spec, cov_ok, cov_failed, seconds):
    """lst stub following tests/testdata/nonmem/pheno_real.lst: date line, control stream, version
    line, then per estimation step #TBLN/#METH/#TERM/#TERE/#OBJT/#OBJV tags, Stop Time."""
    start = datetime.datetime(2018, 9, 8, 10, 57, 25)
    stop = start + datetime.timedelta(seconds=seconds)

    def date(d):
        return d.strftime('%a %b ') + '%2d' % d.day + d.strftime(' %H:%M:%S CEST %Y')

    out = [date(start)] + model_text.rstrip('\n').split('\n') + [
        '', 'NM-TRAN MESSAGES', '  ', ' WARNINGS AND ERRORS (IF ANY) FOR PROBLEM    1', '             ',
        ' (WARNING  2) NM-TRAN INFERS THAT THE DATA ARE POPULATION.', '',
        '1NONLINEAR MIXED EFFECTS MODEL PROGRAM (NONMEM) VERSION 7.4.2',
        ' ORIGINALLY DEVELOPED BY STUART BEAL, LEWIS SHEINER, AND ALISON BOECKMANN', '', ' PROBLEM NO.:         1', ' c20 generated',
        '0DATA CHECKOUT RUN:              NO', ' TOT. NO. OF OBS RECS:      155', ' TOT. NO. OF INDIVIDUALS:       59', '1', '', '',
    ]
    expect = []
    for k, s in enumerate(steps):
        status, fevals, sig10, rt100 = _ints(lst_spec[k] if k < len(lst_spec) else None, 4, 1)
        status %= 4
        fevals = 1 + abs(fevals) % 9999
        sig = (10 + abs(sig10) % 90) / 10.0
        rt = (1 + abs(rt100) % 99999) / 100.0
        last = k == len(steps) - 1
        em = s.mi in EM
        ofvc = 100.0 + 7.5 * fevals
        out += [' #TBLN:      %d' % s.number, ' #METH: ' + s.method, '', ' ESTIMATION STEP OMITTED:                 NO',
                ' ANALYSIS TYPE:                           POPULATION', ' EPS-ETA INTERACTION:                     YES', '',
                ' MONITORING OF SEARCH:', '', '', '0ITERATION NO.:    0    OBJECTIVE VALUE:   587.366441346616        NO. OF FUNC. EVALS.:   6',
                ' CUMULATIVE NO. OF FUNC. EVALS.:        6', '', ' #TERM:']
        e = dict(function_evaluations=float('nan'), significant_digits=float('nan'), termination_cause=None)
        if em:
            if status in (0, 1):
                out += [' OPTIMIZATION WAS COMPLETED']
                e['minimization_successful'] = True
            else:
                out += [' OPTIMIZATION WAS NOT COMPLETED', ' NUMBER OF ITERATIONS EXHAUSTED']
                e['minimization_successful'] = False
        else:
            if status == 0:
                out += ['0MINIMIZATION SUCCESSFUL']
                e['minimization_successful'] = True
            elif status == 1:
                out += ['0MINIMIZATION SUCCESSFUL', ' HOWEVER, PROBLEMS OCCURRED WITH THE MINIMIZATION.', ' REGARD THE RESULTS OF THE ESTIMATION STEP CAREFULLY, AND ACCEPT THEM ONLY',
                        ' AFTER CHECKING THAT THE COVARIANCE STEP PRODUCES REASONABLE OUTPUT.']
                e['minimization_successful'] = True
            elif status == 2:
                out += ['0MINIMIZATION TERMINATED', ' DUE TO ROUNDING ERRORS (ERROR=134)']
                e['minimization_successful'] = False
                e['termination_cause'] = 'rounding_errors'
            else:
                out += ['0MINIMIZATION TERMINATED', ' DUE TO MAX. NO. OF FUNCTION EVALUATIONS EXCEEDED']
                e['minimization_successful'] = False
                e['termination_cause'] = 'maxevals_exceeded'
            out += [' NO. OF FUNCTION EVALUATIONS USED:%9d' % fevals, ' NO. OF SIG. DIGITS IN FINAL EST.:%5.1f' % sig]
            e['function_evaluations'] = float(fevals)
            e['significant_digits'] = sig
        out += ['', ' ETABAR IS THE ARITHMETIC MEAN OF THE ETA-ESTIMATES,', ' AND THE P-VALUE IS GIVEN FOR THE NULL HYPOTHESIS THAT THE TRUE MEAN IS 0.', '',
                ' ETABAR:         1.6884E-03', ' SE:             1.1692E-02', ' N:                      59', '', '  ',
                ' TOTAL DATA POINTS NORMALLY DISTRIBUTED (N):          155', ' N*LOG(2PI) CONSTANT TO OBJECTIVE FUNCTION:    284.87094529344853     ',
                ' OBJECTIVE FUNCTION VALUE WITHOUT CONSTANT:    586.27605628188053     ',
                ' OBJECTIVE FUNCTION VALUE WITH CONSTANT:       %s     ' % nmout.obj_text(ofvc),
                ' REPORTED OBJECTIVE FUNCTION DOES NOT CONTAIN CONSTANT', '  ', ' #TERE:', ' Elapsed estimation  time in seconds:%9.2f' % rt]
        e['ofv_with_constant'] = float(nmout.obj_text(ofvc))
        e['estimation_runtime'] = float('%.2f' % rt)
        if last and cov_failed:
            out += ['0R MATRIX ALGORITHMICALLY SINGULAR', '0COVARIANCE MATRIX UNOBTAINABLE', ' Elapsed covariance  time in seconds:     0.11']
        elif last and cov_ok:
            out += [' Elapsed covariance  time in seconds:     0.28']
        out += [' Elapsed postprocess time in seconds:     0.09', '1', ' ', ' ',
                ' ' + '*' * 120, ' #OBJT:**************                       MINIMUM VALUE OF OBJECTIVE FUNCTION                      ********************',
                ' ' + '*' * 120, ' ', ' #OBJV:********************************************      586.276       **************************************************', '1', '']
        expect.append(e)
    out += [' Elapsed finaloutput time in seconds:     0.02', ' #CPUT: Total CPU Time in Seconds,        0.720', 'Stop Time:', date(stop)]
    return '\n'.join(out) + '\n', expect


def _series_check(what, got, exp_names, exp_vals, rtol=1e-12):
    import pandas as pd

    if not isinstance(got, pd.Series):
        raise Violation(f'e2e:{what}:type', observed=type(got).__name__, expected='Series')
    if list(got.index) != exp_names:
        raise Violation(f'e2e:{what}:names', observed=list(got.index), expected=exp_names, detail='non-fixed parameters in the order THETA, OMEGA, SIGMA under the model names')
    for n, e in zip(exp_names, exp_vals):
        if not eq(got[n], e, rtol):
            raise Violation(f'e2e:{what}:value', observed=float(got[n]), expected=e, detail=n)


def _matrix_check(what, got, names):
    import pandas as pd

    if not isinstance(got, pd.DataFrame):
        raise Violation(f'e2e:{what}:type', observed=type(got).__name__, expected='DataFrame')
    if list(got.index) != names or list(got.columns) != names:
        raise Violation(f'e2e:{what}:names', observed=[list(got.index), list(got.columns)], expected=names, detail='fixed parameters absent; model names')
    return got.values.astype(float)


def run_endtoend(spec):
    import pandas as pd

    cfg = Cfg(spec.get('cfg'))
    seed = spec.get('seed', 0) if isinstance(spec.get('seed', 0), int) else 0
    raw_steps = (spec.get('steps') or [[2, 2, 0, 0, 0, 0]])[:2]
    steps = []
    for k, r in enumerate(raw_steps):
        r = _ints(r, 6)
        r[0] = E2E_METHODS[r[0] % len(E2E_METHODS)]
        r[3] = (r[3] & (128 | 256)) | 1 | 16 | 64  # final, sd/corr and fixed rows always; -7/-8 optional
        # no (Evaluation); the final row differs from the last iteration exactly for BAYES (mean of the samples)
        r[5] = (r[5] & 4) | (2 if r[0] == BAYES else 0)
        steps.append(Step(r, k + 1))
    scen, fmask, indef = _ints(spec.get('cov'), 3, 1)
    if not (isinstance(spec.get('cov'), list) and len(spec['cov']) > 2):
        indef = 0
    scen %= 3
    fmask = fmask % 8 or 7
    indef = bool(indef) and scen == 1
    if indef:
        fmask = 7
    nind, pfx, gap, zmask, mu = _ints(spec.get('phi'), 5, 1)
    nind = 1 + (nind - 1) % 5
    prefix = 'PHI' if pfx % 2 else 'ETA'
    zmask %= 1 << nind
    if zmask == (1 << nind) - 1:
        zmask = 0
    tpresent, layout, append, nrows, big, ipred = (_ints(spec.get('tab'), 6, 0))
    layout %= 4
    last = steps[-1]
    mu = bool(mu) and prefix == 'PHI' and not last.final_differs
    if scen == 1:
        last.mask |= 2 | 4 | 8 | 32
    rng = Rng(seed, 40)
    se = {l: rng.pos(-5, 1) for l in cfg.labels}
    ext_tabs = [build_ext_step(cfg, s, Rng(seed, 10 + s.number), se=se) for s in steps]
    # the printed standard errors are what the matrices must be consistent with
    if scen == 1:
        r = row_of(ext_tabs[-1], nmout.IT_SE)
        se_printed = {l: fval(r[1 + k]) for k, l in enumerate(cfg.labels)}
    ids = make_ids(Rng(seed, 20), nind, gap)
    phi_tabs = [build_phi_step(cfg, s, Rng(seed, 30 + s.number), ids, zmask, prefix=prefix) for s in steps]
    fixed_vals = {l: fval(ext_tabs[-1]['rows'][0][1 + k]) for k, l in enumerate(cfg.labels)}
    # $TABLE
    table_rec = None
    dtab = None
    if tpresent:
        nr = 1 + (nrows - 1) % 12
        if big:
            nr = 901 + nr * 7
        cols = ['ID', 'TIME'] + (['CWRES'] + (['IPRED'] if ipred else []) if append else ['DV', 'PRED', 'RES', 'CWRES'] + (['IPRED'] if ipred else []))
        filecols = cols + (['DV', 'PRED', 'RES', 'WRES'] if append else [])
        opts = {0: '', 1: ' ONEHEADER', 2: ' NOTITLE', 3: ' NOHEADER'}[layout]
        table_rec = '$TABLE ' + ' '.join(cols) + ('' if append else ' NOAPPEND') + ' NOPRINT' + opts + ' FILE=run.tab'
        trng = Rng(seed, 50)
        rows = []
        for q in range(nr):
            row = []
            for c in filecols:
                if c == 'ID':
                    row.append(float(1 + q // 3))
                elif c == 'TIME':
                    row.append(0.5 * (q % 3))
                elif c in ('RES', 'WRES', 'CWRES') and q % 3 == 0:
                    row.append(0.0)  # dose record: all residuals zero
                else:
                    row.append(trng.val(-3, 3, pneg=0.5))
            rows.append(row)
        dtab = nmout.dollar_table(1, filecols, rows)
    model_text = build_model_text(cfg, steps, fixed_vals, mu, scen != 0, table_rec)
    seconds = 4 + seed % 1000
    lst_text, lst_exp = build_lst(model_text, steps, spec.get('lst') if isinstance(spec.get('lst'), list) else [], scen == 1, scen == 2, seconds)

    d = _scratch(spec, 'e')
    evals = 0
    classes = ['cov-scenario-%d' % scen, 'steps=%d' % len(steps), 'phi:' + prefix + ('+mu' if mu else '')]
    try:
        mp = os.path.join(d, 'run.mod')
        _write(mp, model_text)
        _write(os.path.join(d, 'run.ext'), nmout.render(ext_tabs))
        _write(os.path.join(d, 'run.phi'), nmout.render(phi_tabs))
        _write(os.path.join(d, 'run.lst'), lst_text)
        if scen == 1:
            cov, cor, coi = build_cov(cfg, rng, se_printed)
            if indef:
                fi = [k for k, l in enumerate(cfg.labels) if not cfg.fixflag[l]][:2]
                cov[fi[0]][fi[1]] = cov[fi[1]][fi[0]] = 1.5 * math.sqrt(cov[fi[0]][fi[0]] * cov[fi[1]][fi[1]])
                classes.append('indefinite-printed-cov')
            title = nmout.title_line(last.number, last.method)
            mats = {}
            for bit, kind, mat in ((1, 'cov', cov), (2, 'cor', cor), (4, 'coi', coi)):
                tab = nmout.matrix_table(title, cfg.labels, mat)
                mats[kind] = tab
                if fmask & bit:
                    _write(os.path.join(d, 'run.' + kind), nmout.render([tab]))
            classes.append('matrix-files-%d' % fmask)
        if dtab is not None:
            _write(os.path.join(d, 'run.tab'), nmout.render_dollar_tables([dtab], title=layout in (0, 1), label=layout in (0, 1, 2), oneheader=layout == 1))
            classes.append('table-layout-%d' % layout + (':big' if big else ''))

        from pharmpy.tools import read_modelfit_results

        res = guard(read_modelfit_results, mp, allowed=(), clause='e2e:read_modelfit_results')
        if res is None:
            raise Violation('e2e:no-results')

        # ---- reference naming must agree with the model (harness self check) ------------------
        from pharmpy.modeling import read_model

        model = read_model(mp)
        exp_model_names = [cfg.name[l] for l in cfg.ordered if not (cfg.fixflag[l] and not _declared(cfg, l))]
        if list(model.parameters.names) != exp_model_names:
            raise HarnessError(f'reference parameter naming differs from the model: {model.parameters.names} vs {exp_model_names}\n{model_text}')
        eta_names = ['ETA_%d' % (i + 1) for i in range(cfg.om['n'])]
        if list(model.random_variables.etas.names) != eta_names:
            raise HarnessError(f'eta names {model.random_variables.etas.names}')

        free = cfg.free
        names = [cfg.name[l] for l in free]
        pos = {l: k for k, l in enumerate(cfg.labels)}
        lt = ext_tabs[-1]

        def rowvals(code, labels=free, tab=lt):
            r = row_of(tab, code)
            return [fval(r[1 + pos[l]]) for l in labels]

        # ---- estimates, ofv ---------------------------------------------------------------------
        # (a failure here for a last step whose final row differs from its last iteration is reported
        # at the end under its own clause so that the remaining clauses are still evaluated)
        deferred = None
        fin = rowvals(nmout.IT_FINAL)
        try:
            _series_check('parameter_estimates', res.parameter_estimates, names, fin)
            final_obj = fval(row_of(lt, nmout.IT_FINAL)[-1])
            if not isinstance(res.ofv, float) or not eq(res.ofv, final_obj):
                raise Violation('e2e:ofv', observed=res.ofv, expected=final_obj, detail='OBJ of row -1000000000 of the last table')
            sd = rowvals(nmout.IT_SDCORR)
            exp_sdcorr = [f if l.startswith('THETA') else s_ for l, f, s_ in zip(free, fin, sd)]
            _series_check('parameter_estimates_sdcorr', res.parameter_estimates_sdcorr, names, exp_sdcorr)
        except Violation as v:
            if not last.final_differs:
                raise
            deferred = Violation('e2e-final-row-differs' + v.clause[3:], observed=v.observed, expected=v.expected,
                                 detail=str(v.detail) + ' (row -1000000000 is present; its OBJ differs from the last printed iteration, as for METHOD=BAYES)')
        evals += 3 * len(free)
        # ---- iterations -------------------------------------------------------------------------
        oi = res.ofv_iterations
        pit = res.parameter_estimates_iterations
        for k, (s, tab) in enumerate(zip(steps, ext_tabs)):
            for r in tab['rows']:
                it = int(r[0])
                if it < 0:
                    continue
                try:
                    g = oi.loc[(k + 1, it)]
                except KeyError:
                    raise Violation('e2e:ofv_iterations:missing', expected=[k + 1, it], observed=list(oi.index)[:20])
                if not eq(g, fval(r[-1])):
                    raise Violation('e2e:ofv_iterations:value', observed=float(g), expected=fval(r[-1]), detail=f'step {k + 1} iteration {it}')
                try:
                    prow = pit.loc[(k + 1, it)]
                except KeyError:
                    raise Violation('e2e:parameter_estimates_iterations:missing', expected=[k + 1, it], observed=list(pit.index)[:20])
                for l in free:
                    if not eq(prow[cfg.name[l]], fval(r[1 + pos[l]])):
                        raise Violation('e2e:parameter_estimates_iterations:value', observed=float(prow[cfg.name[l]]), expected=fval(r[1 + pos[l]]), detail=f'step {k + 1} iteration {it} {l}')
                evals += 1
        if not any(s.final_differs for s in steps):
            exp_idx = [(k + 1, int(r[0])) for k, tab in enumerate(ext_tabs) for r in tab['rows'] if int(r[0]) >= 0]
            if [tuple(int(x) for x in t) for t in oi.index] != exp_idx:
                raise Violation('e2e:ofv_iterations:index', observed=[list(t) for t in oi.index][:30], expected=[list(t) for t in exp_idx][:30])
            if list(pit.columns) != names:
                raise Violation('e2e:parameter_estimates_iterations:names', observed=list(pit.columns), expected=names)
        # ---- standard errors and matrices ---------------------------------------------------------
        if scen == 1:
            _series_check('standard_errors', res.standard_errors, names, rowvals(nmout.IT_SE))
            ses = rowvals(nmout.IT_SE)
            sesd = rowvals(nmout.IT_SE_SDCORR)
            _series_check('standard_errors_sdcorr', res.standard_errors_sdcorr, names, [a if l.startswith('THETA') else b for l, a, b in zip(free, ses, sesd)])
            if deferred is None and all(b != 0 for b in fin):
                _series_check('relative_standard_errors', res.relative_standard_errors, names, [a / b for a, b in zip(ses, fin)], rtol=1e-9)
            if res.covstep_successful is not True:
                raise Violation('e2e:covstep_successful', observed=res.covstep_successful, expected=True)
            got = {}
            for what, kind in (('covariance_matrix', 'cov'), ('correlation_matrix', 'cor'), ('precision_matrix', 'coi')):
                got[kind] = _matrix_check(what, getattr(res, what), names)
            # matrices whose file exists: the printed numbers
            for bit, kind in ((1, 'cov'), (2, 'cor'), (4, 'coi')):
                if not fmask & bit or (indef and kind == 'cov'):
                    continue
                tab = mats[kind]
                for a_, a in enumerate(free):
                    for b_, b in enumerate(free):
                        e = fval(tab['rows'][pos[a]][1 + pos[b]])
                        if kind == 'cor' and a == b:
                            e = 1.0
                        if not eq(got[kind][a_, b_], e, 1e-9):
                            raise Violation(f'e2e:{kind}:value', observed=float(got[kind][a_, b_]), expected=e, detail=f'[{cfg.name[a]},{cfg.name[b]}]')
                evals += len(free) ** 2
            # together: defining relations at printed precision
            if not indef:
                check_relations(got['cov'], got['cor'], got['coi'], res.standard_errors.values.astype(float), 'results')
            else:
                c = got['cov']
                ev = np.linalg.eigvalsh((c + c.T) / 2)
                if not np.allclose(c, c.T, rtol=1e-9, atol=0) or ev.min() < -1e-8 * ev.max():
                    raise Violation('e2e:cov:adjusted-not-psd', observed=ev.tolist(), detail='covariance_matrix after nearest_positive_semidefinite')
            evals += 3
        else:
            for what in ('covariance_matrix', 'correlation_matrix', 'precision_matrix'):
                if getattr(res, what) is not None:
                    raise Violation(f'e2e:{what}:without-covariance-step', observed=repr(getattr(res, what))[:200], expected=None)
            sev = res.standard_errors
            if sev is not None and not (list(sev.index) == names and all(x != x for x in sev.values)):
                raise Violation('e2e:standard_errors:without-covariance-step', observed=repr(sev)[:300], expected='NaN for ' + str(names))
            exp_cs = None if scen == 0 else False
            if res.covstep_successful is not exp_cs:
                raise Violation('e2e:covstep_successful', observed=res.covstep_successful, expected=exp_cs)
        # ---- status numbers from the lst ------------------------------------------------------------
        le = lst_exp[-1]
        for k, e in enumerate(lst_exp):
            for what in ('minimization_successful', 'function_evaluations', 'significant_digits', 'termination_cause', 'estimation_runtime'):
                ser = getattr(res, what + '_iterations')
                g = ser.iloc[k]
                if not _same_scalar(g, e[what], none_is_nan=True):
                    raise Violation(f'e2e:{what}_iterations', observed=repr(g), expected=repr(e[what]), detail=f'step {k + 1}')
            evals += 5
        for what in ('minimization_successful', 'function_evaluations', 'significant_digits', 'termination_cause', 'estimation_runtime'):
            if not _same_scalar(getattr(res, what), le[what]):
                raise Violation(f'e2e:{what}', observed=repr(getattr(res, what)), expected=repr(le[what]))
        if not _same_scalar(res.log_likelihood, le['ofv_with_constant']):
            raise Violation('e2e:log_likelihood', observed=res.log_likelihood, expected=le['ofv_with_constant'])
        if not _same_scalar(res.runtime_total, float(seconds)):
            raise Violation('e2e:runtime_total', observed=res.runtime_total, expected=float(seconds))
        # ---- individual estimates ----------------------------------------------------------------------
        pt = phi_tabs[-1]
        neta = cfg.om['n']
        keep = [r for r in pt['rows'] if any(fval(x) != 0 for x in r[2:])]
        kid = [int(r[1]) for r in keep]
        ie, iofv, iec = res.individual_estimates, res.individual_ofv, res.individual_estimates_covariance
        if ie is None or iofv is None or iec is None:
            raise Violation('e2e:individual:missing', observed=[type(ie).__name__, type(iofv).__name__, type(iec).__name__])
        if [int(x) for x in iofv.index] != kid or [int(x) for x in ie.index] != kid or [int(x) for x in iec.index] != kid:
            raise Violation('e2e:individual:ids', observed=[list(iofv.index), list(ie.index), list(iec.index)], expected=kid)
        if list(ie.columns) != eta_names:
            raise Violation('e2e:individual_estimates:names', observed=list(ie.columns), expected=eta_names)
        muval = 0.0
        if mu:
            # MU_1 = THETA(1): final estimate, or the fixed value
            muval = fval(row_of(lt, nmout.IT_FINAL)[1 + pos['THETA1']])
        for q, r in enumerate(keep):
            if not eq(iofv.iloc[q], fval(r[-1])):
                raise Violation('e2e:individual_ofv:value', observed=float(iofv.iloc[q]), expected=fval(r[-1]), detail=f'ID {kid[q]}')
            for i in range(neta):
                e = fval(r[2 + i]) - (muval if i == 0 else 0.0)
                g = ie.iloc[q, i]
                ok = eq(g, e) if not (mu and i == 0) else abs(g - e) <= 1e-12 * max(abs(muval), abs(fval(r[2 + i])), 1e-300)
                if not ok:
                    raise Violation('e2e:individual_estimates:value' + (':mu' if mu and i == 0 else ''), observed=float(g), expected=e, detail=f'ID {kid[q]} {eta_names[i]}')
            mtx = iec.iloc[q]
            if list(mtx.index) != eta_names or list(mtx.columns) != eta_names:
                raise Violation('e2e:individual_estimates_covariance:names', observed=list(mtx.index), expected=eta_names)
            for w, (i, j) in enumerate(nmout.tri(neta)):
                e = fval(r[2 + neta + w])
                if not eq(mtx.iloc[i - 1, j - 1], e) or not eq(mtx.iloc[j - 1, i - 1], e):
                    raise Violation('e2e:individual_estimates_covariance:value', observed=float(mtx.iloc[i - 1, j - 1]), expected=e, detail=f'ID {kid[q]} ({i},{j})')
            evals += 1
        # ---- $TABLE (last: layouts with known problems do not mask the rest) ----------------------------
        if dtab is not None:
            et = 'e2e-noheader' if layout == 3 else ('e2e-title-every-900' if layout == 0 and big else 'e2e')
            colpos = {c: k for k, c in enumerate(dtab['names'])}
            pred_cols = [c for c in ('PRED', 'CIPREDI', 'CPRED', 'IPRED') if c in colpos]
            res_cols = [c for c in ('RES', 'WRES', 'CWRES') if c in colpos]
            pr = res.predictions
            if pr is None or list(pr.columns) != pred_cols:
                raise Violation('e2e:predictions:columns', observed=None if pr is None else list(pr.columns), expected=pred_cols)
            if len(pr) != len(dtab['rows']):
                raise Violation(et + ':predictions:nrows', observed=len(pr), expected=len(dtab['rows']), detail='one row per record of the table file')
            pa = pr[pred_cols].values.astype(float)
            ea = np.array([[fval(r[colpos[c]]) for c in pred_cols] for r in dtab['rows']], dtype=float)
            fast_equal = bool(np.all(np.abs(pa - ea) <= 1e-12 * np.maximum(np.abs(pa), np.abs(ea))))
            for q, r in enumerate(dtab['rows']):
                if fast_equal:
                    break
                for c in pred_cols:
                    if not eq(pr[c].iloc[q], fval(r[colpos[c]])):
                        raise Violation(et + ':predictions:value', observed=float(pr[c].iloc[q]), expected=fval(r[colpos[c]]), detail=f'record {q} {c}')
            rs = res.residuals
            rcols = [c for c in ('RES', 'WRES', 'CWRES') if c in colpos]
            if rs is None or list(rs.columns) != rcols:
                raise Violation('e2e:residuals:columns', observed=None if rs is None else list(rs.columns), expected=rcols)
            exp_rows = [r for r in dtab['rows'] if any(fval(r[colpos[c]]) != 0 for c in res_cols)]
            if len(rs) != len(exp_rows):
                raise Violation(et + ':residuals:nrows', observed=len(rs), expected=len(exp_rows), detail='records with a non-zero residual')
            ra = rs[rcols].values.astype(float)
            ea = np.array([[fval(r[colpos[c]]) for c in rcols] for r in exp_rows], dtype=float).reshape(len(exp_rows), len(rcols))
            fast_equal = bool(np.all(np.abs(ra - ea) <= 1e-12 * np.maximum(np.abs(ra), np.abs(ea))))
            for q, r in enumerate(exp_rows):
                if fast_equal:
                    break
                for c in rcols:
                    if not eq(rs[c].iloc[q], fval(r[colpos[c]])):
                        raise Violation(et + ':residuals:value', observed=float(rs[c].iloc[q]), expected=fval(r[colpos[c]]), detail=f'row {q} {c}')
            evals += len(dtab['rows'])
        if deferred is not None:
            raise deferred
    finally:
        shutil.rmtree(d, ignore_errors=True)
    zin = cfg.zero_row_inside()
    if zin:
        classes.append('zero-row-inside')
    if any(b['same'] for b in cfg.om['blocks'] + cfg.sg['blocks']):
        classes.append('same')
    if any(t['name'] for t in cfg.thetas):
        classes.append('named-thetas')
    if zmask:
        classes.append('phi:zero-individual')
    neg_full = any(f.startswith(' -') and len(f) == 13 for t in ext_tabs for r in t['rows'] for f in r[2:-1])
    return CaseInfo(
        nontrivial=zin or len(steps) >= 2 or neg_full, classes=tuple(classes),
        render=dict(cfg=cfg.describe(), model=model_text.split('\n')[3:], cov_scenario=scen, files=fmask), evals=evals,
    )


def _declared(cfg: Cfg, label):
    """Is the ext label a parameter the control stream declares?  (unused off-diagonals and
    SAME copies are columns of the ext file but not model parameters)"""
    if label.startswith('THETA'):
        return True
    m = cfg.om if label.startswith('OMEGA') else cfg.sg
    i, j = (int(x) for x in label[6:-1].split(','))
    if (i, j) not in m['used']:
        return False
    for b in m['blocks']:
        if b['start'] < i <= b['start'] + b['size']:
            return not b['same']
    return False


def _same_scalar(a, b, none_is_nan=False):
    if b is None:
        return a is None or (none_is_nan and isinstance(a, float) and a != a)
    if isinstance(b, bool):
        return isinstance(a, (bool, np.bool_)) and bool(a) == b
    if isinstance(b, str):
        return a == b
    if a is None:
        return False
    try:
        return eq(float(a), float(b), 1e-12)
    except (TypeError, ValueError):
        return False


# ------------------------------------------------------------------------------------------
# sub-check 3: JSON round trip

JSONSPEC = st.fixed_dictionaries(
    dict(
        cfg=CFG,
        seed=st.integers(0, 2**31 - 1),
        small=st.sampled_from([False, False, False, True]),  # some |values| < 1e-9
        nsteps=st.integers(1, 2),
        niter=st.integers(0, 3),
        nind=st.integers(0, 4),
        present=st.integers(0, 255),
        status=st.integers(0, 3),
        default_grad=st.sampled_from([False] * 9 + [True]),  # leave gradients_iterations at the dataclass default
    )
)


def build_results(spec):
    import pandas as pd

    from pharmpy.workflows import Log
    from pharmpy.workflows.log import LogEntry
    from pharmpy.workflows.results import ModelfitResults

    cfg = Cfg(spec.get('cfg'))
    seed, nsteps, niter, nind, present, status = _ints([spec.get(k) for k in ('seed', 'nsteps', 'niter', 'nind', 'present', 'status')], 6)
    small = bool(spec.get('small'))
    nsteps = 1 + (nsteps - 1) % 2
    niter %= 4
    nind %= 5
    status %= 4
    rng = Rng(seed, 70)
    names = [cfg.name[l] for l in cfg.free]
    m = len(names)
    etas = ['ETA_%d' % (i + 1) for i in range(cfg.om['n'])]

    def val():
        if small and rng.u() < 0.3:
            return rng.val(-14, -10)
        return rng.val(-6, 6, pzero=0.03)

    def pos():
        if small and rng.u() < 0.3:
            return rng.val(-14, -10, pneg=0.0)
        return rng.pos(-5, 2)

    kw = {}
    pe = [val() for _ in names]
    se = [pos() for _ in names]
    kw['ofv'] = rng.obj(seed)
    kw['parameter_estimates'] = pd.Series(pe, index=names, name='estimates')
    kw['parameter_estimates_sdcorr'] = pd.Series([val() for _ in names], index=names, name='estimates')
    has_cov = bool(present & 1)
    kw['standard_errors'] = pd.Series(se if has_cov else [float('nan')] * m, index=names, name='SE')
    kw['standard_errors_sdcorr'] = pd.Series([pos() for _ in names] if has_cov else [float('nan')] * m, index=names, name='SE_sdcorr')
    kw['relative_standard_errors'] = pd.Series([pos() for _ in names] if has_cov else [float('nan')] * m, index=names, name='RSE')
    if has_cov:
        a = np.array([[rng.u() - 0.5 for _ in range(m)] for _ in range(m)])
        c = a @ a.T + 0.5 * np.eye(m)
        dg = np.sqrt(np.diag(c))
        c = c / np.outer(dg, dg)
        cov = c * np.outer(se, se)

        def clean(mat):
            # without the `small` flag no non-zero magnitude below 1e-8 (15 decimals keep >= 7 digits)
            mat = np.array(mat, dtype=float)
            if not small:
                mat[np.abs(mat) < 1e-8] = 0.0
            return mat

        kw['covariance_matrix'] = pd.DataFrame(clean(cov), index=names, columns=names)
        kw['correlation_matrix'] = pd.DataFrame(clean(c), index=names, columns=names)
        kw['precision_matrix'] = pd.DataFrame(clean(np.linalg.inv(cov)), index=names, columns=names)
    steps, its, ofvs, rows = [], [], [], []
    for s_ in range(1, nsteps + 1):
        for it in range(niter + 1):
            steps.append(s_)
            its.append(it * 5)
            ofvs.append(rng.obj(seed + it) if not (present & 2 and it == niter and s_ == nsteps) else float('nan'))
            rows.append([val() for _ in names])
    idx = [pd.Series(steps, dtype='int32', name='steps'), pd.Series(its, dtype='int32', name='iteration')]
    kw['ofv_iterations'] = pd.Series(ofvs, name='OFV', dtype='float64', index=idx)
    pit = pd.DataFrame(rows, columns=names)
    pit['step'] = steps
    pit['iteration'] = its
    kw['parameter_estimates_iterations'] = pit.set_index(['step', 'iteration'])
    est = list(range(1, nsteps + 1))
    ms = [status in (0, 1)] * nsteps
    tc = [None if status in (0, 1) else ('rounding_errors' if status == 2 else 'maxevals_exceeded')] * nsteps
    if nsteps == 2:
        ms[0] = True
        tc[0] = None
    kw['minimization_successful'] = ms[-1]
    kw['minimization_successful_iterations'] = pd.Series(ms, index=est, name='minimization_successful')
    kw['termination_cause'] = tc[-1]
    kw['termination_cause_iterations'] = pd.Series(tc, index=est, name='termination_cause')
    fe = [float(1 + rng.i(5000)) for _ in est]
    kw['function_evaluations'] = fe[-1]
    kw['function_evaluations_iterations'] = pd.Series(fe, index=est, name='function_evaluations')
    sd = [(10 + rng.i(80)) / 10.0 if status != 3 else float('nan') for _ in est]
    kw['significant_digits'] = sd[-1]
    kw['significant_digits_iterations'] = pd.Series(sd, index=est, name='significant_digits')
    rt = [rng.i(100000) / 100.0 for _ in est]
    kw['estimation_runtime'] = rt[-1]
    kw['estimation_runtime_iterations'] = pd.Series(rt, index=est, name='estimation_runtime')
    kw['runtime_total'] = float(rng.i(100000))
    kw['log_likelihood'] = rng.obj(seed + 3)
    kw['evaluation'] = pd.Series([False] * nsteps, index=est, name='evaluation', dtype='float64')
    kw['covstep_successful'] = [None, True, False][(present >> 1) % 3] if not has_cov else True
    kw['warnings'] = ['estimate_near_boundary'] if present & 4 else []
    if nind and present & 8:
        ids = pd.Series(make_ids(rng, nind, 3), name='ID')
        kw['individual_ofv'] = pd.Series([rng.obj(seed + k) for k in range(nind)], index=pd.Index(ids, name='ID'), name='iOFV')
        kw['individual_estimates'] = pd.DataFrame([[val() for _ in etas] for _ in range(nind)], index=pd.Index(ids, name='ID'), columns=etas)
        frames = []
        for _ in range(nind):
            d = [pos() for _ in etas]
            mat = np.diag(d)
            for i in range(len(etas)):
                for j in range(i):
                    x = (rng.u() * 0.6 - 0.3) * math.sqrt(d[i] * d[j])
                    mat[i, j] = mat[j, i] = x if (small or abs(x) >= 1e-8) else 0.0
            frames.append(pd.DataFrame(mat, index=etas, columns=etas))
        kw['individual_estimates_covariance'] = pd.Series(frames, index=ids, dtype='object')
    if present & 16:
        n = 2 + rng.i(6)
        df = pd.DataFrame({'PRED': [val() for _ in range(n)], 'IPRED': [val() for _ in range(n)]})
        kw['predictions'] = df
        r = pd.DataFrame({'RES': [val() if k % 3 else 0.0 for k in range(n)], 'CWRES': [val() if k % 3 else 0.0 for k in range(n)]})
        kw['residuals'] = r.loc[(r != 0).any(axis=1)]
    if present & 32:
        t0 = datetime.datetime(2024, 2, 29, 13, 7, 5, 123456)
        kw['log'] = Log((LogEntry('WARNING', 'PARAMETER ESTIMATE IS NEAR ITS BOUNDARY', t0), LogEntry('ERROR', 'MINIMIZATION TERMINATED\nDUE TO ROUNDING ERRORS', t0 + datetime.timedelta(seconds=seed % 1000))))
    else:
        kw['log'] = Log()
    if present & 64:
        g = pd.DataFrame([[float(it)] + [val() for _ in names] for it in range(niter + 1)], columns=['ITERATION'] + names)
        kw['gradients_iterations'] = g
        kw['gradients'] = g.tail(1).drop(columns=['ITERATION']).squeeze(axis=0).rename('gradients')
    elif not spec.get('default_grad'):
        kw['gradients_iterations'] = None
    return ModelfitResults(**kw), kw


def _num_close(a, b):
    """-> (acceptable, material): acceptable under the encoder's documented 15 decimals;
    material = changed by more than NONMEM's printed precision"""
    if a != a or b != b:
        ok = a != a and b != b
        return ok, not ok
    d = abs(a - b)
    ok = d <= 1e-15 + 1e-14 * max(abs(a), abs(b))
    material = d > 5e-6 * max(abs(a), abs(b))
    return ok, material


class _Cmp:
    def __init__(self):
        self.material = None  # first value changed beyond printed precision (path, before, after)
        self.n = 0

    def missing(self, x):
        return x is None or (isinstance(x, float) and x != x)

    def scalar(self, a, b, path):
        self.n += 1
        if isinstance(a, (bool, np.bool_)) or isinstance(b, (bool, np.bool_)):
            if not (isinstance(a, (bool, np.bool_, int, float, np.integer, np.floating)) and isinstance(b, (bool, np.bool_, int, float, np.integer, np.floating)) and bool(a) == bool(b) and float(a) == float(b)):
                raise Violation('json:value', observed=repr(b), expected=repr(a), detail=path)
            return
        if isinstance(a, (int, float, np.integer, np.floating)) and not isinstance(a, bool):
            if self.missing(b) and a != a:
                return
            if not isinstance(b, (int, float, np.integer, np.floating)):
                raise Violation('json:value', observed=repr(b), expected=repr(a), detail=path)
            ok, material = _num_close(float(a), float(b))
            if material and self.material is None:
                self.material = (path, float(a), float(b))
            elif not ok and not material:
                raise Violation('json:value', observed=repr(b), expected=repr(a), detail=path + ' (beyond abs 1e-15 + rel 1e-14)')
            return
        if self.missing(a):
            if not self.missing(b):
                raise Violation('json:value', observed=repr(b), expected=repr(a), detail=path)
            return
        if a != b:
            raise Violation('json:value', observed=repr(b), expected=repr(a), detail=path)

    def index(self, a, b, path):
        if list(a.names) != list(b.names):
            raise Violation('json:index-names', observed=list(b.names), expected=list(a.names), detail=path)
        la, lb = a.tolist(), b.tolist()
        if len(la) != len(lb) or any(x != y for x, y in zip(la, lb)):
            raise Violation('json:index', observed=lb[:20], expected=la[:20], detail=path)

    def value(self, a, b, path):
        import pandas as pd

        from pharmpy.workflows import Log

        if isinstance(a, pd.DataFrame):
            if not isinstance(b, pd.DataFrame):
                raise Violation('json:type', observed=type(b).__name__, expected='DataFrame', detail=path)
            if list(a.columns) != list(b.columns):
                raise Violation('json:columns', observed=list(b.columns), expected=list(a.columns), detail=path)
            self.index(a.index, b.index, path)
            for c in range(a.shape[1]):
                for r in range(a.shape[0]):
                    self.scalar(a.iloc[r, c], b.iloc[r, c], f'{path}[{a.index[r]!r},{a.columns[c]!r}]')
        elif isinstance(a, pd.Series):
            if not isinstance(b, pd.Series):
                raise Violation('json:type', observed=type(b).__name__, expected='Series', detail=path)
            if a.name != b.name:
                raise Violation('json:series-name', observed=b.name, expected=a.name, detail=path)
            self.index(a.index, b.index, path)
            for r in range(len(a)):
                x, y = a.iloc[r], b.iloc[r]
                if isinstance(x, pd.DataFrame):
                    self.value(x, y, f'{path}[{a.index[r]!r}]')
                else:
                    self.scalar(x, y, f'{path}[{a.index[r]!r}]')
        elif isinstance(a, Log):
            if not isinstance(b, Log):
                raise Violation('json:type', observed=type(b).__name__, expected='Log', detail=path)
            if a.to_dict() != b.to_dict():
                raise Violation('json:log', observed=b.to_dict(), expected=a.to_dict(), detail=path)
        elif isinstance(a, (list, tuple)):
            if type(a) is not type(b) or len(a) != len(b):
                raise Violation('json:type' if type(a) is not type(b) else 'json:value', observed=repr(b), expected=repr(a), detail=path)
            for k, (x, y) in enumerate(zip(a, b)):
                self.scalar(x, y, f'{path}[{k}]')
        else:
            if a is not None and b is not None and not isinstance(a, (bool, np.bool_)) and type(a) in (int, float, str) and type(b) in (int, float, str) and isinstance(a, str) != isinstance(b, str):
                raise Violation('json:type', observed=type(b).__name__, expected=type(a).__name__, detail=path)
            self.scalar(a, b, path)


def run_json(spec):
    import dataclasses

    from pharmpy.workflows.results import ModelfitResults, read_results  # accepts JSON text (pharmpy.tools.read_results: paths only)

    res, kw = build_results(spec)
    txt = guard(res.to_json, allowed=(), clause='json:to_json')
    if not isinstance(txt, str):
        raise Violation('json:to_json:type', observed=type(txt).__name__)
    back = guard(read_results, txt, allowed=(), clause='json:read_results')
    if type(back) is not ModelfitResults:
        raise Violation('json:class', observed=type(back).__name__, expected='ModelfitResults')
    cmp = _Cmp()
    default_grad = None
    for f in dataclasses.fields(ModelfitResults):
        a, b = getattr(res, f.name), getattr(back, f.name)
        if f.name == 'gradients_iterations' and 'gradients_iterations' not in kw:
            default_grad = (a, b)
            continue
        cmp.value(a, b, f.name)
    # a second serialisation of what was read must reproduce the text (fixed point)
    txt2 = guard(back.to_json, allowed=(), clause='json:to_json-again')
    if cmp.material is None and default_grad is None and txt2 != txt:
        raise Violation('json:not-a-fixed-point', observed=txt2[:300], expected=txt[:300])
    if default_grad is not None and (type(default_grad[0]) is not type(default_grad[1]) or default_grad[0] != default_grad[1]):
        raise Violation('json:default-gradients_iterations', observed=repr(default_grad[1]), expected=repr(default_grad[0]),
                        detail='field left at its dataclass default')
    if cmp.material is not None:
        path, a, b = cmp.material
        raise Violation('json:value-changed-beyond-printed-precision', observed=b, expected=a, detail=f'{path}: relative change {abs(a - b) / max(abs(a), abs(b)):.3g} > 5e-6')
    classes = ['small' if spec.get('small') else 'normal']
    for k in ('covariance_matrix', 'individual_estimates_covariance', 'predictions', 'gradients_iterations'):
        if kw.get(k) is not None:
            classes.append(k)
    if len(kw['log']) > 0:
        classes.append('log')
    nt = kw.get('covariance_matrix') is not None or kw.get('individual_estimates_covariance') is not None
    return CaseInfo(nontrivial=nt, classes=tuple(classes), render=dict(fields=sorted(k for k, v in kw.items() if v is not None), names=list(kw['parameter_estimates'].index)), evals=cmp.n)


# ------------------------------------------------------------------------------------------
# self-check and known-finding predicates


def selfcheck():
    """E8 must regenerate the checked-in NONMEM outputs byte for byte from numbers parsed by its
    own simple reader; the module under pv/ref must not import pharmpy."""
    import sys

    src = open(nmout.__file__).read()
    if 'import pharmpy' in src or 'from pharmpy' in src:
        raise HarnessError('pv/ref/nmout.py imports pharmpy')
    files = [('pheno_real.ext', 'ext'), ('pheno_real.phi', 'phi'), ('pheno_real.cov', 'mat'), ('pheno_real.cor', 'mat'), ('pheno_real.coi', 'mat'),
             ('sdtab1', 'dollar'), ('pheno_real.tab', 'dollar'), ('qa/iov.ext', 'ext'), ('modelfit_results/saem/pheno_saem.phi', 'phi')]
    for fn, kind in files:
        path = os.path.join(TESTDATA, fn)
        with open(path) as f:
            txt = f.read()
        new = nmout.regenerate(txt, kind)
        if new != txt:
            a, b = txt.split('\n'), new.split('\n')
            k = next((i for i, (x, y) in enumerate(zip(a, b)) if x != y), min(len(a), len(b)))
            raise HarnessError(f'reference writer does not reproduce {fn}: line {k + 1}\n  file:   {a[k] if k < len(a) else None!r}\n  writer: {b[k] if k < len(b) else None!r}')
    # field widths documented in docs/NONMEM.rst
    if len(nmout.fmt_e(-1.5)) != 13 or len(nmout.fmt_obj(5.9473520242962552)) != 22 or nmout.fmt_obj(-12.5).strip()[0] != '-':
        raise HarnessError('field widths')
    # the generators must be deterministic
    a = nmout.render([build_ext_step(Cfg(None), Step([2, 2, 1, 511, 1, 0], 1), Rng(7, 1))])
    b = nmout.render([build_ext_step(Cfg(None), Step([2, 2, 1, 511, 1, 0], 1), Rng(7, 1))])
    if a != b:
        raise HarnessError('value source not deterministic')
    _ = sys


def _tab(spec, k, default=0):
    t = spec.get('tab')
    if not isinstance(t, list) or len(t) <= k:
        return default
    return t[k]


KNOWN_PREDICATES = {
    # tables: $TABLE file without label line (layouts 3 NOTITLE+NOLABEL and 4 NOLABEL)
    'tables_nolabel': lambda spec: _ints([_tab(spec, 3)], 1)[0] % 5 in (3, 4),
    # endtoend: $TABLE ... NOHEADER present
    'e2e_noheader': lambda spec: bool(_tab(spec, 0)) and _ints([_tab(spec, 1)], 1)[0] % 4 == 3,
    # endtoend: default layout (title repeated every 900 records) with more than 900 records
    'e2e_title_every_900': lambda spec: bool(_tab(spec, 0)) and _ints([_tab(spec, 1)], 1)[0] % 4 == 0 and bool(_tab(spec, 4)),
    # endtoend: last estimation step is BAYES (final row differs from the last printed iteration)
    'e2e_last_step_bayes': lambda spec: E2E_METHODS[_ints((spec.get('steps') or [[2]])[:2][-1], 1)[0] % len(E2E_METHODS)] == BAYES,
    # json: values below 1e-9 present
    'json_small': lambda spec: bool(spec.get('small')),
    'json_default_grad': lambda spec: bool(spec.get('default_grad')) and not (_ints([spec.get('present')], 1)[0] & 64),
}


# SUBCHECKS-FOOTER
# measured per case (loaded machine): tables 0.09 s, endtoend 0.41 s, json 0.09 s -> quick ~ 440 cpu-s
SUBCHECKS = [
    SubCheck('tables', lambda: TABLES, run_tables, quick=3000, thorough=26590),
    SubCheck('endtoend', lambda: ENDTOEND, run_endtoend, quick=240, thorough=2120),
    SubCheck('json', lambda: JSONSPEC, run_json, quick=800, thorough=7090),
]
