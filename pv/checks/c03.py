"""C03 -- Control streams round-trip losslessly; edits touch only what changed.

(a) parse/print     str(NMTranParser().parse(T)) == T for every text T the parser accepts
    pp_stream       generated full control streams (pv.gen.gen_nm via c01.build) + extra records + layout noise / mutation
    pp_grammar      record bodies drawn from pharmpy's own lark grammars (hypothesis.extra.lark) wrapped as `$REC body`
    pp_layout       $THETA/$OMEGA/$SIGMA record layouts (pv.gen.gen_layout) + noise
    pp_corpus       line/character-level mutation of the checked-in control streams (read at run time)
    pp_text         literal texts: replay target for findings of tools/fuzz_c03.py (plus short random texts)
(b) noop / noop_corpus
                    read_model_from_string(T).code == T and .update_source().code == T
(c) frame / frame_corpus / table_layout (one $TABLE in every two-/three-line layout x every removable column)
                    model x one edit through pharmpy.modeling: records whose kind the edit cannot affect are byte
                    identical and in order (own splitter pv.ref.nmsplit); in an edited code record standalone comments,
                    verbatim lines and statements whose code is unchanged keep their text; in an edited parameter
                    record the other values keep their spelling.
Coverage-guided fuzzing of (a) with atheris lives in /verif/tools/fuzz_c03.py (separate process: the
instrumentation has to happen before pharmpy is imported, which the runner's workers cannot guarantee).
"""

from __future__ import annotations

import glob
import os
import re
import warnings

from hypothesis import strategies as st

from ..core import REPO_DIR, CaseInfo, HarnessError, Reject, SubCheck, guard, innermost_pharmpy_frame
from ..core import Violation as _Violation
from ..gen import gen_layout as GL
from ..gen import gen_noise as N
from ..ref import nmsplit as S
from ..ref import nmtran as R
from . import c01



def _vis(x):
    """NUL bytes are part of many cases here; they are shown as <NUL> in messages (terminals and grep choke on them)"""
    if isinstance(x, str):
        return x.replace('\x00', '<NUL>')
    if isinstance(x, (list, tuple)):
        return [_vis(y) for y in x]
    return x


class Violation(_Violation):
    def __init__(self, clause, observed=None, expected=None, detail=''):
        super().__init__(clause, observed=_vis(observed), expected=_vis(expected), detail=_vis(detail))


PROPERTY = 'C03'
LEVEL = 'exploration'
RULE = (
    '(a) texts: generated full control streams ($PRED or $PK/$ERROR with ADVANs, $THETA/$OMEGA/$SIGMA in all documented '
    'layouts, optional $SIZES/$ABBR/$COV/$TABLE, BLOCK records with a (v)xn item followed by more values, a second $PROBLEM repeating the code records verbatim) under <=8 layout-noise or mutation ops (tab, NUL, CR LF, comments, blank '
    'lines, `&` continuation, record-name abbreviation/case, verbatim lines, records pharmpy does not model, text before the '
    'first record, delete/duplicate/swap lines and records, stray characters); record bodies drawn from the lark grammars '
    'themselves; mutated checked-in control streams. Only texts the parser accepts are judged. Non-trivial = accepted and >=2 '
    'of {comment followed by more tokens of the record, continuation, CR LF, NUL/tab, abbreviated record name, unmodelled '
    'record, text before first record, verbatim line}. (b)/(c): generated streams under meaning-preserving noise only, and '
    'the checked-in models; pharmpy must be able to read them (else rejected: C01). Non-trivial = >=6 records and, for (c), '
    'the edit changed the text. Distinct = hash of the spec.'
)
ASSUMPTIONS = [
    'record boundaries: a record starts where `$` is the first non-blank character of a line (own splitter pv/ref/nmsplit.py)',
    'noise classified SAFE keeps an NM-TRAN control stream valid with the same meaning (my reading of the guides); (b)/(c) only use SAFE noise',
    'models without ETAs get a DUMMYETA on update_source (asserted by upstream tests, tests/nonmem/test_nonmem_model.py::test_no_etas_in_model): '
    'for those only the frame condition with {code record, OMEGA} allowed to change is checked',
    'a comment physically inside a statement that the edit rewrites (same line, or inside its IF block) may disappear; all other comments may not',
    'models are read from strings: no dataset is attached, dataset-dependent regeneration ($INPUT/$DATA rewriting) is not exercised',
]

PHARMPY_KNOWN = {
    'ABBREVIATED', 'COVARIANCE', 'DATA', 'DES', 'ERROR', 'ESTIMATION', 'ETAS', 'INPUT', 'MODEL', 'OMEGA', 'PK', 'PRED',
    'PROBLEM', 'SIGMA', 'SIMULATION', 'SIZES', 'SUBROUTINES', 'TABLE', 'THETA',
}

# ------------------------------------------------------------------------------------------
# specs

XFLAGS = ['theta_inf', 'scaled_blocks', 'abbr_replace', 'abbr_opt', 'table', 'table_unsorted', 'cov', 'sizes', 'title_comment', 'block_repeat', 'second_problem', 'multiline']
# extra records / shapes of the generated text; each is on in half of the cases, `$ABBR REPLACE` in a quarter
# `lay`: how the option records at the end ($TABLE, $SUBROUTINES, $ESTIMATION, $COVARIANCE, $SIZES) are spread over lines
X = st.fixed_dictionaries(
    dict(
        {f: (st.sampled_from([False, False, False, True]) if f == 'abbr_replace' else st.booleans()) for f in XFLAGS},
        lay=st.lists(st.integers(0, 63), min_size=8, max_size=8),
    )
)
MODEL_SPEC = st.one_of(c01.PRED_SPEC, c01.ADVAN_SPEC)
STREAM_SPEC = st.fixed_dictionaries(dict(m=MODEL_SPEC, x=X, ops=N.OPS))
# kind of edit (see apply_edit): drawn uniformly, the edits of code records (12-15) and of $TABLE options (16-19) twice as often
EDIT = st.tuples(st.sampled_from(list(range(20)) + [12, 13, 14, 14, 15, 16, 16, 17, 18, 19]), st.integers(0, 40), st.integers(0, 40)).map(list)
FRAME_SPEC = st.fixed_dictionaries(dict(m=MODEL_SPEC, x=X, ops=N.OPS, edit=EDIT))


def corpus_files():
    base = os.path.join(REPO_DIR, 'tests', 'testdata', 'nonmem')
    files = sorted(glob.glob(os.path.join(base, '**', '*.mod'), recursive=True) + glob.glob(os.path.join(base, '**', '*.ctl'), recursive=True))
    if len(files) < 50:
        raise HarnessError(f'checked-in control streams not found under {base}')
    return files


_CORPUS_CACHE = {}


def corpus_text(i):
    files = corpus_files() if 'files' not in _CORPUS_CACHE else _CORPUS_CACHE['files']
    _CORPUS_CACHE['files'] = files
    path = files[i % len(files)]
    if path not in _CORPUS_CACHE:
        with open(path, 'rb') as f:
            _CORPUS_CACHE[path] = f.read().decode('latin-1')
    return os.path.relpath(path, REPO_DIR), _CORPUS_CACHE[path]


# ------------------------------------------------------------------------------------------
# building generated streams


def _spread(name, items, lay):
    """an option record `name items...` over 1-3 lines -> list of lines.  lay: [break1, break2, indent, comments, ...]"""
    lay = (list(lay) + [0] * 4)[:4]
    n = len(items)
    cuts = sorted({1 + lay[0] % n, 1 + lay[1] % n} - {n}) if n > 1 else []
    if lay[0] % 5 == 0:
        cuts = cuts[:1]
    parts = []
    prev = 0
    for c in cuts + [n]:
        parts.append(items[prev:c])
        prev = c
    ind = ['', '  ', '\t', '', '      '][lay[2] % 5]
    out = []
    for j, part in enumerate(parts):
        ln = (name + ' ' if j == 0 else ind) + ' '.join(part)
        if (lay[3] >> j) & 1:
            ln += [' ; the key columns', ' ;c', '  ; NOPRINT FILE=x'][(lay[3] + j) % 3]
        out.append(ln)
    return out


def build_stream(spec, pool):
    """-> (text, Built of c01, list of applied extra names)"""
    m = dict(spec['m'])
    x = spec.get('x') or {}
    if not isinstance(x, dict):
        x = {}
    if not x.get('theta_inf'):
        # forms 9 and 11 spell infinite bounds explicitly ((-INF,v,INF), (lo,v,1000000)): switchable shape
        m['thetas'] = [dict(it, form={9: 2, 11: 3}.get(it['form'] % 12, it['form'])) for it in m['thetas']]
    if not x.get('scaled_blocks'):
        # SD / CORRELATION / CHOLESKY scales (values are not stored on the scale they are written in): switchable shape
        def plain(it):
            k = it['kind'] % 10
            if k == 2:
                return dict(it, kind=0)
            if 4 <= k <= 7 and it['scale'] % 6 in (1, 2, 3, 4):
                return dict(it, scale=0)
            if k == 9:  # VALUES(d,o) is switched off below: gen_layout then renders kind 4
                return dict(it, kind=4, scale=0)
            return it

        m['omegas'] = [plain(it) for it in m['omegas']]
        m['sigmas'] = [plain(it) for it in m['sigmas']]
    # `BLOCK(n) VALUES(d,o)` is refused by pharmpy's reader (C01 finding): it would only cost cases here
    m['feat'] = dict(m['feat'], omega_values=False)
    crlf = bool(m['noise'].get('crlf'))
    m['noise'] = dict(m['noise'], crlf=False)
    b = c01.build(m)
    lines = b.text.split('\n')
    used = []
    kinds = [None] * len(lines)
    cur = None
    for i, ln in enumerate(lines):
        nm = S.record_start(ln)
        if nm is not None:
            cur = R.canonical_record_name(nm)
        kinds[i] = cur
    first_code = next(i for i, k in enumerate(kinds) if k in ('PRED', 'PK'))
    pre = []
    if x.get('abbr_opt'):
        pre.append('$ABBR DERIV2=NO ; no second derivatives')
        used.append('abbr_opt')
    if x.get('abbr_replace') and b.neta >= 1:
        pre.append('$ABBREVIATED REPLACE ETA(XY)=ETA(1)')
        used.append('abbr_replace')
        for i in range(first_code, len(lines)):
            if kinds[i] in ('PRED', 'PK', 'ERROR'):
                code, com = S.comment_split(lines[i])
                code = re.sub(r'(?i)(?<![A-Za-z_0-9])(ETA)\(1\)', r'\1(XY)', code)
                lines[i] = code + (com or '')
    lines[first_code:first_code] = pre
    if x.get('title_comment'):
        lines[0] = lines[0] + ' ; not part of the title?'
        lines.insert(1, ';; 2. Description: generated')
        used.append('title_comment')
    if x.get('sizes'):
        lines.insert(0, '$SIZES LTH=20 PD=-30')
        used.append('sizes')
    tail = []
    if x.get('cov'):
        tail.append('$COVARIANCE PRINT=E UNCONDITIONAL ; uncertainty')
        used.append('cov')
    lay = [v if isinstance(v, int) and not isinstance(v, bool) else 0 for v in (x.get('lay') or [])] if isinstance(x.get('lay'), list) else []
    lay = (lay + [0] * 8)[:8]
    if x.get('table') or x.get('multiline'):
        if x.get('multiline'):
            tail.append('$TABLE ID TIME DV NOAPPEND NOPRINT ONEHEADER FILE=sdtab1 ; first table')
        else:
            # (no NOAPPEND: NONMEM appends PRED RES WRES, which pharmpy reads as columns of the table)
            tail.append('$TABLE ID TIME DV NOPRINT ONEHEADER FILE=sdtab1 ; first table')
        if x.get('multiline'):
            # the last table: prediction/residual columns, written over up to three lines, continuation lines with
            # or without indentation, a comment at the end of any line
            items = ['ID', 'TIME', 'DV']
            pool = ['PRED', 'CIPREDI', 'RES', 'WRES', 'CWRES'] + (['IPRED'] if 'IPRED' in b.defs_end else [])
            items += [c for j, c in enumerate(pool) if (lay[0] >> j) & 1]
            items += ['NOAPPEND', 'NOPRINT', 'ONEHEADER', 'FILE=patab1'][:: 1] if lay[1] % 4 else ['NOAPPEND', 'NOPRINT', 'FILE=patab1']
            tail += _spread('$TABLE', items, lay[2:])
            used.append('table_multiline')
        elif x.get('table_unsorted'):
            # options pharmpy itself would write in another order / without NOPRINT: switchable shape
            tail.append('$TABLE ID NOAPPEND TIME DV FILE=patab1 ONEHEADER')
            used.append('table_unsorted')
        else:
            tail.append('$TABLE ID TIME NOAPPEND NOPRINT FILE=patab1')
        used.append('table')
    if x.get('block_repeat'):
        # BLOCK records whose value list has a (v)xn item followed by further values (extra, unused etas/eps)
        var = m['vals'][1] % 3 if m.get('vals') and len(m['vals']) > 1 else 0
        kd = [None] * len(lines)
        cur = None
        for i, ln in enumerate(lines):
            nm = S.record_start(ln)
            if nm is not None:
                cur = R.canonical_record_name(nm)
            kd[i] = cur
        if var == 2:
            pos = next(i for i, k in enumerate(kd) if k == 'ESTIMATION')
            lines[pos:pos] = ['$SIGMA BLOCK(2)', '(0.04)x2', '0.09 ; after the repeat']
        else:
            pos = next(i for i, k in enumerate(kd) if k == 'SIGMA')
            lines[pos:pos] = [['$OMEGA BLOCK(3)', ' 0.2 ; IIV_A', ' 0.05 0.2', ' (0.01)x2 0.3  ; covariances, IIV_C'], ['$OMEGA BLOCK(2) (0.1)x2 0.3']][var]
        used.append('block_repeat')
    if x.get('multiline'):
        # $SUBROUTINES / $ESTIMATION / $SIZES written over two lines
        for i, ln in enumerate(lines):
            nm = S.record_start(ln)
            if nm and R.canonical_record_name(nm) in ('SUBROUTINES', 'ESTIMATION', 'SIZES') and ';' not in ln:
                toks = ln.split()
                if len(toks) >= 3:
                    lines[i] = '\n'.join(_spread(toks[0], toks[1:], [lay[7] + i, lay[6], lay[5], lay[4], lay[3], lay[2]]))
        used.append('multiline')
    if lines and lines[-1] == '':
        lines[-1:-1] = tail
    else:
        lines += tail
    text = '\n'.join(lines)
    if x.get('second_problem'):
        # a second $PROBLEM (simulation from the MSF of the first) repeating $INPUT, $DATA, $SUBROUTINES, $ABBR and
        # the code records verbatim
        recs = S.split_exact(text if text.endswith('\n') else text + '\n')
        keep = ('INPUT', 'DATA', 'SUBROUTINES', 'ABBREVIATED', 'PRED', 'PK', 'ERROR')
        second = ['$PROBLEM simulate with the final estimates\n']
        for r in recs:
            if r.kind in keep:
                second.append(r.text)
                if r.kind == 'DATA':
                    second.append('$MSFI run1.msf\n')
        second += ['$SIMULATION (1234) ONLYSIMULATION\n', '$TABLE ID TIME DV NOAPPEND NOPRINT FILE=simtab1\n']
        text = (text if text.endswith('\n') else text + '\n') + ''.join(second)
        used.append('second_problem')
    if crlf:
        text = text.replace('\n', '\r\n')
    text = N.apply_ops(text, spec.get('ops') or [], pool)
    return text, b, used


# ------------------------------------------------------------------------------------------
# (a) parse / print


def text_features(text):
    feats = set()
    recs = S.split_exact(text)
    if '\r\n' in text:
        feats.add('crlf')
    if '\x00' in text or '\t' in text:
        feats.add('nul_tab')
    for r in recs:
        if r.kind is None:
            if r.text:
                feats.add('leading_text')
            continue
        if r.kind not in PHARMPY_KNOWN:
            feats.add('unmodelled_record')
        elif r.raw.upper() != r.kind and len(r.raw) < len(r.kind):
            feats.add('abbr_name')
        lines = S.split_lines(r.text)
        last_code = -1
        for i, ln in enumerate(lines):
            code, com = S.comment_split(ln)
            if i == 0:
                code = re.sub(r'^[ \t]*\$[A-Za-z]*', '', code)
            if code.strip(' \t\x00\r'):
                last_code = i
                if code.lstrip(' \t\x00').startswith('"'):
                    feats.add('verbatim')
                elif code.rstrip(' \t\x00\r').endswith('&'):
                    feats.add('continuation')
        for i, ln in enumerate(lines):
            if S.comment_split(ln)[1] is not None and i < last_code:
                feats.add('comment_between_tokens')
    return feats


def _first_diff(a, b):
    n = min(len(a), len(b))
    for i in range(n):
        if a[i] != b[i]:
            return i
    return n


def check_parse_print(text, extra_classes=()):
    from lark.exceptions import UnexpectedInput

    from pharmpy.model import ModelSyntaxError
    from pharmpy.model.external.nonmem.nmtran_parser import NMTranParser

    try:
        with warnings.catch_warnings():
            warnings.simplefilter('ignore')
            cs = NMTranParser().parse(text)
    except (UnexpectedInput, ModelSyntaxError) as e:
        return CaseInfo(nontrivial=False, classes=tuple(extra_classes) + (f'not-accepted:{type(e).__name__}',), render=text)
    except RecursionError:
        return CaseInfo(nontrivial=False, classes=tuple(extra_classes) + ('not-accepted-internal:RecursionError',), render=text)
    except Exception as e:  # noqa: internal errors are listed, not flagged (C03 quantifies over accepted texts)
        where = innermost_pharmpy_frame(e)
        return CaseInfo(nontrivial=False, classes=tuple(extra_classes) + (f'not-accepted-internal:{type(e).__name__}@{where}',), render=text)
    try:
        out = str(cs)
    except Exception as e:  # noqa
        where = innermost_pharmpy_frame(e)
        if where == 'outside-pharmpy':
            raise
        raise Violation(f'parse_print:str-raises:{type(e).__name__}@{where}', detail=f'{e}\n{text!r}')
    if out != text:
        i = _first_diff(out, text)
        # which record holds the first differing byte
        pos = 0
        kind = None
        for r in S.split_exact(text):
            if pos + len(r.text) > i:
                kind = r.kind
                break
            pos += len(r.text)
            kind = r.kind
        raise Violation(
            f'parse_print:mismatch:{kind}',
            observed=out[max(0, i - 30) : i + 30],
            expected=text[max(0, i - 30) : i + 30],
            detail=f'first difference at offset {i} (record {kind}); input {text!r}',
        )
    # the records themselves partition the text
    if ''.join(str(r) for r in cs.records) != text:
        raise Violation('parse_print:records-do-not-concatenate', detail=repr(text))
    feats = text_features(text)
    return CaseInfo(nontrivial=len(feats) >= 2, classes=tuple(extra_classes) + ('accepted',) + tuple(sorted(feats)), render=text)


def run_pp_stream(spec):
    text, b, used = build_stream(spec, N.ALL)
    return check_parse_print(text, ('kind:' + b.kind,))


LAYOUT_SPEC = st.fixed_dictionaries(
    dict(thetas=GL.THETA_LAYOUT, omegas=GL.OMEGA_LAYOUT, sigmas=st.lists(GL.OMEGA_ITEM, min_size=0, max_size=2), values_ok=st.booleans(), ops=N.OPS)
)


def run_pp_layout(spec):
    th, _ = GL.render_thetas(spec['thetas'])
    om, _, _ = GL.render_omegas(spec['omegas'], 'OMEGA', max_total=6, values_ok=bool(spec.get('values_ok')))
    sg, _, _ = GL.render_omegas(spec['sigmas'], 'SIGMA', max_total=3)
    text = ''.join(th + om + sg)
    text = N.apply_ops(text, spec.get('ops') or [], N.ALL)
    return check_parse_print(text)


GRAMMARS = [
    # (parser class name, record names using it)
    ('OptionRecordParser', ['INPUT', 'ESTIMATION', 'TABLE', 'SUBROUTINES', 'MODEL', 'COVARIANCE', 'SIZES', 'ETAS']),
    ('ThetaRecordParser', ['THETA']),
    ('OmegaRecordParser', ['OMEGA', 'SIGMA']),
    ('DataRecordParser', ['DATA', 'INFILE']),
    ('AbbreviatedRecordParser', ['ABBREVIATED']),
    ('SimulationRecordParser', ['SIMULATION', 'SIML']),
    ('ProblemRecordParser', ['PROBLEM']),
    ('CodeRecordParser', ['PRED', 'PK', 'ERROR', 'DES']),
]
ALPHABET = 'ABCDEFGHIKLMNOPRSTVWXY' + 'abdeinx' + '0123456789' + ' \t\x00\n\r' + '()=,;.+-*/&"\'<>_$@#:!?\xe9\xff'


def grammar_strategy():
    from hypothesis.extra.lark import from_lark

    from pharmpy.model.external.nonmem.records import parsers as P

    alpha = st.sampled_from(sorted(set(ALPHABET)))
    alts = []
    for gi, (cls, names) in enumerate(GRAMMARS):
        body = from_lark(getattr(P, cls).lark, start='root', alphabet=alpha)
        # code records get three times the weight of the others (largest grammar)
        for _ in range(3 if cls == 'CodeRecordParser' else 1):
            alts.append(
                st.fixed_dictionaries(
                    dict(g=st.just(gi), name=st.integers(0, 30), abbr=st.integers(0, 12), case=st.integers(0, 2), sep=st.integers(0, 7), body=body, second=st.integers(0, 9), ops=st.lists(N.OP, max_size=2))
                )
            )
    return st.one_of(alts)


SEPS = [' ', '\n', '\t', '', '  ', '\r\n', ' ; c\n', '\x00']
SECOND = ['', '', '', '', '$THETA 1 FIX\n', '$FOO x\n', '\n$EST METH=1 ; c\n', ';tail', '$PROBLEM p\n', '  $OMEGA 1']


def grammar_text(spec):
    g = spec.get('g', 0)
    cls, names = GRAMMARS[g % len(GRAMMARS)] if isinstance(g, int) else GRAMMARS[0]
    name = names[spec.get('name', 0) % len(names)]
    if len(name) > 3:
        cands = [name[:k] for k in range(3, len(name) + 1) if R.canonical_record_name(name[:k]) == R.canonical_record_name(name)]
        raw = cands[-1 - spec.get('abbr', 0) % len(cands)]
    else:
        raw = name
    case = spec.get('case', 0) % 3
    raw = raw.lower() if case == 1 else (raw.capitalize() if case == 2 else raw)
    body = spec.get('body', '')
    if not isinstance(body, str):
        body = ''
    text = '$' + raw + SEPS[spec.get('sep', 0) % len(SEPS)] + body + SECOND[spec.get('second', 0) % len(SECOND)]
    return cls, N.apply_ops(text, spec.get('ops') or [], N.ALL, limit=2)


def run_pp_grammar(spec):
    cls, text = grammar_text(spec)
    return check_parse_print(text, ('grammar:' + cls,))


def run_pp_text(spec):
    """a literal text (replay target of tools/fuzz_c03.py; random short texts as a by-product)"""
    text = spec.get('text', '')
    return check_parse_print(text if isinstance(text, str) else '')


CORPUS_SPEC = st.fixed_dictionaries(dict(file=st.integers(0, 999), ops=st.lists(N.OP, min_size=0, max_size=6)))


def run_pp_corpus(spec):
    name, text = corpus_text(spec.get('file', 0) if isinstance(spec.get('file', 0), int) else 0)
    text = N.apply_ops(text, spec.get('ops') or [], N.ALL)
    return check_parse_print(text)


def enum_corpus(tier):
    for i in range(len(corpus_files())):
        yield dict(file=i, ops=[])


# ------------------------------------------------------------------------------------------
# (b) no-op regeneration


def read_model(text):
    """read through the public API; every refusal is a rejection here (C01 judges readability)"""
    from pharmpy.modeling import read_model_from_string

    def rd():
        with warnings.catch_warnings():
            warnings.simplefilter('ignore')
            return read_model_from_string(text)

    return guard(rd, allowed=(Exception,), clause='read')


def record_list(text):
    return [('LEAD' if r.kind is None else r.kind, r.text) for r in S.split_exact(text)]


def changed_kinds(before, after, ignore=()):
    """-> (signature, records only in before, records only in after).  signature is `<kind>:<what>` for the first
    (alphabetically) record kind that differs, what in {changed, record-deleted, record-added}; when both texts
    hold the same records in another order it is `records-reordered:<first kind that moved>`.  Kinds in `ignore`
    are left out; '' means no difference."""
    return _signature(record_list(before), record_list(after), ignore)


def _signature(rb, ra, ignore=()):
    common = _lcs(rb, ra)
    cb = list(rb)
    ca = list(ra)
    for item in common:
        cb.remove(item)
        ca.remove(item)
    cb = [x for x in cb if x[0] not in ignore]
    ca = [x for x in ca if x[0] not in ignore]
    if not cb and not ca:
        return '', cb, ca
    # records present on both sides have only moved; the others were rewritten, deleted or added
    rest = list(ca)
    only_b = []
    for x in cb:
        if x in rest:
            rest.remove(x)
        else:
            only_b.append(x)
    only_a = rest
    kinds = sorted({k for k, _ in only_b + only_a})
    if not kinds:
        return f'records-reordered:{sorted({k for k, _ in cb})[0]}', cb, ca
    k = kinds[0]
    nb, na = sum(1 for x in only_b if x[0] == k), sum(1 for x in only_a if x[0] == k)
    what = 'changed' if nb == na else ('record-deleted' if nb > na else 'record-added')
    return f'{k}:{what}', cb, ca


def _lcs(a, b):
    n, m = len(a), len(b)
    L = [[0] * (m + 1) for _ in range(n + 1)]
    for i in range(n - 1, -1, -1):
        for j in range(m - 1, -1, -1):
            L[i][j] = L[i + 1][j + 1] + 1 if a[i] == b[j] else max(L[i + 1][j], L[i][j + 1])
    out = []
    i = j = 0
    while i < n and j < m:
        if a[i] == b[j]:
            out.append(a[i])
            i += 1
            j += 1
        elif L[i + 1][j] >= L[i][j + 1]:
            i += 1
        else:
            j += 1
    return out


def _is_subsequence(small, big):
    it = iter(big)
    return all(any(x == y for y in it) for x in small)


def split_problems(recs):
    """record list -> (records up to the second $PROBLEM, records from the second $PROBLEM on)"""
    seen = 0
    for i, (k, _) in enumerate(recs):
        if k == 'PROBLEM':
            seen += 1
            if seen == 2:
                return recs[:i], recs[i:]
    return recs, []


def frame_condition(before, after, may_change, label):
    """records of kinds outside may_change: byte-identical, same relative order.  The model is the first
    $PROBLEM: whatever the edit, every record from the second $PROBLEM on stays as and where it is."""
    b1, b2 = split_problems(record_list(before))
    a1, a2 = split_problems(record_list(after))
    if b2 != a2:
        sig, cb, ca = _signature(b2, a2)
        raise Violation(
            f'frame:second-problem:{sig}:{label.split(":", 1)[-1]}',
            observed=''.join(t for _, t in ca),
            expected=''.join(t for _, t in cb),
            detail=f'records from the second $PROBLEM on must not change\n--- before\n{before}\n--- after\n{after}',
        )
    rb = [(k, t) for k, t in b1 if k not in may_change]
    ra = [(k, t) for k, t in a1 if k not in may_change]
    if rb == ra:
        return
    for i in range(max(len(rb), len(ra))):
        x = rb[i] if i < len(rb) else None
        y = ra[i] if i < len(ra) else None
        if x != y:
            kind = (x or y)[0]
            if x is not None and y is not None and x[0] == y[0]:
                what = 'unrelated-record-changed'
            elif x is not None and (y is None or x not in ra):
                what = 'unrelated-record-lost'
            else:
                what = 'unrelated-record-added-or-moved'
                kind = y[0] if y is not None else kind
            raise Violation(
                f'{label}:{kind}:{what}',
                observed=y[1] if y else None,
                expected=x[1] if x else None,
                detail=f'records allowed to change: {sorted(may_change)}\n--- before\n{before}\n--- after\n{after}',
            )


def do_update(model, clause):
    def upd():
        with warnings.catch_warnings():
            warnings.simplefilter('ignore')
            return model.update_source()

    return guard(upd, allowed=(), clause=clause)


def check_noop(text, model, n_etas):
    """clauses: noop:<stage>:<kind>:<what> -- see changed_kinds; all differing kinds are listed in the detail"""

    def compare(code, stage, ignore=()):
        sig, cb, ca = changed_kinds(text, code, ignore)
        if sig:
            kinds = sorted({k for k, _ in cb + ca})
            raise Violation(
                f'noop:{stage}:{sig}' if stage else f'noop:{sig}',
                observed=''.join(t for _, t in ca),
                expected=''.join(t for _, t in cb),
                detail=f'regenerating the code of the unmodified model: {sig}; differing record kinds {kinds}\n--- input\n{text}\n--- output\n{code}',
            )

    if model.code != text:
        compare(model.code, 'code-after-read')
        raise Violation('noop:code-after-read:text-between-records', observed=model.code, expected=text)
    u = do_update(model, 'noop:update_source')
    code = u.code
    if n_etas == 0:
        # documented: update_source gives a model without ETAs a DUMMYETA (first code record + $OMEGA)
        compare(code, '', ignore=('PRED', 'PK', 'OMEGA'))
        return u, 'no_etas'
    if code != text:
        compare(code, '')
        raise Violation('noop:text-between-records', observed=code, expected=text)
    u2 = do_update(u, 'noop:update_source-twice')
    if u2.code != text:
        compare(u2.code, 'second-update')
        raise Violation('noop:second-update:text-between-records', observed=u2.code, expected=text)
    return u, 'etas'


def _run_noop(spec):
    text, b, used = build_stream(spec, N.SAFE)
    model = read_model(text)
    _, cls = check_noop(text, model, len(model.random_variables.etas.names))
    nrec = len(S.split_exact(text))
    feats = text_features(text)
    return CaseInfo(nontrivial=nrec >= 6, classes=(cls, 'kind:' + b.kind) + tuple('x:' + u for u in used) + tuple(sorted(feats)), render=text, evals=2)


def run_noop(spec):
    return _run_noop(spec)


NOOP_CORPUS_SPEC = st.fixed_dictionaries(dict(file=st.integers(0, 999), ops=st.lists(N.OP, min_size=1, max_size=4)))


def _run_noop_corpus(spec):
    name, text = corpus_text(spec.get('file', 0) if isinstance(spec.get('file', 0), int) else 0)
    text = N.apply_ops(text, spec.get('ops') or [], N.SAFE)
    model = read_model(text)
    _, cls = check_noop(text, model, len(model.random_variables.etas.names))
    nrec = len(S.split_exact(text))
    return CaseInfo(nontrivial=nrec >= 6, classes=(cls,), render=dict(file=name, ops=spec.get('ops')), evals=2)


def run_noop_corpus(spec):
    return _run_noop_corpus(spec)


# ------------------------------------------------------------------------------------------
# (c) frame preservation under one edit
#
# may_change(edit): the record kinds in which the edited component is *expressed* in NM-TRAN.
#   theta value/bounds/FIX, new theta      -> $THETA
#   omega (sigma) value/FIX                -> $OMEGA ($SIGMA)
#   description                            -> $PROBLEM
#   model name                             -> $TABLE (FILE=sdtabN follows the name: update_name_of_tables)
#   estimation step option / add / remove  -> $ESTIMATION
#   parameter uncertainty step             -> $COVARIANCE
#   change of one assignment               -> the code record holding it
#   add_iiv / remove_iiv                   -> the code records mentioning ETAs, $OMEGA, $ABBREVIATED (ETA names)
#   add_individual_parameter               -> first code record ($PK/$PRED), $THETA
#   error model                            -> $ERROR/$PRED, $SIGMA, $THETA, $OMEGA, $ABBREVIATED (unused parameters are removed)
# $SIZES is always allowed to appear/change when the number of parameters changes (update_sizes).

CODE = {'PRED', 'PK', 'ERROR', 'DES'}


def _thetas(model):
    rvp = set(model.random_variables.parameter_names)
    return [p for p in model.parameters if p.name not in rvp]


def _var_params(model, which):
    """[(name, eta index 0-based)] of diagonal elements of OMEGA/SIGMA that are plain parameters"""
    sub = model.random_variables.etas if which == 'OMEGA' else model.random_variables.epsilons
    out = []
    pos = 0
    for dist in sub:
        n = len(dist)
        var = dist.variance
        for i in range(n):
            e = var if n == 1 else var[i, i]
            nm = str(e)
            if nm in model.parameters.names:
                out.append((nm, pos + i))
        pos += n
    return out


def _call(fn, *args, **kwargs):
    def f():
        with warnings.catch_warnings():
            warnings.simplefilter('ignore')
            return fn(*args, **kwargs)

    # ValueError/NotImplementedError/KeyError are documented refusals of the modeling functions; C03 says nothing
    # about edits that fail for other reasons (they are counted among the rejections, by type and place)
    return guard(f, allowed=(ValueError, NotImplementedError, KeyError), clause='edit', internal_is_violation=False)


def apply_edit(model, edit):
    """-> (new model, edit label, may_change kinds, info dict for the inner oracles)"""
    import pharmpy.modeling as M

    e, a, b = (list(edit) + [0, 0, 0])[:3]
    if not all(isinstance(v, int) and not isinstance(v, bool) for v in (e, a, b)):
        e, a, b = 0, 0, 0
    kind = e % 20
    thetas = _thetas(model)
    has_ode = model.statements.ode_system is not None
    first_code = 'PK' if has_ode else 'PRED'
    last_code = 'ERROR' if has_ode else 'PRED'
    info = {}
    if kind in (0, 1, 2, 3):
        if not thetas:
            raise Reject('no thetas')
        k = a % len(thetas)
        p = thetas[k]
        info.update(theta=k, name=p.name)
        lo, up, init = float(p.lower), float(p.upper), float(p.init)
        if kind == 0:
            if p.fix:
                raise Reject('theta fixed')
            cands = [init * 1.5 + 0.125, init * 0.5 + 0.03125, init + 0.25, init - 0.25, 0.777]
            new = next((v for v in cands[b % 5 :] + cands if lo < v < up and v != init and v != 0), None)
            if new is None:
                raise Reject('no value within bounds')
            info['value'] = new
            return _call(M.set_initial_estimates, model, {p.name: new}), 'theta-init', {'THETA'}, info
        if kind == 1:
            if p.fix:
                return _call(M.unfix_parameters, model, [p.name]), 'theta-unfix', {'THETA'}, info
            return _call(M.fix_parameters, model, [p.name]), 'theta-fix', {'THETA'}, info
        if kind == 2:
            new = init - [0.5, 1.0, 2.25, 10.0][b % 4] * max(abs(init), 0.1)
            if not new > -1000000 or new == lo:
                raise Reject('bound')
            info['value'] = new
            return _call(M.set_lower_bounds, model, {p.name: new}), 'theta-lower', {'THETA'}, info
        new = init + [0.5, 1.0, 2.25, 10.0][b % 4] * max(abs(init), 0.1)
        if new == up:
            raise Reject('bound')
        info['value'] = new
        return _call(M.set_upper_bounds, model, {p.name: new}), 'theta-upper', {'THETA'}, info
    if kind in (4, 5):
        which = 'OMEGA' if b % 3 else 'SIGMA'
        vp = _var_params(model, which)
        if not vp:
            which = 'SIGMA' if which == 'OMEGA' else 'OMEGA'
            vp = _var_params(model, which)
        if not vp:
            raise Reject('no variance parameter')
        name, idx = vp[a % len(vp)]
        p = model.parameters[name]
        info.update(which=which, name=name, eta=idx)
        if kind == 4:
            if p.fix:
                raise Reject('fixed')
            new = float(p.init) * [1.5, 2.0, 1.25][b % 3]
            info['value'] = new
            return _call(M.set_initial_estimates, model, {name: new}), f'{which.lower()}-init', {which}, info
        # FIX applies to a whole block: fix every parameter of the distribution holding it
        sub = model.random_variables.etas if which == 'OMEGA' else model.random_variables.epsilons
        names = [name]
        for dist in sub:
            if name in dist.parameter_names:
                names = list(dist.parameter_names)
        if p.fix:
            return _call(M.unfix_parameters, model, names), f'{which.lower()}-unfix', {which}, info
        return _call(M.fix_parameters, model, names), f'{which.lower()}-fix', {which}, info
    if kind == 6:
        new = ['run with new title', 'X', 'title ; with semicolon', 'TITLE  two  blanks'][b % 4]
        if new == model.description:
            raise Reject('same')
        m2 = _call(M.set_description, model, new)  # (does not regenerate the code itself)
        return _call(m2.update_source), 'description', {'PROBLEM'}, info
    if kind == 7:
        m2 = _call(M.set_name, model, ['run77', 'mod2', 'x'][b % 3])
        return _call(m2.update_source), 'name', {'TABLE'}, info
    nsteps = len(model.execution_steps)
    if kind == 8:
        if nsteps == 0:
            raise Reject('no estimation step')
        idx = a % nsteps
        step = model.execution_steps[idx]
        new = [1234, 99, 5000][b % 3]
        if step.maximum_evaluations == new:
            new += 1
        info['idx'] = idx
        return _call(M.set_estimation_step, model, step.method, idx=idx, maximum_evaluations=new), 'est-maxeval', {'ESTIMATION'}, info
    if kind == 9:
        if b % 2 == 0 or nsteps < 2:
            opts = [dict(method='IMP', isample=300, niter=5), dict(method='FOCE', interaction=True, maximum_evaluations=77), dict(method='SAEM', niter=10)][a % 3]
            return _call(M.add_estimation_step, model, **opts), 'est-add', {'ESTIMATION'}, info
        return _call(M.remove_estimation_step, model, a % nsteps), 'est-remove', {'ESTIMATION'}, info
    if kind == 10:
        if nsteps == 0:
            raise Reject('no estimation step')
        if model.execution_steps[-1].parameter_uncertainty_method is None:
            return _call(M.add_parameter_uncertainty_step, model, ['SANDWICH', 'SMAT', 'RMAT'][b % 3]), 'cov-add', {'COVARIANCE'}, info
        return _call(M.remove_parameter_uncertainty_step, model), 'cov-remove', {'COVARIANCE'}, info
    if kind == 11:
        lower = [None, 0.0, -1.0][b % 3]
        return _call(M.add_population_parameter, model, 'POP_NEW', [1.5, 0.25, 3.0][a % 3], lower=lower), 'theta-add', {'THETA', 'SIZES'}, info
    if kind in (16, 17, 18, 19):
        # add/remove one prediction or residual column of the output table (public API: estimation_steps.py)
        if nsteps == 0:
            raise Reject('no estimation step')
        step = model.execution_steps[-1]
        if kind == 16:
            have = list(step.residuals)
            if not have:
                raise Reject('no residuals')
            info['removed'] = [have[a % len(have)]]
            return _call(M.remove_residuals, model, info['removed']), 'table-remove-residual', {'TABLE'}, info
        if kind == 17:
            have = list(step.predictions)
            if not have:
                raise Reject('no predictions')
            info['removed'] = [have[a % len(have)]]
            return _call(M.remove_predictions, model, info['removed']), 'table-remove-prediction', {'TABLE'}, info
        if kind == 18:
            cand = [c for c in ['RES', 'WRES', 'CWRES'] if c not in step.residuals]
            if not cand:
                raise Reject('all residuals present')
            info['added'] = [cand[a % len(cand)]]
            return _call(M.add_residuals, model, info['added']), 'table-add-residual', {'TABLE'}, info
        cand = [c for c in ['PRED', 'CIPREDI'] if c not in step.predictions]
        if not cand:
            raise Reject('all predictions present')
        info['added'] = [cand[a % len(cand)]]
        return _call(M.add_predictions, model, info['added']), 'table-add-prediction', {'TABLE'}, info
    asg = [(i, s) for i, s in enumerate(model.statements) if hasattr(s, 'expression')]
    ode_i = next((i for i, s in enumerate(model.statements) if not hasattr(s, 'expression')), None)
    if kind == 12:
        # change one plain assignment: rhs + 1 (statement-level edit through Model.replace + update_source)
        from pharmpy.basic import Expr
        from pharmpy.model import Assignment

        cand = [(i, s) for i, s in asg if not s.expression.is_piecewise() and str(s.symbol) not in ('F',) and not str(s.symbol).startswith('A_')]
        if not cand:
            raise Reject('no plain assignment')
        i, s = cand[a % len(cand)]
        rec = first_code if (ode_i is None or i < ode_i) else last_code
        new = Assignment.create(s.symbol, s.expression + Expr.integer([1, 2, 7][b % 3]))
        sts = model.statements[0:i] + new + model.statements[i + 1 :]
        m2 = _call(model.replace, statements=sts)
        info['symbol'] = str(s.symbol)
        return _call(m2.update_source), f'assignment[{rec}]', {rec}, info
    if kind == 13:
        # add_iiv on an assigned variable without ETA so far
        cand = [str(s.symbol) for i, s in asg if (ode_i is None or i < ode_i) and not s.expression.is_piecewise()]
        cand = [c for k_, c in enumerate(cand) if c not in cand[:k_] and c not in ('Y', 'F')]
        if not cand:
            raise Reject('no variable')
        name = cand[a % len(cand)]
        info['symbol'] = name
        return _call(M.add_iiv, model, [name], ['exp', 'add', 'prop'][b % 3]), 'add-iiv', CODE | {'OMEGA', 'ABBREVIATED', 'SIZES'}, info
    if kind == 14:
        etas = list(model.random_variables.etas.names)
        if len(etas) < 2:
            raise Reject('fewer than two etas')
        name = etas[a % len(etas)]
        info['eta'] = name
        return _call(M.remove_iiv, model, [name]), 'remove-iiv', CODE | {'OMEGA', 'ABBREVIATED', 'SIZES'}, info
    # kind == 15
    nm = ['MAT', 'XNEW'][b % 2]
    if nm in [str(s.symbol) for _, s in asg]:
        raise Reject('exists')
    return _call(M.add_individual_parameter, model, nm), 'add-individual-parameter', {first_code, 'THETA', 'SIZES'}, info


def records_of(text, kind):
    return [r.text for r in S.split_exact(text) if r.kind == kind]


def check_code_records(before, after, label):
    """inside code records that changed: standalone comments / verbatim lines survive in order,
    statements whose code did not change keep their exact text"""
    n_checked = 0
    for kind in sorted(CODE):
        rb, ra = records_of(before, kind), records_of(after, kind)
        if rb == ra or len(rb) != len(ra):
            continue
        for cb, ca in zip(rb, ra):
            if cb == ca:
                continue
            ub, ua = S.code_units(cb), S.code_units(ca)
            n_checked += 1
            for typ in ('comment', 'verbatim'):
                # the comment token / the verbatim line itself; blanks around it are not part of it
                sb = [(u.comments[0] if typ == 'comment' else u.text).strip(' \t\x00\r\n') for u in ub if u.type == typ]
                sa = [(u.comments[0] if typ == 'comment' else u.text).strip(' \t\x00\r\n') for u in ua if u.type == typ]
                if not _is_subsequence(sb, sa):
                    lost = [x for x in sb if x not in sa] or sb
                    raise Violation(f'{label}:code:{typ}-line-lost-or-reordered', observed=sa, expected=sb, detail=f'${kind}: {lost[:3]}\n--- before\n{cb}\n--- after\n{ca}')
            # the line carrying the record name may also carry a statement: only the name itself has to stay
            hb, ha = (re.match(r'[ \t]*\$[A-Za-z]*', u[0].text).group() for u in (ub, ua))
            if hb != ha:
                raise Violation(f'{label}:code:record-name-changed', observed=ua[0].text, expected=ub[0].text)
            cnt_b, cnt_a = {}, {}
            # (indentation in front of a statement and blanks after it are not part of the statement)
            for u in ub:
                if u.type == 'stmt':
                    cnt_b.setdefault(u.code, []).append(u.text.strip(' \t\r\n'))
            for u in ua:
                if u.type == 'stmt':
                    cnt_a.setdefault(u.code, []).append(u.text.strip(' \t\r\n'))
            for code, texts in cnt_b.items():
                got = cnt_a.get(code, [])
                if len(got) >= len(texts):
                    pool = list(got)
                    for t in texts:
                        if t in pool:
                            pool.remove(t)
                        else:
                            raise Violation(
                                f'{label}:code:unchanged-statement-respelled',
                                observed=got,
                                expected=texts,
                                detail=f'${kind}: statement with unchanged code lost its comment/spelling\n--- before\n{cb}\n--- after\n{ca}',
                            )
    return n_checked


_OMEGA_WORDS = re.compile(r'^(SD|STAN|COR|CHO|VALUES|SAME)', re.I)


def check_param_records(before, after, label, kind, owner_index, item=None, one_value=False):
    """kind = THETA/OMEGA/SIGMA; owner_index = index (among records of that kind) of the record holding the
    edited parameter; item = index of the edited theta within that record (THETA only)."""
    rb, ra = records_of(before, kind), records_of(after, kind)
    if len(rb) != len(ra):
        raise Violation(f'{label}:param:record-count-changed', observed=ra, expected=rb)
    for i, (x, y) in enumerate(zip(rb, ra)):
        if i != owner_index and x != y:
            raise Violation(f'{label}:param:other-record-changed', observed=y, expected=x, detail=f'${kind} record #{i + 1} changed although the edited parameter lives in record #{owner_index + 1}')
    x, y = rb[owner_index], ra[owner_index]
    tb, cb = S.value_tokens(x)
    ta, ca = S.value_tokens(y)
    if cb != ca:
        raise Violation(f'{label}:param:comment-changed', observed=ca, expected=cb, detail=f'--- before\n{x}\n--- after\n{y}')
    if kind == 'THETA':
        items = S.theta_items(tb)
        if items is None or item is None:
            return 'layout-not-understood'
        pos = 0
        span = None
        for it in items:
            if pos <= item < pos + it.count:
                span = it
                break
            pos += it.count
        if span is None:
            return 'layout-not-understood'
        if span.count > 1:
            return 'repeated-item-edited'
        pre = tb[: span.start]
        suf = tb[span.end :]
        ok = ta[: len(pre)] == pre and (not suf or ta[len(ta) - len(suf) :] == suf) and len(ta) >= len(pre) + len(suf)
        if not ok:
            raise Violation(
                f'{label}:param:untouched-value-respelled',
                observed=' '.join(ta),
                expected=' '.join(tb),
                detail=f'only tokens {span.start}..{span.end} of $THETA record #{owner_index + 1} belong to the edited theta\n--- before\n{x}\n--- after\n{y}',
            )
        return 'checked'
    # OMEGA / SIGMA
    if any(_OMEGA_WORDS.match(t) for t in tb) or any(re.fullmatch(r'[xX]\d*', t) for t in tb):
        return 'scaled-or-repeated-layout'
    nb = [t for t in tb if S.is_number(t)]
    na = [t for t in ta if S.is_number(t)]
    # BLOCK(n)/DIAGONAL(n) sizes are numbers too; they stay
    if len(nb) != len(na):
        raise Violation(f'{label}:param:value-count-changed', observed=' '.join(ta), expected=' '.join(tb), detail=f'--- before\n{x}\n--- after\n{y}')
    ndiff = sum(1 for p, q in zip(nb, na) if p != q)
    allowed = 1 if one_value else 0
    if ndiff > allowed:
        raise Violation(
            f'{label}:param:untouched-value-respelled',
            observed=' '.join(ta),
            expected=' '.join(tb),
            detail=f'{ndiff} values of ${kind} record #{owner_index + 1} were respelled; the edit concerns {allowed}\n--- before\n{x}\n--- after\n{y}',
        )
    return 'checked'


_OPT = re.compile(r'\([^)]*\)|[^\s\x00=;()]+(?:[ \t\x00]*=[ \t\x00]*(?:\([^)]*\)|[^\s\x00=;()]+))?')
MOVED_BY_SORT = ('NOAPPEND', 'NOPRINT', 'ONEHEADER', 'FILE')  # update.py::sort_table writes these last (known finding: reordering)


def option_lines(chunk):
    """an option record -> (list of lines, each the list of its option tokens outside comments; comments in order)"""
    lines, coms = [], []
    for i, ln in enumerate(S.split_lines(chunk)):
        code, com = S.comment_split(ln)
        if com is not None:
            coms.append(com)
        if i == 0:
            code = re.sub(r'^[ \t]*\$[A-Za-z]*', '', code)
        lines.append([re.sub(r'[ \t\x00]+', '', t).upper() for t in _OPT.findall(code)])
    return lines, coms


def check_table_record(before, after, label, removed, added, model, after_model):
    """an edit that removes/adds columns of the output table: every other token of the record -- options, comments,
    which options share a line -- stays; what the written record says is what the edited model says"""
    rb, ra = records_of(before, 'TABLE'), records_of(after, 'TABLE')
    if not rb:
        return 'table-created'
    if len(rb) != len(ra):
        raise Violation(f'{label}:TABLE:record-count-changed', observed=ra, expected=rb)
    for i, (x, y) in enumerate(zip(rb, ra)):
        if i != len(rb) - 1 and x != y:
            raise Violation(f'{label}:TABLE:other-table-changed', observed=y, expected=x)
    x, y = rb[-1], ra[-1]
    lb, cb = option_lines(x)
    la, ca = option_lines(y)
    show = f'removed {removed} added {added}\n--- before\n{x}\n--- after\n{y}'
    if cb != ca:
        raise Violation(f'{label}:TABLE:comment-changed', observed=ca, expected=cb, detail=show)
    fb = [t for ln in lb for t in ln]
    fa = [t for ln in la for t in ln]
    expected = [t for t in fb if t not in removed] + list(added)
    lost = [t for t in set(expected) if fa.count(t) < expected.count(t)]
    extra = [t for t in set(fa) if fa.count(t) > expected.count(t)]
    if lost:
        raise Violation(f'{label}:TABLE:option-lost', observed=' '.join(fa), expected=' '.join(expected), detail=f'{sorted(lost)} no longer among the options (outside comments) ' + show)
    if extra:
        raise Violation(f'{label}:TABLE:option-added', observed=' '.join(fa), expected=' '.join(expected), detail=f'{sorted(extra)} ' + show)

    def fixed(t):
        return t not in removed and t not in added and t.split('=')[0] not in MOVED_BY_SORT

    pb = [[t for t in ln if fixed(t)] for ln in lb]
    pa = [[t for t in ln if fixed(t)] for ln in la]
    if [t for ln in pb for t in ln] != [t for ln in pa for t in ln]:
        raise Violation(f'{label}:TABLE:option-order-changed', observed=pa, expected=pb, detail=show)
    if [ln for ln in pb if ln] != [ln for ln in pa if ln]:
        raise Violation(f'{label}:TABLE:line-structure-changed', observed=pa, expected=pb, detail='options that were not touched no longer share the same lines ' + show)
    if split_problems(record_list(before))[1]:
        return 'table-checked'  # (the table pharmpy edits belongs to the last $PROBLEM: judged by the second-problem clause)
    # what the written stream says == what the model says
    reread = read_model(after)
    for attr in ('predictions', 'residuals'):
        want = sorted(getattr(after_model.execution_steps[-1], attr))
        got = sorted(getattr(reread.execution_steps[-1], attr)) if len(reread.execution_steps) else None
        if got != want:
            raise Violation(f'{label}:TABLE:reread-{attr}-differ', observed=got, expected=want, detail=show)
    return 'table-checked'


def theta_owner(text, k):
    """(record index, item index within it) of the k-th theta (0-based) according to the reference parser"""
    pos = 0
    for i, chunk in enumerate(records_of(text, 'THETA')):
        body = re.sub(r'^[ \t]*\$[A-Za-z]*', '', chunk, count=1)
        try:
            n = len(R.parse_theta_record(body))
        except Exception:  # noqa: reference does not understand the layout
            return None
        if pos <= k < pos + n:
            return i, k - pos
        pos += n
    return None


def omega_owner(text, kind, eta):
    """record index (among records of the kind) holding the eta-th (0-based) diagonal element; a SAME record
    refers back to the block it repeats"""
    pos = 0
    last_block = None
    for i, chunk in enumerate(records_of(text, kind)):
        body = re.sub(r'^[ \t]*\$[A-Za-z]*', '', chunk, count=1)
        try:
            m = R.parse_omega_record(body)
        except Exception:  # noqa: reference does not understand the layout
            return None
        if m['kind'] == 'same':
            if last_block is None:
                return None
            size = last_block[1] * m['nsame']
            owner = last_block[0]
        else:
            size = m['size']
            owner = i
            if m['kind'] == 'block':
                last_block = (i, m['size'])
            else:
                last_block = None
        if pos <= eta < pos + size:
            return owner
        pos += size
    return None


FAMILY = {
    'theta-init': 'theta', 'theta-fix': 'theta', 'theta-unfix': 'theta', 'theta-lower': 'theta', 'theta-upper': 'theta', 'theta-add': 'theta-add',
    'omega-init': 'omega', 'omega-fix': 'omega', 'omega-unfix': 'omega', 'sigma-init': 'sigma', 'sigma-fix': 'sigma', 'sigma-unfix': 'sigma',
    'description': 'description', 'name': 'name', 'est-maxeval': 'est', 'est-add': 'est', 'est-remove': 'est', 'cov-add': 'cov', 'cov-remove': 'cov',
    'table-remove-residual': 'table', 'table-remove-prediction': 'table', 'table-add-residual': 'table', 'table-add-prediction': 'table',
    'add-iiv': 'add-iiv', 'remove-iiv': 'remove-iiv', 'add-individual-parameter': 'add-individual-parameter',
}


def check_frame(text, model, edit, corpus=False):
    n_etas = len(model.random_variables.etas.names)
    after_model, edit_label, may, info = apply_edit(model, edit)
    after = after_model.code
    family = FAMILY.get(edit_label, 'assignment' if edit_label.startswith('assignment') else edit_label)
    # clause layout: frame:<family of edit>:<what>:<record kind>  (the precise edit is in the detail and in the classes)
    label = 'frame:' + family
    may = set(may)
    classes = ['edit:' + edit_label]
    if n_etas == 0 and len(after_model.random_variables.etas.names) <= 1:
        may |= {'PRED', 'PK', 'OMEGA'}  # documented DUMMYETA
        classes.append('no_etas')
    if family == 'est':
        # the uncertainty method belongs to the last estimation step: adding/removing a step may change it
        def unc(m):
            steps = [st_ for st_ in m.execution_steps if hasattr(st_, 'parameter_uncertainty_method')]
            return steps[-1].parameter_uncertainty_method if steps else None

        if unc(model) != unc(after_model):
            may.add('COVARIANCE')
            classes.append('uncertainty-method-changed-with-step')
    # Parameter records express the parameters: whatever the edit is called, a record kind counts as unrelated only
    # if the model component it expresses is the same before and after (e.g. remove_iiv also drops unused thetas)
    def comp(m, which):
        rvp = set(m.random_variables.parameter_names)
        if which == 'THETA':
            return [(p.name, p.init, p.lower, p.upper, p.fix) for p in m.parameters if p.name not in rvp]
        sub = m.random_variables.etas if which == 'OMEGA' else m.random_variables.epsilons
        names = set(sub.parameter_names)
        return [repr(sub)] + [(p.name, p.init, p.fix) for p in m.parameters if p.name in names]

    for which in ('THETA', 'OMEGA', 'SIGMA'):
        if which not in may and comp(model, which) != comp(after_model, which):
            may.add(which)
            classes.append(f'{which.lower()}-changed-with-edit')
    try:
        res = None
        if family == 'table':
            # first: known findings about other records ($COVARIANCE is regenerated with every step change) must
            # not hide what happens inside the table
            res = check_table_record(text, after, label, info.get('removed', []), info.get('added', []), model, after_model)
        frame_condition(text, after, may, label)
        if check_code_records(text, after, label):
            classes.append('code-record-checked')
        if family == 'theta':
            own = theta_owner(text, info['theta'])
            if own is not None:
                res = check_param_records(text, after, label, 'THETA', own[0], own[1], one_value=edit_label == 'theta-init')
        elif family in ('omega', 'sigma'):
            own = omega_owner(text, info['which'], info['eta'])
            if own is not None:
                res = check_param_records(text, after, label, info['which'], own, one_value=edit_label.endswith('-init'))
        if res:
            classes.append('param:' + res)
    except Violation as v:
        v.detail = f'[edit {edit_label} {info}] ' + (v.detail or '')
        # Is this the effect of the edit, or does regenerating the *unmodified* model already rewrite the record?
        # (the no-op defects are judged by the noop sub-check; here they get their own clause so that they do not
        # hide what the edits themselves do)
        try:
            with warnings.catch_warnings():
                warnings.simplefilter('ignore')
                noop = model.update_source().code
        except Exception:  # noqa: judged by the noop sub-check
            noop = text
        if noop != text:
            sig, cb, ca = changed_kinds(text, noop, ignore=('PRED', 'PK', 'OMEGA') if n_etas == 0 else ())
            kinds = {k for k, _ in cb + ca}
            parts = v.clause.split(':')
            vkind = parts[2] if len(parts) > 3 and parts[3].startswith('unrelated-record') else None
            if (
                sig.startswith('records-reordered')
                or vkind in kinds
                or (':param:' in v.clause and (kinds & {'THETA', 'OMEGA', 'SIGMA'}))
                or (':code:' in v.clause and (kinds & CODE))
            ):
                if vkind in kinds and not sig.startswith('records-reordered'):
                    nb, na = sum(1 for x in cb if x[0] == vkind), sum(1 for x in ca if x[0] == vkind)
                    sig = f'{vkind}:' + ('changed' if nb == na else ('record-deleted' if nb > na else 'record-added'))
                raise Violation(f'frame:noop-defect:{sig}', observed=v.observed, expected=v.expected, detail='[already rewritten by a no-op update_source] ' + (v.detail or ''))
        raise
    changed = after != text
    if not changed:
        classes.append('edit-left-text-unchanged')
    return changed, classes, after


def _run_frame(spec):
    text, b, used = build_stream(spec, N.SAFE)
    model = read_model(text)
    if model.code != text:
        raise Reject('code after read differs (reported by noop)')
    changed, classes, after = check_frame(text, model, spec.get('edit') or [0, 0, 0])
    nrec = len(S.split_exact(text))
    return CaseInfo(nontrivial=changed and nrec >= 6, classes=tuple(classes) + ('kind:' + b.kind,) + tuple('x:' + u for u in used), render=dict(before=text, after=after), evals=1)


def run_frame(spec):
    return _run_frame(spec)


# --- exhaustive small family: one output table in every two-line (thorough: three-line) layout x every removable column

TL_HEAD = (
    '$PROBLEM table layouts\n$INPUT ID TIME AMT DV\n$DATA data.csv IGNORE=@\n$SUBROUTINES ADVAN1 TRANS2\n$PK\nCL = THETA(1)*EXP(ETA(1))\nV = THETA(2)\nS1 = V\n'
    '$ERROR\nIPRED = F\nY = F + F*EPS(1)\n$THETA (0, 1) ; TVCL\n$THETA (0, 2)\n$OMEGA 0.1\n$SIGMA 0.1\n$ESTIMATION METHOD=1 INTER\n'
)
TL_ITEMS = ['ID', 'TIME', 'DV', 'PRED', 'IPRED', 'CWRES', 'RES', 'WRES', 'NOAPPEND', 'NOPRINT', 'ONEHEADER', 'FILE=sdtab1']
TL_TARGETS = [('rm', 'PRED'), ('rm', 'IPRED'), ('rm', 'CWRES'), ('rm', 'RES'), ('rm', 'WRES'), ('add', 'CIPREDI')]
TL_INDENT = ['', '  ', '\t']
TL_COMMENT = ['', ' ; the key columns', ';c']


def table_layout_text(spec):
    def gi(k, n):
        v = spec.get(k, 0)
        return v % n if isinstance(v, int) and not isinstance(v, bool) else 0

    n = len(TL_ITEMS)
    cuts = sorted({1 + gi('cut', n - 1), 1 + gi('cut2', n - 1)}) if spec.get('cut2') is not None else [1 + gi('cut', n - 1)]
    ind = TL_INDENT[gi('ind', 3)]
    com = gi('com', 9)
    lines = []
    prev = 0
    for j, c in enumerate(cuts + [n]):
        ln = ('$TABLE ' if j == 0 else ind) + ' '.join(TL_ITEMS[prev:c])
        ln += TL_COMMENT[(com // 3 if j else com) % 3] if j < 2 else ''
        lines.append(ln)
        prev = c
    return TL_HEAD + '\n'.join(lines) + '\n', TL_TARGETS[gi('target', len(TL_TARGETS))]


def enum_table_layout(tier):
    n = len(TL_ITEMS)
    for cut in range(n - 1):
        for ind in range(3):
            for com in ((0, 1) if tier == 'quick' else (0, 1, 5)):
                for t in range(len(TL_TARGETS)):
                    yield dict(cut=cut, cut2=None, ind=ind, com=com, target=t)
                    if tier != 'quick':
                        for cut2 in range(cut + 1, n - 1):
                            yield dict(cut=cut, cut2=cut2, ind=ind, com=com, target=t)


def run_table_layout(spec):
    text, (what, target) = table_layout_text(spec)
    model = read_model(text)
    if model.code != text:
        raise Violation('table-layout:code-after-read', observed=model.code, expected=text)
    step = model.execution_steps[-1]
    if what == 'rm':
        is_res = target in step.residuals
        have = list(step.residuals if is_res else step.predictions)
        if target not in have:
            raise HarnessError(f'{target} not among the columns pharmpy reads from {text}')
        edit = [16 if is_res else 17, have.index(target), 0]
    else:
        edit = [19, 1, 0]
    changed, classes, after = check_frame(text, model, edit)
    cuts = 1 if spec.get('cut2') is None else 2
    return CaseInfo(nontrivial=changed, classes=tuple(classes) + (f'lines:{cuts + 1}', 'indent' if spec.get('ind', 0) % 3 else 'no-indent'), render=dict(before=text[len(TL_HEAD):], after=after[len(TL_HEAD):] if after.startswith(TL_HEAD) else after))


FRAME_CORPUS_SPEC = st.fixed_dictionaries(dict(file=st.integers(0, 999), ops=st.lists(N.OP, min_size=0, max_size=3), edit=EDIT))


def _run_frame_corpus(spec):
    name, text = corpus_text(spec.get('file', 0) if isinstance(spec.get('file', 0), int) else 0)
    text = N.apply_ops(text, spec.get('ops') or [], N.SAFE)
    model = read_model(text)
    if model.code != text:
        raise Reject('code after read differs (reported by noop)')
    edit = spec.get('edit') or [0, 0, 0]
    changed, classes, after = check_frame(text, model, edit, corpus=True)
    nrec = len(S.split_exact(text))
    return CaseInfo(nontrivial=changed and nrec >= 6, classes=tuple(classes), render=dict(file=name, edit=edit, after=after), evals=1)


def run_frame_corpus(spec):
    return _run_frame_corpus(spec)


# ------------------------------------------------------------------------------------------
# known-finding predicates / self check

def _pred_des_model(spec):
    """the (unmutated) checked-in model of the spec has a $DES record"""
    name, text = corpus_text(spec.get('file', 0))
    return any(r.kind == 'DES' for r in S.split_exact(text))


def _pred_glued(spec):
    """after the edit of the spec a record is glued to the end of an $OMEGA/$SIGMA line, or pushed to the right by
    blanks that belonged to the removed value (OmegaRecord.remove drops the newline that ended the record)"""
    if 'file' in spec:
        name, text = corpus_text(spec.get('file', 0))
        text = N.apply_ops(text, spec.get('ops') or [], N.SAFE)
    else:
        text, b, used = build_stream(spec, N.SAFE)
    model = read_model(text)
    after = apply_edit(model, spec.get('edit') or [0, 0, 0])[0].code
    before_starts = {ln for ln in S.split_lines(text) if S.record_start(ln) is not None}
    for ln in S.split_lines(after):
        code, _ = S.comment_split(ln)
        if re.match(r'[ \t]*\$(OME|SIG)', code, re.I) and re.search(r'\S[ \t]*\$[A-Za-z]', code[code.index('$') + 1 :]):
            return True
        if S.record_start(ln) is not None and ln[:1] in ' \t' and ln not in before_starts and ln.lstrip(' \t') in {x.lstrip(' \t') for x in before_starts}:
            return True
    return False


def _pred_dvid_model(spec):
    """the checked-in model of the spec selects Y by DVID in its $ERROR record"""
    name, text = corpus_text(spec.get('file', 0))
    return any(r.kind == 'ERROR' and re.search(r'(?i)DVID\s*\.EQ\.', r.text) for r in S.split_exact(text))


def _pred_second_problem(spec):
    return bool((spec.get('x') or {}).get('second_problem'))


KNOWN_PREDICATES = {'second_problem': _pred_second_problem, 'dvid_model': _pred_dvid_model, 'des_model': _pred_des_model, 'record_glued_after_omega_remove': _pred_glued}


def selfcheck():
    # the reference splitter and the unit splitter lose no byte; noise ops are deterministic
    import ast

    for mod in ('nmsplit.py',):
        path = os.path.join(os.path.dirname(os.path.dirname(os.path.abspath(__file__))), 'ref', mod)
        with open(path) as f:
            tree = ast.parse(f.read())
        for node in ast.walk(tree):
            names = []
            if isinstance(node, ast.Import):
                names = [a.name for a in node.names]
            elif isinstance(node, ast.ImportFrom):
                names = [node.module or '']
            if any(n.split('.')[0] == 'pharmpy' for n in names):
                raise HarnessError(f'{mod} imports pharmpy')
    for i in range(0, len(corpus_files()), 7):
        name, text = corpus_text(i)
        for ops in ([], [[i, 3 * i, i], [2 * i + 1, i, 5]], [[2, 0, 0], [9, i, 1]]):
            t = N.apply_ops(text, ops, N.ALL)
            if t != N.apply_ops(text, ops, N.ALL):
                raise HarnessError('noise ops not deterministic')
            recs = S.split_exact(t)
            if ''.join(r.text for r in recs) != t:
                raise HarnessError(f'split_exact loses bytes on {name}')
            for r in recs:
                if r.kind in CODE and ''.join(u.text for u in S.code_units(r.text)) != r.text:
                    raise HarnessError(f'code_units loses bytes on {name}')
    toks, coms = S.value_tokens('$THETA (0,1.5,INF) ; CL\n 2 FIX (1)x2 ; two\n')
    items = S.theta_items(toks)
    if [tuple(i) for i in items] != [(0, 7, 1), (7, 9, 1), (9, 13, 2)] or coms != ['; CL', '; two']:
        raise HarnessError(f'theta_items self-check failed: {toks} {items} {coms}')
    u = S.code_units('$PK ; head\n; c1\nA = 1 & ; x\n  + 2\nIF (A.GT.1) THEN ; open\n ; inner\n B = 2\nEND IF\n"  VERB ; not comment\n\nC=3')
    if [x.type for x in u] != ['head', 'comment', 'stmt', 'stmt', 'verbatim', 'blank', 'stmt']:
        raise HarnessError(f'code_units self-check failed: {[x.type for x in u]}')
    if u[3].comments != ['; open', '; inner'] or u[2].code != 'A=1+2':
        raise HarnessError(f'code_units self-check failed: {u[3]} {u[2]}')


SUBCHECKS = [
    SubCheck('pp_stream', lambda: STREAM_SPEC, run_pp_stream, quick=800, thorough=13760),
    SubCheck('pp_grammar', grammar_strategy, run_pp_grammar, quick=2800, thorough=36720),
    SubCheck('pp_layout', lambda: LAYOUT_SPEC, run_pp_layout, quick=1000, thorough=11480),
    SubCheck('pp_corpus', lambda: CORPUS_SPEC, run_pp_corpus, quick=800, thorough=9180, enumerate=enum_corpus),
    SubCheck('pp_text', lambda: st.fixed_dictionaries(dict(text=st.text(alphabet=st.sampled_from(sorted(set(ALPHABET))), max_size=60))), run_pp_text, quick=400, thorough=4600),
    SubCheck('noop', lambda: STREAM_SPEC, run_noop, quick=320, thorough=3680, quick_time=240, thorough_time=3000),
    SubCheck('noop_corpus', lambda: NOOP_CORPUS_SPEC, run_noop_corpus, quick=64, thorough=720, enumerate=enum_corpus, quick_time=240, thorough_time=3000),
    SubCheck('frame', lambda: FRAME_SPEC, run_frame, quick=520, thorough=6420, quick_time=240, thorough_time=3000),
    SubCheck('table_layout', None, run_table_layout, quick=0, thorough=0, enumerate=enum_table_layout, quick_time=240, thorough_time=3000),
    SubCheck('frame_corpus', lambda: FRAME_CORPUS_SPEC, run_frame_corpus, quick=128, thorough=1480, quick_time=240, thorough_time=3000),
]
