"""C06 -- Models are immutable values; equal means equal; results well formed.

One case = a start model (fresh DataFrame copy shared by two model objects) and a chain of 1-3 calls
f(M, *args) of functions of the API table (pv/api_table.py); every call of the chain is judged:

  mutated-argument:<fn>:<component>     deep snapshot (pv/snap.py) of M -- and of every other model passed to f --
                                        differs after the call (whether f returned or raised)
  mutated-sharing-model:<fn>:<comp>     the second model object holding the same DataFrame changed
  ill-formed-result:<fn>:<what>         a model returned by f: bounds, unique names, undefined symbols,
                                        update_source()/code raising an undocumented error
  eq-hash:<what> / eq-symmetry / eq-transitivity / eq-raises / copy-not-equal / hash-unstable
                                        on models produced along the way (argument, results, result of a second
                                        identical call, result of update_source, replace() copy)
"""

from __future__ import annotations

import atexit
import contextlib
import copy
import functools
import hashlib
import io
import itertools
import os
import shutil
import sys
import warnings

from hypothesis import strategies as st

from .. import api_table, corpus
from ..core import VERIF_DIR, CaseInfo, HarnessError, Reject, SubCheck, Violation, innermost_pharmpy_frame
from ..snap import describe, diff, frame_digest, snapshot

PROPERTY = 'C06'
LEVEL = 'exploration'
RULE = (
    'Case = start model (pv.corpus models plus four checked-in $PRED / joint-omega / $ETAS models) with a fresh '
    'DataFrame copy bound to two model objects, and a chain of 1-3 calls drawn from the API table (213 entries: all '
    'model-taking callables of pharmpy.modeling.__all__ except plots, plus tools helpers, ModelEntry/ModelHash, '
    'update_source/write_files, context round trip); arguments are computed from the current model and the spec '
    'integers (names of parameters/etas/columns/assigned symbols, Literal values of the signature, numeric '
    'ranges, synthetic results). Prior steps come from the model-returning subset. Every call is judged. '
    'Non-trivial = some call of the chain returned a model whose deep snapshot differs from its argument. '
    'Distinct = (start model, chain of function names, digest of the arguments). An enumerated part attempts every '
    'table function on several start models; classes ret:<fn> / chg:<fn> / exc:<fn> record what happened.'
)
ASSUMPTIONS = [
    'the snapshot reads only public properties, to_dict() and to_numpy(); it is taken twice before every call and must '
    'agree with itself (harness error otherwise)',
    'documented refusals of update_source()/code are ValueError, NotImplementedError, ModelError, ModelSyntaxError, DatasetError',
    'numpy/random global generators are re-seeded before every call so that sampling functions are deterministic',
    'plot functions, tool workflows (run_*, fit), tflite based predictions and report rendering are excluded (see api_table.EXCLUDED)',
]

SCRATCH = os.path.join(VERIF_DIR, '.scratch', f'c06_{os.getpid()}')


def _cleanup():
    shutil.rmtree(SCRATCH, ignore_errors=True)
    shutil.rmtree(os.path.join(VERIF_DIR, '.scratch', f'corpus_{os.getpid()}'), ignore_errors=True)


atexit.register(_cleanup)

# ------------------------------------------------------------------------------------------------
# start models

EXTRA = [
    ('minimal_pred', 'minimal.mod'),
    ('linbase_pred', 'pheno_real_linbase.mod'),
    ('pheno_block', 'pheno_block.mod'),
    ('pheno_etas', 'pheno_etas.mod'),
]


@functools.lru_cache(maxsize=None)
def start_names():
    out = ['pheno', 'basic_iv', 'basic_oral']
    for cid, rel in corpus.CANDIDATES:
        if os.path.exists(os.path.join(corpus.TESTDATA, rel)):
            out.append(cid)
    for cid, rel in EXTRA:
        if os.path.exists(os.path.join(corpus.TESTDATA, rel)):
            out.append(cid)
    return tuple(out)


@functools.lru_cache(maxsize=None)
def _base(name):
    with warnings.catch_warnings():
        warnings.simplefilter('ignore')
        for cid, rel in EXTRA:
            if cid == name:
                from pharmpy.modeling import read_model

                return read_model(os.path.join(corpus.TESTDATA, rel))
        return corpus.get(name)


def _forget_models():
    """after a detected mutation the cached start models may be damaged: reload them"""
    _base.cache_clear()
    corpus.get.cache_clear()


def fresh(name):
    """start model with its own DataFrame copy (a mutation of the dataset cannot leak into later cases)"""
    try:
        base = _base(name)
    except Exception as e:
        raise Reject(f'start model {name} does not load: {type(e).__name__}')
    df = base.dataset
    if df is None:
        return base
    with warnings.catch_warnings():
        warnings.simplefilter('ignore')
        return base.replace(dataset=df.copy(), datainfo=base.datainfo)


# ------------------------------------------------------------------------------------------------
# helpers


def _is_model(x):
    from pharmpy.model import Model

    return isinstance(x, Model)


def models_in(x, out=None, depth=0):
    """Model objects reachable in an argument / result structure (bounded)"""
    if out is None:
        out = []
    if depth > 3:
        return out
    if _is_model(x):
        if not any(x is y for y in out):
            out.append(x)
        return out
    from pharmpy.workflows import ModelEntry

    if isinstance(x, ModelEntry):
        models_in(x.model, out, depth + 1)
        if x.parent is not None:
            models_in(x.parent, out, depth + 1)
    elif isinstance(x, (list, tuple)):
        for y in x[:6]:
            models_in(y, out, depth + 1)
    elif isinstance(x, dict):
        for y in list(x.values())[:6]:
            models_in(y, out, depth + 1)
    return out


DOCUMENTED = None


def documented():
    global DOCUMENTED
    if DOCUMENTED is None:
        from pharmpy.internals.fs.path import path_absolute  # noqa: F401  (import check only)
        from pharmpy.model import DatasetError, ModelError, ModelSyntaxError

        DOCUMENTED = (ValueError, NotImplementedError, ModelError, ModelSyntaxError, DatasetError)
    return DOCUMENTED


@contextlib.contextmanager
def quiet():
    with warnings.catch_warnings():
        warnings.simplefilter('ignore')
        buf = io.StringIO()
        with contextlib.redirect_stdout(buf), contextlib.redirect_stderr(buf):
            yield


class CallTimeout(Exception):
    pass


HANG_SECONDS = 240


@contextlib.contextmanager
def watchdog(name):
    """safety net against non-terminating symbolic routines (sympy dsolve/solve, rejection sampling): a call running
    longer than HANG_SECONDS is abandoned and counted as class timeout:<fn> -- the known offenders are excluded by
    domain guards in the API table, so this does not trigger in normal operation"""
    import signal
    import threading

    if threading.current_thread() is not threading.main_thread() or not hasattr(signal, 'SIGALRM'):
        yield
        return

    def handler(signum, frame):
        raise CallTimeout(name)

    old = signal.signal(signal.SIGALRM, handler)
    signal.alarm(HANG_SECONDS)
    try:
        yield
    finally:
        signal.alarm(0)
        signal.signal(signal.SIGALRM, old)


def reseed():
    import random

    import numpy as np

    random.seed(12345)
    np.random.seed(12345)


def take_snapshot(model, what):
    """snapshot twice (independent memos) and require agreement: the observer itself must be stable"""
    m1, m2 = {}, {}
    a = snapshot(model, m1)
    b = snapshot(model, m2)
    if a != b:
        raise HarnessError(f'snapshot of {what} is not stable: {diff(a, b)}')
    return b, m2


class Collector:
    """violations of one case; the one raised is the first that is not a known finding (so that a known
    finding never hides another one), else the first"""

    def __init__(self, spec, sub='api'):
        self.spec = spec
        self.sub = sub
        self.items = []

    def add(self, clause, observed=None, expected=None, detail=''):
        if not any(v.clause == clause for v in self.items):
            self.items.append(Violation(clause, observed=observed, expected=expected, detail=detail))

    def finish(self):
        if not self.items:
            return
        known = _known()
        if known and not _PLAIN[0]:
            from ..run import matches_known

            mod = sys.modules[__name__]
            for v in self.items:
                if not any(matches_known(mod, e, self.sub, self.spec, v.clause) for e in known):
                    raise v
        raise self.items[0]


_PLAIN = [False]  # True while a known-finding predicate re-runs a case (no recursion into known matching)


@functools.lru_cache(maxsize=None)
def _known():
    from ..run import load_known

    try:
        return tuple(load_known(PROPERTY))
    except Exception:
        return ()



# ------------------------------------------------------------------------------------------------
# well-formedness of a returned model


def wellformed(R, fn, col: Collector):
    import math

    import sympy
    from sympy.core.function import AppliedUndef

    from pharmpy.model import Assignment, CompartmentalSystem

    pre = f'ill-formed-result:{fn}'
    # parameters
    names = []
    for p in R.parameters:
        lo, init, up = float(p.lower), float(p.init), float(p.upper)
        names.append(p.name)
        if math.isnan(init) or not (lo <= init <= up):
            col.add(f'{pre}:init-outside-bounds', observed=f'{p.name}: lower={lo} init={init} upper={up}', expected='lower <= init <= upper')
    dup = sorted({n for n in names if names.count(n) > 1})
    if dup:
        col.add(f'{pre}:duplicate-parameter-name', observed=dup)
    rvn = list(R.random_variables.names)
    dup = sorted({n for n in rvn if rvn.count(n) > 1})
    if dup:
        col.add(f'{pre}:duplicate-rv-name', observed=dup)
    # symbols
    defined = set(names) | set(rvn) | set(R.datainfo.names) | {'t', 'NaN'}
    for s in R.random_variables.free_symbols:
        # parameters used in distributions must exist
        if str(s) not in defined:
            col.add(f'{pre}:undefined-symbol:in-distribution', observed=str(s))
            break
    amount_funcs = set()
    ode = R.statements.ode_system
    if ode is not None:
        # pharmpy's convention ($DES-like code): statements may refer to the amounts of the model's ODE system
        for a in ode.amounts:
            amount_funcs.add(str(a._sympy_().func))
    for i, s in enumerate(R.statements):
        if isinstance(s, Assignment):
            e = s.expression._sympy_()
            used = {str(x) for x in e.free_symbols}
            # state variables: undefined functions of t alone, e.g. A_CENTRAL(t); other undefined functions (PHI(..),
            # user functions) are not symbols in the sense of the property
            funcs = [f for f in e.atoms(AppliedUndef) if len(f.args) == 1 and str(f.args[0]) in ('t', '0')]
            bad = sorted(u for u in used if u not in defined)
            for f in funcs:
                if str(f) in defined or str(f.func) in amount_funcs:
                    continue
                bad.append(str(f))
            if bad:
                later = any(isinstance(s2, Assignment) and str(s2.symbol) in bad for s2 in R.statements[i + 1 :])
                what = 'defined-later' if later else 'undefined-symbol'
                col.add(f'{pre}:{what}', observed=f'{bad} in statement {i}: {s.symbol} = {str(s.expression)[:120]}', expected='parameter / rv / column / t / defined by an earlier statement')
                defined.update(bad)  # report once
            sym = s.symbol._sympy_()
            defined.add(str(sym))
            if isinstance(sym, AppliedUndef):  # e.g. A_CENTRAL(t) = ... after solve_ode_system
                amount_funcs.add(str(sym.func))
        elif isinstance(s, CompartmentalSystem):
            cn = list(s.compartment_names)
            dupc = sorted({n for n in cn if cn.count(n) > 1})
            if dupc:
                col.add(f'{pre}:duplicate-compartment-name', observed=dupc)
            used = {str(x) for x in s.rhs_symbols}
            for cname in s.compartment_names:
                cmp_ = s.find_compartment(cname)
                for e in (cmp_.lag_time, cmp_.bioavailability):
                    used |= {str(x) for x in e._sympy_().free_symbols}
                for d in cmp_.doses:
                    used |= {str(x) for x in d.free_symbols}
            bad = sorted(u for u in used if u not in defined)
            if bad:
                col.add(f'{pre}:undefined-symbol:in-odes', observed=f'{bad} in ODE system (statement {i})')
                defined.update(bad)
            for a in s.amounts:
                a_ = a._sympy_()
                defined.add(str(a_))
                amount_funcs.add(str(a_.func))
    # dependent variables must be defined symbols
    for dv in R.dependent_variables:
        if str(dv) not in defined:
            col.add(f'{pre}:undefined-dependent-variable', observed=str(dv))


COMPONENTS = (
    '_parameters', '_random_variables', '_statements', '_dependent_variables', '_observation_transformation',
    '_execution_steps', '_initial_individual_estimates', '_datainfo', '_value_type',
)


def hash_difference(a, b):
    """name of the first hashed component of Model.__hash__ whose hash differs (or raises)"""
    for c in COMPONENTS:
        x, y = getattr(a, c, None), getattr(b, c, None)
        if c == '_initial_individual_estimates':
            # a DataFrame: Model.__hash__ hashes its values; compared here through the snapshot digest
            # (attribution only: the same value hash that Model.__hash__ uses for DataFrames)
            try:
                from pharmpy.internals.df import hash_df_runtime

                dx = hash_df_runtime(x) if x is not None else None
                dy = hash_df_runtime(y) if y is not None else None
            except Exception:
                dx = {k: v for k, v in frame_digest(x, 'iie').items() if k != 'iie-identity'}
                dy = {k: v for k, v in frame_digest(y, 'iie').items() if k != 'iie-identity'}
            if dx != dy:
                return 'initial_individual_estimates'
            continue
        try:
            hx, hy = hash(x), hash(y)
        except Exception:
            return c.strip('_') + ':unhashable'
        if hx != hy:
            if c == '_statements':
                for s1, s2 in zip(x, y):
                    if hash(s1) != hash(s2):
                        return 'statements:' + type(s1).__name__
            return c.strip('_')
    return 'dataset'


def check_pair(a, b, col: Collector, label):
    """-> (a == b) or None when the comparison itself failed"""
    try:
        with quiet():
            e1 = a == b
            e2 = b == a
    except Exception as e:
        col.add(f'eq-raises:{type(e).__name__}@{innermost_pharmpy_frame(e)}', detail=f'{label}: {e}')
        return None
    if bool(e1) != bool(e2):
        col.add('eq-symmetry', observed=(e1, e2), detail=label)
    if e1 is True:
        try:
            ha, hb = hash(a), hash(b)
        except Exception as e:
            col.add(f'eq-hash:hash-raises:{type(e).__name__}', detail=f'{label}: {str(e)[:200]}')
            return True
        if ha != hb:
            col.add(f'eq-hash:{hash_difference(a, b)}', observed='a == b and hash(a) != hash(b)', detail=label)
    return bool(e1)


def check_value_semantics(R, fn, col: Collector):
    try:
        with quiet():
            if not (R == R):
                col.add('eq-reflexive', detail=fn)
            c1 = copy.deepcopy(R)
            c2 = copy.copy(R)
            if not (c1 == R) or not (c2 == R):
                col.add('copy-not-equal', detail=fn)
    except Exception as e:
        col.add(f'eq-raises:{type(e).__name__}@{innermost_pharmpy_frame(e)}', detail=f'{fn}: {e}')
        return
    try:
        h1 = hash(R)
        h2 = hash(R)
    except Exception as e:
        col.add(f'eq-hash:hash-raises:{type(e).__name__}', detail=f'hash(result of {fn}): {str(e)[:200]}')
        return
    if h1 != h2:
        col.add('hash-unstable', detail=fn)
    # a distinct object with the very same components
    try:
        with quiet():
            twin = R.replace(name=R.name)
    except Exception:
        return
    check_pair(R, twin, col, f'{fn}: result and result.replace(name=same)')


# ------------------------------------------------------------------------------------------------
# one judged call


class Step:
    def __init__(self):
        self.returned = False
        self.changed = False
        self.exc = None
        self.results = []
        self.kw = ''
        self.pairs = []
        self.timeout = False
        self.code_refused = False
        self.notes = []


def judged_call(M, name, ints, twice, col: Collector, evals, mode='api'):
    """call table function `name` on M with arguments from ints; judge; -> Step"""
    stp = Step()
    with quiet():
        sharer = M.replace(name='other') if M.dataset is not None else None
    try:
        with quiet():
            entry, kwargs = api_table.build(name, M, ints, SCRATCH)
    except HarnessError:
        raise
    except Exception as e:
        if innermost_pharmpy_frame(e) == 'outside-pharmpy':
            raise
        stp.exc = 'argument-construction:' + type(e).__name__
        return stp
    fn = entry.resolve()
    stp.notes = list(api_table.LAST_NOTES)
    if entry.domain is not None:
        why = entry.domain(M)
        if why:
            stp.exc = 'outside-domain'
            return stp
    stp.kw = _short(kwargs)
    others = [x for x in models_in(list(kwargs.values())) if x is not M]

    judge = mode == 'api'
    if judge:
        s0, memo0 = take_snapshot(M, f'argument of {name}')
        so = [snapshot(x, memo0) for x in others]
        ss0 = snapshot(sharer, memo0) if sharer is not None else None
    else:
        s0 = snapshot(M, {}, code=False)

    def call():
        reseed()
        with quiet(), watchdog(name):
            r = fn(M, **kwargs)
            if entry.consume:
                r = list(itertools.islice(iter(r), entry.consume))
        return r

    result = None
    try:
        result = call()
        stp.returned = True
    except CallTimeout:
        stp.exc = 'timeout'
        stp.timeout = True
    except Exception as e:  # anything: refusals and internal errors are not C06's business
        stp.exc = type(e).__name__
    evals[0] += 1

    how = 'returned' if stp.returned else f'raised {stp.exc}'
    mutated = False
    if judge:
        mutated = _judge_mutation(M, name, stp, how, s0, others, so, sharer, ss0, col)
    if not stp.returned:
        return stp
    res_models = [r for r in models_in(result) if r is not M and not any(r is o for o in others)]
    stp.results = res_models
    k0 = s0.key()
    if judge:
        _judge_results(M, name, stp, res_models, k0, col, evals)
    else:
        _judge_values(M, name, stp, res_models, k0, call, twice, col, evals)
    return stp


def _judge_mutation(M, name, stp, how, s0, others, so, sharer, ss0, col):
    memo1 = {}
    s1 = snapshot(M, memo1)
    d = diff(s0, s1)
    mutated = False
    if d:
        mutated = True
        b, a = describe(s0, s1, d[0])
        col.add(f'mutated-argument:{name}:{d[0]}', observed=_short(a, 300), expected=_short(b, 300), detail=f'{name}({stp.kw}) {how}; changed components of the argument: {d}')
    for x, sx0 in zip(others, so):
        dx = diff(sx0, snapshot(x, memo1))
        if dx:
            mutated = True
            col.add(f'mutated-argument:{name}:other-model:{dx[0]}', detail=f'{name}({stp.kw}) {how}; model passed as further argument changed: {dx}')
    if sharer is not None:
        ds = diff(ss0, snapshot(sharer, memo1))
        if ds and not d:
            mutated = True
            col.add(f'mutated-sharing-model:{name}:{ds[0]}', detail=f'{name}({stp.kw}) {how}; the model sharing the DataFrame changed: {ds}')
    if mutated:
        _forget_models()
    return mutated


def _judge_results(M, name, stp, res_models, k0, col, evals):
    for j, R in enumerate(res_models[:2]):
        sr, memor = take_snapshot(R, f'result of {name}')
        if sr.key() != k0:
            stp.changed = True
        wellformed(R, name, col)
        # generated code
        U = None
        try:
            with quiet(), watchdog('update_source'):
                U = R.update_source()
                code = U.code
            if not isinstance(code, str):
                col.add(f'ill-formed-result:{name}:code:not-a-string', observed=type(code).__name__)
        except documented():
            stp.code_refused = True
        except CallTimeout:
            stp.timeout = True
        except Exception as e:
            where = innermost_pharmpy_frame(e)
            if where == 'outside-pharmpy':
                raise
            col.add(f'ill-formed-result:{name}:code:{type(e).__name__}@{where}', detail=f'update_source().code of the result of {name}({stp.kw}): {type(e).__name__}: {str(e)[:300]}')
        evals[0] += 1
        if name != 'Model.update_source':
            sr1 = snapshot(R, {})
            du = diff(sr, sr1)
            if du:
                b, a = describe(sr, sr1, du[0])
                col.add(f'mutated-argument:Model.update_source:{du[0]}', observed=_short(a, 300), expected=_short(b, 300), detail=f'update_source() on the result of {name}({stp.kw}) changed its argument: {du}')
                _forget_models()


def _judge_values(M, name, stp, res_models, k0, call, twice, col, evals):
    second = None
    if twice and res_models:
        try:
            second = [r for r in models_in(call()) if r is not M]
        except Exception:
            second = None
        evals[0] += 1
    for j, R in enumerate(res_models[:2]):
        if snapshot(R, {}, code=False).key() != k0:
            stp.changed = True
        check_value_semantics(R, name, col)
        eq_mr = check_pair(M, R, col, f'argument and result of {name}({stp.kw})')
        stp.pairs.append(('arg-result', eq_mr))
        U = None
        try:
            with quiet():
                U = R.update_source()
        except Exception:
            U = None
        if U is not None and U is not R:
            stp.pairs.append(('result-updated', check_pair(R, U, col, f'result of {name} and its update_source()')))
        if second and j < len(second):
            R2 = second[j]
            eq_rr = check_pair(R, R2, col, f'results of two identical calls {name}({stp.kw})')
            stp.pairs.append(('two-calls', eq_rr))
            if eq_mr and eq_rr:
                with quiet():
                    try:
                        if not (M == R2):
                            col.add('eq-transitivity', detail=f'M == R and R == R2 but not M == R2 for {name}({stp.kw})')
                    except Exception:
                        pass


def plain_call(M, name, ints):
    """table function `name` on M with arguments from ints, no judging -> first returned model other than M, or None"""
    try:
        with quiet():
            entry, kwargs = api_table.build(name, M, ints, SCRATCH)
    except HarnessError:
        raise
    except Exception as e:
        if innermost_pharmpy_frame(e) == 'outside-pharmpy':
            raise
        return None, ''
    if entry.domain is not None and entry.domain(M):
        return None, ''
    fn = entry.resolve()
    try:
        reseed()
        with quiet(), watchdog(name):
            r = fn(M, **kwargs)
            if entry.consume:
                r = list(itertools.islice(iter(r), entry.consume))
    except Exception:
        return None, _short(kwargs)
    ms = [x for x in models_in(r) if x is not M]
    return (ms[0] if ms else None), _short(kwargs)


HASHED_COMPONENTS = ('parameters', 'random_variables', 'statements', 'execution_steps', 'datainfo', 'dependent_variables', 'observation_transformation')


def commuting_histories(M, n1, i1, n2, i2, col: Collector, evals):
    """A = f2(f1(M)), B = f1(f2(M)) with the same argument integers.  Whenever A == B (or a component of A equals the
    same component of B: parameters, random variables, statements, the ODE system, single statements, ...) the hashes
    must agree: equal values reached through different histories differ in construction order, which == ignores.
    -> (A == B or None, [names of equal components]) or None when one of the histories does not produce a model"""
    if n1 == n2:
        return None
    a1, kw1 = plain_call(M, n1, i1)
    if a1 is None:
        return None
    A, kw2 = plain_call(a1, n2, i2)
    b1, kw2b = plain_call(M, n2, i2)
    evals[0] += 3
    if A is None or b1 is None:
        return None
    B, kw1b = plain_call(b1, n1, i1)
    evals[0] += 1
    if B is None:
        return None
    label = f'{n2}({kw2}) after {n1}({kw1})  versus  {n1}({kw1b}) after {n2}({kw2b})'
    eq = check_pair(A, B, col, 'commuting histories: ' + label)
    equal_components = []

    def comp_pair(x, y, what):
        try:
            with quiet():
                e = x == y
        except Exception as ex:
            col.add(f'eq-raises:{type(ex).__name__}@{innermost_pharmpy_frame(ex)}', detail=f'{what}: {label}')
            return
        if e is True:
            equal_components.append(what.split('[')[0])
            try:
                hx, hy = hash(x), hash(y)
            except Exception as ex:
                col.add(f'eq-hash:component:{what.split("[")[0]}:hash-raises:{type(ex).__name__}', detail=label)
                return
            if hx != hy:
                col.add(f'eq-hash:component:{what.split("[")[0]}', observed='x == y and hash(x) != hash(y)', detail=f'{what} of the results of commuting histories: {label}')

    for c in HASHED_COMPONENTS:
        comp_pair(getattr(A, c), getattr(B, c), c)
    oa, ob = A.statements.ode_system, B.statements.ode_system
    if oa is not None and ob is not None:
        comp_pair(oa, ob, 'ode_system')
        # compartments by name
        for cn in oa.compartment_names:
            ca, cb_ = oa.find_compartment(cn), ob.find_compartment(cn)
            if ca is not None and cb_ is not None:
                comp_pair(ca, cb_, f'compartment[{cn}]')
    if len(A.statements) == len(B.statements):
        for k, (sa, sb) in enumerate(zip(A.statements, B.statements)):
            comp_pair(sa, sb, f'statement:{type(sa).__name__}[{k}]')
    for pa in A.parameters:
        if pa.name in B.parameters.names:
            comp_pair(pa, B.parameters[pa.name], f'parameter[{pa.name}]')
    for da, db in zip(A.random_variables, B.random_variables):
        comp_pair(da, db, f'distribution[{",".join(da.names)}]')
    for ca, cb_ in zip(A.datainfo, B.datainfo):
        comp_pair(ca, cb_, f'columninfo[{ca.name}]')
    return eq, sorted(set(equal_components))


def _short(x, n=160):
    s = repr(x) if not isinstance(x, str) else x
    s = ' '.join(s.split())
    return s if len(s) <= n else s[: n - 3] + '...'


# ------------------------------------------------------------------------------------------------
# run


def _start_of(spec):
    """start model of a spec: index (generated specs) or name (hand-written known / regress specs)"""
    starts = start_names()
    m = spec.get('m', 0)
    if isinstance(m, str):
        return m if m in starts else starts[0]
    return starts[int(m) % len(starts)] if isinstance(m, (int, float)) else starts[0]


def _fn_of(x, pool):
    """table function of a step: index into the pool (generated specs) or its name"""
    if isinstance(x, str):
        return x if x in api_table.TABLE else pool[0]
    return pool[abs(int(x)) % len(pool)] if isinstance(x, (int, float)) else pool[0]


def run_api(spec):
    return _run(spec, 'api')


def run_eq(spec):
    return _run(spec, 'eqhash')


def _run(spec, mode):
    names = api_table.names()
    tnames = api_table.transform_names()
    starts = start_names()
    start = _start_of(spec)
    steps = [s for s in (spec.get('steps') or []) if isinstance(s, list) and len(s) >= 2][:3]
    if not steps:
        raise Reject('no steps')
    twice = bool(spec.get('twice'))
    M = fresh(start)
    col = Collector(spec, mode)
    evals = [0]
    classes = []
    chain = []
    nontrivial = False
    npairs = 0
    argdig = hashlib.sha256()
    for i, stpec in enumerate(steps):
        last = i == len(steps) - 1
        pool = names if last else tnames
        name = _fn_of(stpec[0], pool)
        ints = stpec[1] if isinstance(stpec[1], list) else []
        stp = judged_call(M, name, ints, twice or mode == 'eqhash', col, evals, mode)
        chain.append(f'{name}({stp.kw})' + ('' if stp.returned else f' !{stp.exc}'))
        argdig.update(stp.kw.encode())
        for note in stp.notes:
            classes.append(note + (':returned' if stp.returned else ':refused'))
        if stp.returned:
            classes.append(f'ret:{name}')
            if stp.code_refused:
                classes.append('code-refused-with-documented-error')
            if stp.changed:
                classes.append(f'chg:{name}')
                if mode == 'api':
                    nontrivial = True
            for kind, eq in stp.pairs:
                classes.append(f'pair:{kind}:' + {True: 'equal', False: 'unequal', None: 'failed'}[eq])
                if eq:
                    nontrivial = True  # the implication a == b => hash(a) == hash(b) was not vacuous
        else:
            classes.append(f'exc:{name}')
            if stp.timeout:
                classes.append(f'timeout:{name}')
        if col.items:
            break
        if stp.results:
            M = stp.results[0]
    if mode == 'eqhash' and len(steps) >= 2:
        n1, n2 = _fn_of(steps[0][0], tnames), _fn_of(steps[1][0], tnames if len(steps) > 2 else names)
        i1 = steps[0][1] if isinstance(steps[0][1], list) else []
        i2 = steps[1][1] if isinstance(steps[1][1], list) else []
        res = commuting_histories(fresh(start), n1, i1, n2, i2, col, evals)
        if res is not None:
            classes.append('pair:commuted:' + {True: 'equal', False: 'unequal', None: 'failed'}[res[0]])
            for comp in res[1]:
                classes.append(f'commuted-component-equal:{comp}')
            if res[0] or res[1]:
                nontrivial = True
    if os.path.isdir(SCRATCH):  # files written by write_model / write_csv / write_files / context round trip
        shutil.rmtree(SCRATCH, ignore_errors=True)
    col.finish()
    classes.append(f'start:{start}')
    classes.append(f'chain-length:{len(chain)}')
    key = f'{start}|' + '>'.join(c.split('(')[0] for c in chain) + '|' + argdig.hexdigest()[:10]
    return CaseInfo(nontrivial=nontrivial, classes=tuple(classes), key=key, render=dict(start=start, chain=chain), evals=max(1, evals[0]))


INTS = st.lists(st.integers(0, 60), min_size=8, max_size=8)
STEP = st.tuples(st.integers(0, 999), INTS).map(list)
SPEC = st.fixed_dictionaries(dict(m=st.integers(0, 63), steps=st.lists(STEP, min_size=1, max_size=3), twice=st.booleans()))


def _lcg(seed, n):
    x = (seed * 2654435761 + 12345) % (2**32)
    out = []
    for _ in range(n):
        x = (x * 1103515245 + 12345) % (2**31)
        out.append((x >> 8) % 61)
    return out


def enumerate_api(tier):
    """every table function on several start models with several argument draws (no prior steps)"""
    names = api_table.names()
    nstart = len(start_names())
    reps = 5 if tier == 'quick' else 40
    tnames = api_table.transform_names()
    for j in range(reps):
        for fi, n in enumerate(names):
            m = (fi * 5 + j * 7 + j // nstart) % nstart
            steps = [[fi, _lcg(fi * 1000 + j, 8)]]
            pref = api_table.PREFER.get(n)
            if pref and j % 5 < 3:  # three draws out of five where the function has something to do
                if 'starts' in pref:
                    m = pref['starts'][j % len(pref['starts'])]
                if 'pre' in pref:
                    steps = [[tnames.index(pref['pre']), _lcg(fi * 1000 + j + 500, 8)]] + steps
            yield dict(m=m, steps=steps, twice=(j % 2 == 0))
    # names of new random variables colliding with members of a block: create_joint_distribution first
    creps = 6 if tier == 'quick' else 60
    k = 0
    for fn in api_table.COLLISION_FUNCS:
        for st in api_table.COLLISION_STARTS:
            if st not in start_names():
                continue
            for j in range(creps):
                k += 1
                pre = [['create_joint_distribution', _lcg(k * 3 + 1, 8)]] if (j % 3 or st == 'pheno_block') else []
                yield dict(m=st, steps=pre + [[fn, _lcg(k * 11 + j, 8)]], twice=False)
    yield from _enumerate_covariate_effects(tier)


def _enumerate_covariate_effects(tier):
    """add_covariate_effect on every start model with many argument draws: the bounds and initial estimates of
    the new parameters depend on the DATA (range of the covariate), so the well-formedness of the result has to
    be looked at for covariates of every scale and for every effect type"""
    reps = 12 if tier == 'quick' else 80
    for mi, st in enumerate(start_names()):
        for j in range(reps):
            yield dict(m=st, steps=[['add_covariate_effect', _lcg(7000 + 13 * j + 101 * mi, 8)]], twice=False)


def enumerate_eq(tier):
    names = api_table.transform_names()
    allnames = api_table.names()
    nstart = len(start_names())
    reps = 2 if tier == 'quick' else 12
    for j in range(reps):
        for ti, n in enumerate(names):
            fi = allnames.index(n)
            yield dict(m=(ti * 3 + j * 5) % nstart, steps=[[fi, _lcg(fi * 1000 + j + 77, 8)]], twice=True)
    # commuting histories: pairs of transformations that act on different parts of a model, in both orders
    starts = [s for s in COMMUTE_STARTS if s in start_names()]
    k = 0
    for a in range(len(COMMUTING)):
        for b in range(a + 1, len(COMMUTING)):
            if COMMUTING[a] not in api_table.TABLE or COMMUTING[b] not in api_table.TABLE:
                continue
            k += 1
            # quick: every pair of structural transformations and a fixed spread of the others, thorough: all pairs
            if tier == 'quick' and not (b < N_STRUCTURAL or k % 13 == 0):
                continue
            for r in range(1 if tier == 'quick' else len(starts)):
                st = starts[(k + r) % len(starts)]
                yield dict(m=st, steps=[[COMMUTING[a], _lcg(k * 31 + r, 8)], [COMMUTING[b], _lcg(k * 17 + r + 5, 8)]], twice=False)


COMMUTE_STARTS = ('pheno', 'basic_oral', 'mox2', 'pheno_block', 'basic_iv', 'pheno_real', 'mox_2comp')
N_STRUCTURAL = 10
COMMUTING = (
    # structural (ODE system built in a different order)
    'add_peripheral_compartment', 'set_first_order_absorption', 'set_zero_order_absorption', 'add_lag_time', 'set_transit_compartments',
    'set_michaelis_menten_elimination', 'add_bioavailability', 'set_zero_order_input', 'set_initial_condition', 'add_effect_compartment',
    # parameters / random effects / error model / steps / data
    'fix_parameters', 'set_initial_estimates', 'set_upper_bounds', 'add_population_parameter', 'add_individual_parameter',
    'add_iiv', 'remove_iiv', 'create_joint_distribution', 'transform_etas_boxcox', 'add_covariate_effect', 'add_allometry',
    'set_proportional_error_model', 'set_combined_error_model', 'set_iiv_on_ruv',
    'add_estimation_step', 'set_evaluation_step', 'add_predictions', 'set_ode_solver', 'add_parameter_uncertainty_step',
    'drop_columns', 'set_covariates', 'add_time_after_dose', 'set_reference_values', 'filter_dataset', 'set_name', 'set_description',
)


# soft per-shard time guard of the quick tier (seconds); raise it on an overloaded machine to run every case
_QT = float(os.environ.get('C06_QUICK_TIME', '100') or 100)

SUBCHECKS = [
    SubCheck('api', lambda: SPEC, run_api, quick=1000, thorough=10880, enumerate=enumerate_api, quick_time=_QT, thorough_time=1100.0),
    SubCheck('eqhash', lambda: SPEC, run_eq, quick=250, thorough=2260, enumerate=enumerate_eq, quick_time=_QT, thorough_time=1100.0),
]

def chain_names(spec):
    """function names of the chain of a spec (pure function of the spec)"""
    names = api_table.names()
    tnames = api_table.transform_names()
    steps = [s for s in (spec.get('steps') or []) if isinstance(s, list) and len(s) >= 2][:3]
    out = []
    for i, stp in enumerate(steps):
        pool = names if i == len(steps) - 1 else tnames
        out.append(_fn_of(stp[0], pool))
    return out


def _via_nonmem_add_cmt(spec):
    """the mutation disappears when pharmpy.model.external.nonmem.update._add_cmt works on a copy of the dataset
    (attribution by ablation: the in-place column assignment happens inside update_source(), whichever modeling
    function called it)"""
    import pharmpy.model.external.nonmem.update as upd

    orig = upd._add_cmt

    def patched(model):
        return orig(model.replace(dataset=model.dataset.copy(), datainfo=model.datainfo))

    upd._add_cmt = patched
    old_plain = _PLAIN[0]
    _PLAIN[0] = True
    try:
        try:
            _run(spec, 'api')
        except Violation as v:
            return not v.clause.startswith('mutated-')
        except Reject:
            return False
        return True
    finally:
        upd._add_cmt = orig
        _PLAIN[0] = old_plain


def _via_nonmem_ratio_constant_subs(spec):
    """a duplicate-compartment-name violation that disappears when nonmem/update.py:add_parameters_ratio does not
    substitute a constant numerator/denominator in the ODE system and re-reads its compartments after subs
    (attribution by ablation: the duplication happens inside update_source(), whichever function called it)"""
    import pharmpy.model.external.nonmem.update as upd
    from pharmpy.basic import Expr
    from pharmpy.model import Assignment, CompartmentalSystem, CompartmentalSystemBuilder, Statements, output

    orig = upd.add_parameters_ratio

    def patched(model, numpar, denompar, source, dest):
        statements = model.statements
        if not statements.find_assignment(numpar) or not statements.find_assignment(denompar):
            odes = upd.get_odes(model)
            rate = odes.get_flow(source, dest)
            numer, denom = rate.as_numer_denom()
            par1 = Assignment.create(Expr.symbol(numpar), numer)
            par2 = Assignment.create(Expr.symbol(denompar), denom)
            new1, new2 = Statements(), Statements()
            if rate != par1.symbol / par2.symbol:
                if not statements.find_assignment(numpar):
                    if not numer.is_number():
                        odes = odes.subs({numer: Expr.symbol(numpar)})
                    new1 = par1
                if not statements.find_assignment(denompar):
                    if not denom.is_number():
                        odes = odes.subs({denom: Expr.symbol(denompar)})
                    new2 = par2
                if source != output:
                    source = odes.find_compartment(source.name)
                if dest != output:
                    dest = odes.find_compartment(dest.name)
            cb = CompartmentalSystemBuilder(odes)
            cb.add_flow(source, dest, par1.symbol / par2.symbol)
            model = model.replace(statements=statements.before_odes + new1 + new2 + CompartmentalSystem(cb) + statements.after_odes)
        return model

    old_plain = _PLAIN[0]
    _PLAIN[0] = True
    try:
        try:
            _run(spec, 'api')
            return False
        except Violation as v:
            if 'duplicate-compartment-name' not in v.clause:
                return False
        except Reject:
            return False
        upd.add_parameters_ratio = patched
        try:
            _run(spec, 'api')
        except Violation as v:
            return 'duplicate-compartment-name' not in v.clause
        except Reject:
            return False
        return True
    finally:
        upd.add_parameters_ratio = orig
        _PLAIN[0] = old_plain


class _ChainHas(dict):
    """'chain_has:<fn>' -> predicate: the chain of the spec contains table function <fn>"""

    def get(self, key, default=None):
        if key == 'via_nonmem_add_cmt':
            return _via_nonmem_add_cmt
        if key == 'via_nonmem_ratio_constant_subs':
            return _via_nonmem_ratio_constant_subs
        if key == 'chain_adds_dv':
            dv_fns = {'add_indirect_effect', 'add_effect_compartment', 'set_direct_effect', 'add_metabolite', 'set_tmdd', 'set_baseline_effect'}
            return lambda spec: bool(dv_fns & set(chain_names(spec)))
        if isinstance(key, str) and key.startswith('chain_has:'):
            fn = key[len('chain_has:'):]
            return lambda spec, _fn=fn: _fn in chain_names(spec)
        return default


KNOWN_PREDICATES = _ChainHas()


# ------------------------------------------------------------------------------------------------
# self check and coverage summary


def selfcheck():
    n = api_table.check_complete()
    if n < 200:
        raise HarnessError(f'API table has only {n} entries')
    import numpy as np

    # the observer: sees an in-place column assignment, a changed value, a dtype change, a NaN change,
    # a rebinding; does not react to a mere copy
    M = fresh('pheno')
    s0, _ = take_snapshot(M, 'pheno')
    if snapshot(_base('pheno')).key() != s0.key():
        raise HarnessError('fresh() changes the content of the start model')
    twin = M.replace(name='other')
    if twin.dataset is not M.dataset:
        raise HarnessError('replace(name=) does not share the DataFrame any more: aliasing part of the oracle is vacuous')
    df = M.dataset
    df['ZZ'] = 1.0
    if 'dataset-columns' not in diff(s0, snapshot(M)) or 'dataset-columns' not in diff(snapshot(twin.replace(name=M.name)), s0):
        raise HarnessError('snapshot misses an added column')
    del df['ZZ']
    if diff(s0, snapshot(M)):
        raise HarnessError(f'snapshot differs after restoring: {diff(s0, snapshot(M))}')
    col0 = df.columns[3]
    old = df.iloc[5, 3]
    df.iloc[5, 3] = np.nan if old == old else 1.0
    if diff(s0, snapshot(M)) != ['dataset-values']:
        raise HarnessError(f'snapshot misses a changed cell: {diff(s0, snapshot(M))}')
    df.iloc[5, 3] = old
    if diff(s0, snapshot(M)):
        raise HarnessError('snapshot differs after restoring a cell')
    _ = col0
    M2 = M.replace(dataset=df.copy(), datainfo=M.datainfo)
    if diff(s0, snapshot(M2)) != ['dataset-identity']:
        raise HarnessError(f'copy of the dataset shows as {diff(s0, snapshot(M2))}')
    # well-formedness walker accepts the start models and a solved ODE model
    from pharmpy.modeling import solve_ode_system

    for nm in ('pheno', 'basic_oral', 'minimal_pred'):
        c = Collector({})
        wellformed(_base(nm), 'selfcheck', c)
        if c.items:
            raise HarnessError(f'well-formedness walker rejects start model {nm}: {c.items[0].clause} {c.items[0].observed}')
    c = Collector({})
    with quiet():
        wellformed(solve_ode_system(_base('pheno')), 'selfcheck', c)
    if c.items:
        raise HarnessError(f'well-formedness walker rejects solve_ode_system(pheno): {c.items[0].clause} {c.items[0].observed}')
    # and sees an undefined symbol / a bound violation when the objects are built behind the validation
    from pharmpy.basic import Expr
    from pharmpy.model import Assignment, Parameter

    base = _base('pheno')
    bad = copy.copy(base)
    bad = base.replace(name='x')
    object.__setattr__(bad, '_statements', base.statements + Assignment(Expr.symbol('QQ'), Expr.symbol('UNDEFINED_SYMBOL')))
    c = Collector({})
    wellformed(bad, 'selfcheck', c)
    if not any('undefined-symbol' in v.clause for v in c.items):
        raise HarnessError('well-formedness walker misses an undefined symbol')
    p = Parameter('PX', 1.0)
    object.__setattr__(p, '_lower', 2.0)
    bad = base.replace(name='x')
    object.__setattr__(bad, '_parameters', base.parameters + p)
    c = Collector({})
    wellformed(bad, 'selfcheck', c)
    if not any('init-outside-bounds' in v.clause for v in c.items):
        raise HarnessError('well-formedness walker misses init outside bounds')
    _forget_models()


def extra_coverage(results):
    names = api_table.names()
    ret, chg, exc = {}, {}, {}
    for r in results:
        for k, v in (r.get('classes') or {}).items():
            for pre, d in (('ret:', ret), ('chg:', chg), ('exc:', exc)):
                if k.startswith(pre):
                    d[k[len(pre):]] = d.get(k[len(pre):], 0) + v
    tn = set(api_table.transform_names())
    attempted = {n: ret.get(n, 0) + exc.get(n, 0) for n in names}
    return dict(
        api_table=dict(
            entries=len(names),
            returned_at_least_once=sum(1 for n in names if ret.get(n)),
            never_returned=sorted(n for n in names if not ret.get(n)),
            model_returning_entries=len(tn),
            changed_model_at_least_once=sum(1 for n in tn if chg.get(n)),
            never_returned_changed_model=sorted(n for n in tn if not chg.get(n)),
            min_attempts=min(attempted.values()) if attempted else 0,
            fewer_than_3_attempts=sorted(n for n, v in attempted.items() if v < 3),
            excluded=api_table.EXCLUDED,
        )
    )
