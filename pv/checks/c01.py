"""C01 -- Reading a NONMEM model preserves its meaning (NM-TRAN -> model IR).

Generated control streams (pv.gen.gen_nm / gen_layout) are given a meaning by the reference
NM-TRAN interpreter (pv.ref.nmtran, parsing the *text*) and compared with the numeric
semantics (pv.irsem) of the model pharmpy reads from the same text.
"""

from __future__ import annotations

import math

from hypothesis import strategies as st

from ..core import CaseInfo, HarnessError, Reject, SubCheck, Violation, guard
from ..gen import gen_layout as GL
from ..gen import gen_nm as G
from ..irsem import EvalError, Undefined, close, ev
from ..ref import nmtran as R

PROPERTY = 'C01'
LEVEL = 'exploration'
RULE = (
    'Control streams generated from a grammar of NM-TRAN ($PRED, or $PK/$ERROR with ADVAN1-4,10-12 and their TRANS, '
    'abbreviated code of <=14 statements with assignments, logical IF, IF/ELSEIF/ELSE blocks, reassignment, intrinsic and '
    'protected functions, both operator spellings, Fortran number forms; $THETA/$OMEGA/$SIGMA in the documented layouts) with '
    'layout noise; variables are only read where definitely assigned. Non-trivial = program has a reassignment, an IF without '
    'ELSE on a previously assigned symbol, a block IF assigning >=2 symbols, a function call, a non-default ADVAN/TRANS, or a '
    'parameter record with repeat/FIX-inside/SD/CORR/CHOLESKY/SAME. Distinct = hash of the resolved program text.'
)
ASSUMPTIONS = [
    'the reference interpreter (pv/ref/nmtran.py) is my reading of the NONMEM guides; its parser is self-checked against the generator AST on every case',
    'numeric comparison at sampled inputs (rtol 1e-9), inputs resampled away from branch points',
    'models are read without a dataset ($DATA file absent): dataset-dependent dosing/observation routing (CMT/RATE columns) is not exercised here',
]

# ------------------------------------------------------------------------------------------
# spec strategy

SPEC_COMMON = dict(
    thetas=GL.THETA_LAYOUT,
    omegas=GL.OMEGA_LAYOUT,
    sigmas=st.lists(GL.OMEGA_ITEM, min_size=1, max_size=2),
    ncov=st.integers(0, 3),
    feat=G.FEATURES,
    noise=G.NOISE,
    vals=st.lists(st.integers(1, 60), min_size=24, max_size=24),
    yform=st.integers(0, 5),
)

PRED_SPEC = st.fixed_dictionaries(dict(kind=st.just('pred'), body=G.code_strategy(8), **SPEC_COMMON))
ADVAN_SPEC = st.fixed_dictionaries(
    dict(
        kind=st.just('advan'),
        advan=st.integers(0, 6),
        trans=st.integers(0, 4),
        pk=G.code_strategy(5),
        body=G.code_strategy(4),
        pkform=st.lists(st.integers(0, 5), min_size=8, max_size=8),
        scale=st.integers(0, 3),
        alag=st.booleans(),
        bio=st.booleans(),
        a_in_error=st.booleans(),
        **SPEC_COMMON,
    )
)

ADVANS = [1, 2, 3, 4, 10, 11, 12]


# ------------------------------------------------------------------------------------------
# building the control stream


class Built:
    pass


def build(spec) -> Built:
    b = Built()
    feat = spec['feat']
    noise = spec['noise']
    # parameter records
    th_recs, th_exp = GL.render_thetas(spec['thetas'])
    om_recs, om_mean, neta = GL.render_omegas(spec['omegas'], 'OMEGA', max_total=4, values_ok=bool(feat.get('omega_values')))
    sg_layout = [dict(it, kind=it['kind'] % 8 if it['kind'] % 10 < 8 else 0) for it in spec['sigmas']]
    sg_recs, sg_mean, neps = GL.render_omegas(sg_layout, 'SIGMA', max_total=2)
    if neps == 0:
        sg_recs, sg_mean, neps = ['$SIGMA 0.1\n'], [dict(kind='diag', size=1, diag=[0.1], fix=[False])], 1
    nth = len(th_exp)
    b.th_exp, b.om_mean, b.sg_mean = th_exp, om_mean, sg_mean
    b.nth, b.neta, b.neps = nth, neta, neps
    covs = G.COVS[: spec['ncov'] % 4]
    b.kind = 'pred' if spec['kind'] == 'pred' else 'advan'
    p = G.Printer(noise)
    lines = []
    prob = '$PROBLEM generated model'
    if b.kind == 'pred':
        cols = ['ID', 'TIME'] + covs + ['DV']
        ctx = G.Ctx(nth, neta, neps, ['TIME'] + covs, feat)
        defs = set()
        code = G.resolve_code(spec['body'][:10], ctx, defs, G.USERVARS)
        ycode = _y_statements(spec, ctx, defs, fsym=None)
        b.pred = code + ycode
        b.pk = None
        b.error = None
        body_lines = p.code(b.pred)
        text_records = [('$PRED', body_lines)]
        b.advan = b.trans = None
        b.defs_end = set(defs) | {s[1] for s in ycode if s[0] == 'asg'}
    else:
        advan = ADVANS[spec['advan'] % len(ADVANS)]
        transes = R.ADVAN_TRANS[advan]
        trans = transes[spec['trans'] % len(transes)]
        b.advan, b.trans = advan, trans
        cols = ['ID', 'TIME', 'AMT'] + covs + ['DV']
        ctx = G.Ctx(nth, neta, neps, ['TIME'] + covs, feat)
        defs = set()
        pk = G.resolve_code(spec['pk'][:6], ctx, defs, G.USERVARS[:6])
        req = R.REQUIRED[(advan, trans)]
        # required PK parameters: positive by construction
        for i, nm in enumerate(req):
            pk.append(('asg', nm, _positive_param(spec, i, nth, neta, advan, trans, nm)))
            defs.add(nm)
        ncomp = R.ADVAN_NCOMP[advan]
        obs = R.ADVAN_DEFOBS[advan]
        b.scale_name = None
        sc = spec['scale'] % 4
        vol = next((n for n in ('V', f'V{obs}', 'V1', 'V2') if n in req), None)
        if sc == 1 and vol:
            b.scale_name = f'S{obs}'
            pk.append(('asg', b.scale_name, ('var', vol)))
        elif sc == 2 and vol:
            b.scale_name = f'S{obs}'
            pk.append(('asg', b.scale_name, ('bin', '/', ('var', vol), ('num', 1000.0, '1000'))))
        elif sc == 3 and vol:
            b.scale_name = 'SC'
            pk.append(('asg', 'SC', ('var', vol)))
        if b.scale_name:
            defs.add(b.scale_name)
        b.alag = b.bio = None
        if spec['alag']:
            b.alag = f'ALAG{R.ADVAN_DEFDOSE[advan]}'
            pk.append(('asg', b.alag, ('idx', 'THETA', (1,))))
            defs.add(b.alag)
        if spec['bio']:
            b.bio = f'F{R.ADVAN_DEFDOSE[advan]}'
            pk.append(('asg', b.bio, ('bin', '/', ('num', 1.0, '1'), ('bin', '+', ('num', 1.0, '1'), ('call', 'EXP', (('idx', 'THETA', (nth,)),))))))
            defs.add(b.bio)
        b.pk = pk
        b.pk_defs = set(defs)
        ctx_e = G.Ctx(nth, neta, neps, ['TIME'] + covs, feat, in_error=True, ncomp=ncomp, reserved_readable=['F'])
        edefs = set(defs)
        epool = ['IPRED', 'W', 'Z', 'TMP', 'X1', 'IRES'] if feat.get('error_reassigns_pk_var') else ['IPRED', 'EW', 'EZ', 'ETMP', 'EX1', 'IRES']
        ecode = G.resolve_code(spec['body'][:5], ctx_e, edefs, epool)
        if spec['a_in_error']:
            n_a = 1 + spec['yform'] % ncomp
            ecode.append(('asg', 'AAMT', ('idx', 'A', (n_a,))))
            edefs.add('AAMT')
        ycode = _y_statements(spec, ctx_e, edefs, fsym='F')
        b.error = ecode + ycode
        b.pred = None
        b.defs_end = set(edefs) | {s[1] for s in ycode if s[0] == 'asg'}
        text_records = [('$PK', p.code(b.pk)), ('$ERROR', p.code(b.error))]
    b.cols = cols
    # assemble text
    ab = noise.get('abbr', 0)
    out = [prob, '$INPUT ' + ' '.join(cols), '$DATA gen.csv IGNORE=@']
    if b.kind == 'advan':
        sub = ['$SUBROUTINES', '$SUBROUTINE', '$SUBS', '$SUB'][ab % 4]
        tr = f' TRANS{b.trans}' if (b.trans != 1 or noise.get('indent', 0) % 2) else ''
        out.append(f'{sub} ADVAN{b.advan}{tr}')
    for name, body in text_records:
        out.append(name)
        out.extend(body)
    out.extend(r.rstrip('\n') for r in th_recs)
    out.extend(r.rstrip('\n') for r in om_recs)
    out.extend(r.rstrip('\n') for r in sg_recs)
    out.append(['$ESTIMATION METHOD=1 INTER', '$EST METHOD=COND INTER MAXEVAL=9999', '$ESTIMATION METH=0'][ab % 3])
    text = '\n'.join(out) + '\n'
    if noise.get('crlf'):
        text = text.replace('\n', '\r\n')
    b.text = text
    return b


def _positive_param(spec, i, nth, neta, advan, trans, nm):
    form = spec['pkform'][i % len(spec['pkform'])] % 6
    th = ('idx', 'THETA', (1 + i % nth,))
    base = ('call', 'EXP', (('bin', '*', ('num', 0.1, '0.1'), th),))  # positive for every theta
    # distinct magnitudes per parameter so that swapped parameters are visible
    base = ('bin', '*', ('num', float(i + 2), str(i + 2)), base)
    if nm in ('ALPHA',):
        base = ('bin', '+', ('num', 10.0, '10'), base)
    if nm in ('VSS',):
        base = ('bin', '+', ('num', 50.0, '50'), base)
    if nm in ('GAMMA',):
        base = ('bin', '*', ('num', 0.01, '0.01'), base)
    if neta and form in (1, 2, 3):
        eta = ('idx', 'ETA', (1 + i % neta,))
        if form == 1:
            return ('bin', '*', base, ('call', 'EXP', (eta,)))
        if form == 2:
            return ('bin', '*', base, ('call', 'EXP', (('bin', '*', ('num', 0.5, '0.5'), eta),)))
        return ('bin', '*', ('call', 'EXP', (eta,)), base)
    return base


def _y_statements(spec, ctx, defs, fsym):
    f = ('var', fsym) if fsym else None
    yf = spec['yform'] % 6
    eps1 = ('idx', 'EPS', (1,))
    eps2 = ('idx', 'EPS', (2 if ctx.neps >= 2 else 1,))
    pool = sorted(defs)
    if f is None:
        base = ('var', pool[spec['vals'][0] % len(pool)]) if pool else ('idx', 'THETA', (1,))
    else:
        base = f
    out = []
    if yf == 0:
        out.append(('asg', 'Y', ('bin', '+', base, eps1)))
    elif yf == 1:
        out.append(('asg', 'Y', ('bin', '+', base, ('bin', '*', base, eps1))))
    elif yf == 2:
        out.append(('asg', 'IPRED', base))
        out.append(('asg', 'W', ('call', 'SQRT', (('bin', '+', ('bin', '**', ('idx', 'THETA', (1,)), ('num', 2.0, '2')), ('bin', '**', ('bin', '*', ('idx', 'THETA', (ctx.nth,)), ('var', 'IPRED')), ('num', 2.0, '2'))),))))
        out.append(('asg', 'Y', ('bin', '+', ('var', 'IPRED'), ('bin', '*', ('var', 'W'), eps1))))
    elif yf == 3:
        out.append(('asg', 'Y', ('bin', '+', ('bin', '*', base, ('bin', '+', ('num', 1.0, '1'), eps1)), eps2)))
    elif yf == 4:
        out.append(('asg', 'IPRED', base))
        out.append(('asg', 'Y', ('bin', '*', ('var', 'IPRED'), ('call', 'EXP', (eps1,)))))
    else:
        out.append(('asg', 'IPRED', base))
        out.append(('asg', 'IRES', ('bin', '-', ('var', 'DV'), ('var', 'IPRED'))))
        out.append(('asg', 'Y', ('bin', '+', ('var', 'IPRED'), ('bin', '*', eps1, ('call', 'PSQRT', (('bin', '**', ('var', 'IPRED'), ('num', 2.0, '2')),))))))
    return out


# ------------------------------------------------------------------------------------------
# helpers


def program_features(stmts, feats=None, assigned=None, depth=0):
    if feats is None:
        feats = set()
    if assigned is None:
        assigned = set()
    for s in stmts:
        if s[0] == 'asg':
            if s[1] in assigned:
                feats.add('reassignment')
            assigned.add(s[1])
            _expr_features(s[2], feats)
        else:
            if depth > 0:
                feats.add('nested_if')
            br, els = s[1], s[2]
            if len(br) == 1 and els is None and len(br[0][1]) == 1 and br[0][1][0][0] == 'asg':
                if br[0][1][0][1] in assigned:
                    feats.add('if_keeps_previous')
                else:
                    feats.add('if_maybe_assigned')
            else:
                names = set()
                for _, body in br:
                    names |= set(R.assigned_names(body))
                    seen = set()
                    for st_ in body:
                        if st_[0] == 'asg':
                            if st_[1] in seen:
                                feats.add('inblock_reassign')
                            seen.add(st_[1])
                if len(names) >= 2:
                    feats.add('block_if_multi')
                if len(br) > 1:
                    feats.add('elseif')
            for c, body in br:
                _cond_features(c, feats)
                program_features(body, feats, set(assigned), depth + 1)
            if els is not None:
                program_features(els, feats, set(assigned), depth + 1)
            assigned |= set(R.assigned_names([s]))
    return feats


def _expr_features(e, feats):
    k = e[0]
    if k == 'call':
        feats.add('function')
        feats.add('fn:' + e[1])
        for a in e[2]:
            _expr_features(a, feats)
    elif k == 'bin':
        if e[1] == '**':
            feats.add('power')
        if e[2][0] == 'bin' and e[1] in '*/' and e[2][1] in '+-':
            feats.add('precedence')
        if e[3][0] == 'bin' and e[1] in '-/':
            feats.add('precedence')
        _expr_features(e[2], feats)
        _expr_features(e[3], feats)
    elif k == 'neg':
        feats.add('unary_minus')
        _expr_features(e[1], feats)


def _cond_features(c, feats):
    if c[0] in ('and', 'or', 'not'):
        feats.add('logical_op')
        for x in c[1:]:
            _cond_features(x, feats)
    else:
        _expr_features(c[2], feats)
        _expr_features(c[3], feats)


def sample_inputs(spec, b, k):
    """k-th deterministic input sample"""
    vals = spec['vals']

    def v(i, scale=1.0, off=0.0):
        return off + scale * (((vals[(i + 7 * k) % len(vals)] * (k + 3)) % 61) / 10.0 + 0.13)

    theta = []
    for i, t in enumerate(b.th_exp):
        lo, up = t['lower'], t['upper']
        x = v(i)
        if math.isfinite(lo) and math.isfinite(up):
            x = lo + (up - lo) * (0.1 + 0.8 * ((x * 13.7) % 1.0))
        elif math.isfinite(lo):
            x = lo + x
        elif math.isfinite(up):
            x = up - x
        else:
            x = x - 2.5
        theta.append(x)
    eta = [(v(10 + i) - 3.0) / 4.0 for i in range(b.neta)]
    eps = [(v(15 + i) - 3.0) / 5.0 for i in range(b.neps)]
    data = {'ID': 1.0, 'TIME': v(18), 'AMT': 100.0, 'DV': v(19), 'WGT': 50.0 + 5 * v(20), 'AGE': 20.0 + 3 * v(21), 'SEX': float(int(v(22)) % 2)}
    data = {c: data[c] for c in b.cols}
    amounts = {n: 1.0 + v(2 + n, 3.0) for n in range(1, 6)}
    return theta, eta, eps, data, amounts


def finite(x):
    return isinstance(x, float) and math.isfinite(x) and abs(x) < 1e150


# ------------------------------------------------------------------------------------------
# parameter comparison


def expected_matrix(meanings):
    blocks = R.assemble_omegas(meanings)
    n = sum(bk['size'] for bk in blocks)
    M = [[0.0] * n for _ in range(n)]
    F = [[None] * n for _ in range(n)]
    for bk in blocks:
        s = bk['start'] - 1
        for a in range(bk['size']):
            for c in range(bk['size']):
                M[s + a][s + c] = bk['matrix'][a][c]
                F[s + a][s + c] = bool(bk['fix'])
    return M, F, blocks


def compare_parameters(model, b, E2):
    from pharmpy.basic import Expr  # noqa

    params = model.parameters
    rvs = model.random_variables
    rv_param_names = set(rvs.parameter_names)
    thetas = [p for p in params if p.name not in rv_param_names]
    if len(thetas) != len(E2['thetas']):
        raise Violation('parameters:theta-count', observed=[p.name for p in thetas], expected=len(E2['thetas']))
    for i, (p, t) in enumerate(zip(thetas, E2['thetas'])):
        got = (float(p.init), float(p.lower), float(p.upper), bool(p.fix))
        exp = (t['init'], t['lower'], t['upper'], t['fix'])
        ok = close(got[0], exp[0], rtol=1e-12) and _beq(got[1], exp[1]) and _beq(got[2], exp[2]) and got[3] == exp[3]
        if not ok:
            raise Violation('parameters:theta', observed=got, expected=exp, detail=f'THETA({i + 1})')
    inits = {p.name: float(p.init) for p in params}
    for which, names, meanings in (('omega', list(rvs.etas.names), E2['omegas']), ('sigma', list(rvs.epsilons.names), E2['sigmas'])):
        M, F, blocks = expected_matrix(meanings)
        if len(names) != len(M):
            raise Violation(f'parameters:{which}-count', observed=names, expected=len(M))
        sub = rvs.etas if which == 'omega' else rvs.epsilons
        cov = sub.covariance_matrix
        n = len(names)
        for a in range(n):
            for c in range(n):
                e = cov[a, c]
                try:
                    val = ev(e, inits)
                except EvalError as ee:
                    raise Violation(f'parameters:{which}-entry-unevaluable', detail=f'{e}: {ee}')
                if not close(val, M[a][c], rtol=1e-9, atol=1e-14):
                    raise Violation(f'parameters:{which}-value', observed=val, expected=M[a][c], detail=f'element ({a + 1},{c + 1}) of {which}; entry {e}')
                if M[a][c] != 0.0 or a == c:
                    syms = [str(s_) for s_ in getattr(e, 'free_symbols', [])]
                    if len(syms) == 1 and F[a][c] is not None:
                        if bool(params[syms[0]].fix) != F[a][c]:
                            raise Violation(f'parameters:{which}-fix', observed=bool(params[syms[0]].fix), expected=F[a][c], detail=f'element ({a + 1},{c + 1}) {syms[0]}')
        # block structure: partition of indices into distributions
        got_blocks = []
        pos = 0
        for dist in sub:
            got_blocks.append((pos, len(dist)))
            pos += len(dist)
        exp_blocks = [(bk['start'] - 1, bk['size']) for bk in blocks]
        if got_blocks != exp_blocks:
            raise Violation(f'parameters:{which}-block-structure', observed=got_blocks, expected=exp_blocks)
        # SAME: the same parameters are shared
        for bi, bk in enumerate(blocks):
            if bk['same']:
                d_prev = list(sub)[bi - 1]
                d_cur = list(sub)[bi]
                if [str(x) for x in d_prev.parameter_names] != [str(x) for x in d_cur.parameter_names]:
                    raise Violation(f'parameters:{which}-same-not-shared', observed=list(d_cur.parameter_names), expected=list(d_prev.parameter_names))


def _beq(a, b):
    if math.isinf(a) or math.isinf(b):
        return a == b
    return close(a, b, rtol=1e-12)


# ------------------------------------------------------------------------------------------
# the check


def parse_reference(b):
    recs = R.split_records(b.text)
    E2 = dict(thetas=[], omegas=[], sigmas=[], code={}, advan=None, trans=None)
    for raw, name, content in recs:
        if name == 'THETA':
            E2['thetas'] += R.parse_theta_record(content)
        elif name == 'OMEGA':
            E2['omegas'].append(R.parse_omega_record(content))
        elif name == 'SIGMA':
            E2['sigmas'].append(R.parse_omega_record(content))
        elif name in ('PRED', 'PK', 'ERROR', 'DES'):
            E2['code'][name] = R.parse_code(content)
        elif name == 'SUBROUTINES':
            E2['advan'], E2['trans'] = R.parse_subroutines(content)
        elif name == 'INPUT':
            E2['input'] = R.parse_input(content)
    return E2


def selfcheck_case(b, E2):
    """generator expectation == reference parse of the text (harness self-check)"""
    if E2['thetas'] != b.th_exp:
        raise HarnessError(f'reference $THETA parse differs from generator:\n{E2["thetas"]}\n{b.th_exp}\n{b.text}')
    for got, exp, nm in ((E2['omegas'], b.om_mean, 'OMEGA'), (E2['sigmas'], b.sg_mean, 'SIGMA')):
        if len(got) != len(exp):
            raise HarnessError(f'reference ${nm} record count differs\n{b.text}')
        for g, e in zip(got, exp):
            if g['kind'] != e['kind']:
                raise HarnessError(f'reference ${nm} kind differs {g} {e}\n{b.text}')
            if g['kind'] == 'diag':
                if not all(close(x, y, rtol=1e-12) for x, y in zip(g['diag'], e['diag'])) or g['fix'] != e['fix'] or len(g['diag']) != len(e['diag']):
                    raise HarnessError(f'reference ${nm} diag differs {g} {e}\n{b.text}')
            elif g['kind'] == 'block':
                if g['size'] != e['size'] or g['fix'] != e['fix'] or not all(close(x, y, rtol=1e-12, atol=1e-15) for r1, r2 in zip(g['matrix'], e['matrix']) for x, y in zip(r1, r2)):
                    raise HarnessError(f'reference ${nm} block differs {g} {e}\n{b.text}')
            else:
                if g['nsame'] != e['nsame']:
                    raise HarnessError(f'reference ${nm} same differs {g} {e}\n{b.text}')
    pairs = [('PRED', b.pred)] if b.kind == 'pred' else [('PK', b.pk), ('ERROR', b.error)]
    for nm, ast in pairs:
        if E2['code'].get(nm) != G.strip_code(ast):
            raise HarnessError(f'reference parse of ${nm} differs from generator AST\n{E2["code"].get(nm)}\n{G.strip_code(ast)}\n{b.text}')
    if b.kind == 'advan' and (E2['advan'], E2['trans']) != (b.advan, b.trans):
        raise HarnessError(f'reference $SUBROUTINES parse differs: {(E2["advan"], E2["trans"])} vs {(b.advan, b.trans)}')


READ_ALLOWED = ()  # valid-by-construction programs: every refusal is reported (bucketed by type)


FLAGS = ['nested_if', 'inblock_reassign', 'block_cond_dep', 'inblock_dep', 'error_reassigns_pk_var', 'mod', 'pfunc_in_cond', 'omega_values', 'neg_literal_pow', 'nested_pfunc', 'rel_shared_symbol']


def run_case(spec):
    """Runs the oracle; a violation is attributed to a generator feature flag by ablation: if
    switching one flag off (which removes exactly that shape from the program) makes the same
    case pass, the clause is prefixed with 'cause=<flag>:' -- known findings are matched on that."""
    try:
        return run_case_inner(spec)
    except Violation as v:
        feat = spec.get('feat', {})
        on = [fl for fl in FLAGS if feat.get(fl)]
        if not on:
            raise

        def fails(off):
            spec2 = dict(spec, feat=dict(feat, **{fl: False for fl in off}))
            try:
                run_case_inner(spec2)
            except Violation:
                return True
            except Reject:
                return False
            return False

        if fails(on):
            raise  # not explained by any switchable shape
        off = list(on)
        for fl in on:  # greedy minimisation of the set of flags that must be off
            trial = [x for x in off if x != fl]
            if not fails(trial):
                off = trial
        raise Violation(f'cause={off[0]}:{v.clause}', observed=v.observed, expected=v.expected, detail=f'[causes: {"+".join(off)}] ' + (v.detail or ''))


def run_case_inner(spec):
    from pharmpy.model import ModelSyntaxError  # noqa
    from pharmpy.modeling import read_model_from_string

    b = build(spec)
    try:
        E2 = parse_reference(b)
    except (R.Unsupported, R.NMSyntaxError) as e:
        raise HarnessError(f'reference cannot parse generated text: {e}\n{b.text}')
    selfcheck_case(b, E2)

    feats = set()
    for code in (b.pred, b.pk, b.error):
        if code:
            program_features(code, feats)
    pfeats = set()
    for m in b.om_mean + b.sg_mean:
        if m['kind'] == 'same':
            pfeats.add('SAME')
        if m['kind'] == 'block':
            pfeats.add('BLOCK')
    txtu = b.text.upper()
    for w, lab in (('SD', 'SD'), ('STANDARD', 'SD'), ('CORR', 'CORR'), ('CHOLESKY', 'CHOLESKY'), (')X', 'repeat'), ('VALUES', 'VALUES')):
        if w in txtu:
            pfeats.add(lab)
    if any(t['fix'] for t in b.th_exp):
        pfeats.add('theta_fix')

    import warnings

    with warnings.catch_warnings():
        warnings.simplefilter('ignore')
        model = guard(read_model_from_string, b.text, allowed=READ_ALLOWED, clause='read')

    compare_parameters(model, b, E2)

    # ---- numeric semantics ------------------------------------------------------------
    params = model.parameters
    rvs = model.random_variables
    rvp = set(rvs.parameter_names)
    theta_names = [p.name for p in params if p.name not in rvp]
    eta_names = list(rvs.etas.names)
    eps_names = list(rvs.epsilons.names)
    stmts = model.statements
    ode = stmts.ode_system
    nsamples = 0
    for k in range(12):
        if nsamples >= 4:
            break
        theta, eta, eps, data, amounts = sample_inputs(spec, b, k)
        # reference
        R.NONFINITE[0] = 0
        try:
            env = R.Env(theta=theta, eta=eta, eps=eps, data=data, amounts=amounts)
            if b.kind == 'pred':
                margin = R.branch_margin(E2['code']['PRED'], R.Env(theta=theta, eta=eta, eps=eps, data=data))
                R.exec_code(E2['code']['PRED'], env)
            else:
                margin = R.branch_margin(E2['code']['PK'], R.Env(theta=theta, eta=eta, eps=eps, data=data, amounts=amounts))
                R.exec_code(E2['code']['PK'], env)
                pkvals = dict(env.vars)
                rates = R.predpp_rates(b.advan, b.trans, pkvals)
                ncomp = R.ADVAN_NCOMP[b.advan]
                obs = R.ADVAN_DEFOBS[b.advan]
                sname = f'S{obs}'
                if sname in pkvals:
                    scale = pkvals[sname]
                elif 'SC' in pkvals:
                    scale = pkvals['SC']
                else:
                    scale = 1.0
                env.vars['F'] = amounts[obs] / scale
                env2 = R.Env(theta=theta, eta=eta, eps=eps, data=dict(env.vars), amounts=amounts)
                margin = min(margin, R.branch_margin(E2['code']['ERROR'], env2))
                R.exec_code(E2['code']['ERROR'], env)
        except R.UndefinedVariable as u:
            raise HarnessError(f'generated program reads undefined variable {u}\n{b.text}')
        except (OverflowError, ValueError, ZeroDivisionError):
            continue
        ref = env.vars
        check_names = sorted(n for n in b.defs_end if n in ref)
        if margin < 1e-6 or R.NONFINITE[0] or not all(finite(ref[n]) for n in check_names):
            # a non-finite intermediate (LOG/SQRT outside its domain, division by zero, overflow) is an
            # NM-TRAN run-time error, not a defined value: resample the inputs
            continue
        # pharmpy side
        penv = dict(data)
        penv.update(dict(zip(theta_names, theta)))
        penv.update(dict(zip(eta_names, eta)))
        penv.update(dict(zip(eps_names, eps)))
        penv['t'] = data.get('TIME', 0.0)
        cmap = getattr(model.internals, 'compartment_map', None) or {}
        if ode is not None:
            for cname, num in cmap.items():
                if cname != 'OUTPUT':
                    penv[f'A_{cname}(t)'] = amounts[num]
        got = run_ir(stmts, penv, b)
        for n in check_names:
            if n not in got:
                raise Violation('semantics:variable-missing', detail=f'{n} not defined by the model\n{b.text}')
            if got[n] is UNDEF:
                raise Violation('semantics:variable-undefined', detail=f'{n} has no value (Piecewise without matching branch or undefined symbol: {UNDEF_WHY.get(n)})\n{b.text}', expected=ref[n])
            if not close(got[n], ref[n], rtol=1e-9, atol=1e-12):
                raise Violation(_value_clause(n, b, feats), observed=got[n], expected=ref[n], detail=f'{n} at sample {k}\n{b.text}')
        if ode is not None:
            # right-hand sides, entrywise in NONMEM numbering
            benv = dict(got)
            for eq in ode.eqs:
                lhs = eq.lhs._sympy_() if hasattr(eq.lhs, '_sympy_') else eq.lhs
                fn = lhs.args[0]
                cname = str(fn.func)[2:]
                num = cmap.get(cname)
                if num is None:
                    raise Violation('ode:compartment-not-in-map', detail=f'{cname} {cmap}')
                try:
                    val = ev(eq.rhs, {k_: v_ for k_, v_ in benv.items() if v_ is not UNDEF})
                except Undefined as u:
                    raise Violation(f'ode:undefined-symbol:ADVAN{b.advan}-TRANS{b.trans}', detail=f'd{cname}/dt uses {u} which nothing defines\n{b.text}')
                d = R.rhs_from_rates(rates, amounts, ncomp)
                # TRANS5/6 derive the micro constants through differences of nearly equal terms:
                # algebraically equal evaluation orders differ by cancellation error (stated tolerance 1e-6)
                rt = 1e-6 if b.trans in (5, 6) else 1e-9
                scale_ = max(abs(x) for x in d.values())
                if not close(val, d[num], rtol=rt, atol=rt * scale_):
                    raise Violation(f'ode:rhs:ADVAN{b.advan}-TRANS{b.trans}', observed=val, expected=d[num], detail=f'd/dt of compartment {num} ({cname})\n{b.text}')
            if len(ode.eqs) != ncomp:
                raise Violation('ode:compartment-count', observed=len(ode.eqs), expected=ncomp)
            # dose compartment, lag, bioavailability
            dnum = R.ADVAN_DEFDOSE[b.advan]
            inv = {v_: k_ for k_, v_ in cmap.items()}
            dcs = guard(lambda: ode.dosing_compartments, allowed=(), clause='ode:dosing_compartments')
            if [c.name for c in dcs] != [inv[dnum]]:
                raise Violation('ode:dose-compartment', observed=[c.name for c in dcs], expected=inv[dnum])
            dose = dcs[0].doses[0]
            if type(dose).__name__ != 'Bolus' or str(dose.amount) != 'AMT':
                raise Violation('ode:dose-kind', observed=repr(dose), expected='Bolus(AMT)')
            for cname, num in cmap.items():
                if cname == 'OUTPUT':
                    continue
                comp = ode.find_compartment(cname)
                lag = ev(comp.lag_time, {k_: v_ for k_, v_ in got.items() if v_ is not UNDEF})
                bio = ev(comp.bioavailability, {k_: v_ for k_, v_ in got.items() if v_ is not UNDEF})
                elag = ref.get(f'ALAG{num}', 0.0)
                ebio = ref.get(f'F{num}', 1.0)
                if not close(lag, elag) or not close(bio, ebio):
                    raise Violation('ode:lag-or-bioavailability', observed=(lag, bio), expected=(elag, ebio), detail=f'compartment {num} {cname}')
        nsamples += 1
    if nsamples == 0:
        raise Reject('no finite sample away from branch points')

    classes = sorted(feats - {f for f in feats if f.startswith('fn:')}) + sorted('p:' + f for f in pfeats)
    classes += [f for f in feats if f.startswith('fn:')]
    if b.kind == 'advan':
        classes.append(f'ADVAN{b.advan}-TRANS{b.trans}')
    nt = bool(feats & {'reassignment', 'if_keeps_previous', 'block_if_multi', 'function', 'precedence'}) or bool(pfeats) or (b.kind == 'advan' and (b.advan, b.trans) != (1, 1))
    return CaseInfo(nontrivial=nt, classes=tuple(classes), key=None, render=b.text, evals=nsamples)


UNDEF = object()
UNDEF_WHY = {}


def run_ir(stmts, env, b):
    from pharmpy.model import Assignment

    env = dict(env)
    for s in stmts:
        if isinstance(s, Assignment):
            name = str(s.symbol)
            try:
                env[name] = ev(s.expression, {k: v for k, v in env.items() if v is not UNDEF})
            except Undefined as u:
                env[name] = UNDEF
                UNDEF_WHY[name] = str(u)
            except EvalError as e:
                raise HarnessError(f'cannot evaluate IR statement {s!r}: {e}')
    return env


def _value_clause(n, b, feats):
    return 'semantics:value'


SUBCHECKS = [
    SubCheck('pred', lambda: PRED_SPEC, run_case, quick=220, thorough=5000, quick_time=240, thorough_time=3000),
    SubCheck('advan', lambda: ADVAN_SPEC, run_case, quick=220, thorough=5000, quick_time=240, thorough_time=3000),
]
