"""C01 -- Reading a NONMEM model preserves its meaning (NM-TRAN -> model IR).

Generated control streams (pv.gen.gen_nm / gen_layout) are given a meaning by the reference
NM-TRAN interpreter (pv.ref.nmtran, parsing the *text*) and compared with the numeric
semantics (pv.irsem) of the model pharmpy reads from the same text.
"""

from __future__ import annotations

import math

from hypothesis import strategies as st

from ..core import CaseInfo, HarnessError, Reject, SubCheck, Violation, guard
from ..gen import gen_layout as GL
from ..gen import gen_nm as G
from ..irsem import EvalError, Undefined, close, ev
from ..ref import nmtran as R

PROPERTY = 'C01'
LEVEL = 'exploration'
RULE = (
    'Control streams generated from a grammar of NM-TRAN ($PRED, or $PK/$ERROR with ADVAN1-4,10-12 and their TRANS, '
    'abbreviated code of <=14 statements with assignments, logical IF, IF/ELSEIF/ELSE blocks, reassignment, intrinsic and '
    'protected functions, both operator spellings, Fortran number forms; $THETA/$OMEGA/$SIGMA in the documented layouts) with '
    'layout noise; variables are only read where definitely assigned. Non-trivial = program has a reassignment, an IF without '
    'ELSE on a previously assigned symbol, a block IF assigning >=2 symbols, a function call, a non-default ADVAN/TRANS, or a '
    'parameter record with repeat/FIX-inside/SD/CORR/CHOLESKY/SAME. Distinct = hash of the resolved program text.'
)
ASSUMPTIONS = [
    'the reference interpreter (pv/ref/nmtran.py) is my reading of the NONMEM guides; its parser is self-checked against the generator AST on every case',
    'numeric comparison at sampled inputs (rtol 1e-9), inputs resampled away from branch points',
    'models are read without a dataset ($DATA file absent): dataset-dependent dosing/observation routing (CMT/RATE columns) is not exercised here',
]

# ------------------------------------------------------------------------------------------
# spec strategy

SPEC_COMMON = dict(
    thetas=GL.THETA_LAYOUT,
    omegas=GL.OMEGA_LAYOUT,
    sigmas=st.lists(GL.OMEGA_ITEM, min_size=1, max_size=2),
    ncov=st.integers(0, 3),
    feat=G.FEATURES,
    noise=G.NOISE,
    vals=st.lists(st.integers(1, 60), min_size=24, max_size=24),
    yform=st.integers(0, 5),
)

PRED_SPEC = st.fixed_dictionaries(dict(kind=st.just('pred'), body=G.code_strategy(8), **SPEC_COMMON))
ADVAN_SPEC = st.fixed_dictionaries(
    dict(
        kind=st.just('advan'),
        advan=st.integers(0, 6),
        trans=st.integers(0, 4),
        pk=G.code_strategy(5),
        body=G.code_strategy(4),
        pkform=st.lists(st.integers(0, 5), min_size=8, max_size=8),
        scale=st.integers(0, 3),
        alag=st.booleans(),
        bio=st.booleans(),
        a_in_error=st.booleans(),
        **SPEC_COMMON,
    )
)

# flat programs about operator precedence: top-level assignments, logical IFs and one-level IF blocks whose
# conditions mix .OR./.AND./.NOT. three levels deep without parentheses; none of the switchable (known-defect)
# shapes is present, so no violation found here can be attributed to one of them
_NOFEAT = {fl: False for fl in G._KNOWN_SHAPE_FLAGS}
# relations that are true at about half of the sample points (etas are sampled symmetrically around zero), so
# that the truth table of a mixed condition is really explored
_BAL_REL = st.tuples(
    st.just('rel'),
    st.integers(4, 11),
    st.tuples(st.just('eta'), st.integers(0, 30)),
    st.one_of(st.tuples(st.just('n'), st.just(6)), st.tuples(st.just('eta'), st.integers(0, 30)), st.tuples(st.just('neg'), st.tuples(st.just('n'), st.just(6)))),
)
_LEAF_COND = st.one_of(_BAL_REL, _BAL_REL, st.tuples(st.just('not'), _BAL_REL), G.cond_strategy(0))


def _mixed_cond(depth):
    if depth == 0:
        return _LEAF_COND
    sub = _mixed_cond(depth - 1)
    return st.one_of(_LEAF_COND, st.tuples(st.sampled_from(['and', 'or']), sub, sub), st.tuples(st.sampled_from(['and', 'or']), sub, sub), st.tuples(st.sampled_from(['and', 'or']), sub, sub))


# branch values: general expressions and, now and then, `e - e`, which is read as the constant 0 (a literal 0 is
# not in the generator's number pool): "ELSE X = 0" is the value pharmpy itself adds for a variable without
# previous definition, so a *written* zero branch must be told apart from an added one
_ZERO_EXPR = G.expr_strategy(0).map(lambda e: ('bin', 1, e, e))
_BRANCH_EXPR = st.one_of(G.expr_strategy(1), G.expr_strategy(1), G.expr_strategy(1), _ZERO_EXPR)

_LOGIC_STMT = st.one_of(
    st.tuples(st.just('a'), st.integers(0, 20), G.expr_strategy(2)),
    st.tuples(st.just('l'), _mixed_cond(3), st.integers(0, 20), G.expr_strategy(1)),
    st.tuples(st.just('l'), _mixed_cond(2), st.integers(0, 20), G.expr_strategy(2)),
    st.tuples(
        st.just('b'),
        st.lists(st.tuples(_mixed_cond(2), st.lists(st.tuples(st.just('a'), st.integers(0, 20), _BRANCH_EXPR), min_size=1, max_size=2)), min_size=1, max_size=3),
        st.one_of(st.none(), st.lists(st.tuples(st.just('a'), st.integers(0, 20), st.one_of(G.expr_strategy(1), _ZERO_EXPR)), min_size=1, max_size=2), st.lists(st.tuples(st.just('a'), st.integers(0, 20), _BRANCH_EXPR), min_size=1, max_size=2)),
    ),
)
LOGIC_SPEC = st.fixed_dictionaries(
    dict(
        SPEC_COMMON,
        kind=st.just('pred'),
        # every user variable is assigned first, so that each conditional assignment below is observable
        # (a variable assigned only under a condition has no defined value when the condition is false)
        body=st.tuples(
            st.tuples(*[st.tuples(st.just('a'), st.just(i), G.expr_strategy(1)) for i in range(len(G.USERVARS))]),
            st.lists(_LOGIC_STMT, min_size=2, max_size=7),
        ).map(lambda t: G._l(list(t[0]) + list(t[1]))),
        feat=st.fixed_dictionaries(dict({k: st.just(v) for k, v in _NOFEAT.items()}, protected_edges=st.booleans(), unprotected_trig=st.just(False))),
    )
)

ADVANS = [1, 2, 3, 4, 10, 11, 12]


# ------------------------------------------------------------------------------------------
# building the control stream


class Built:
    pass


def build(spec) -> Built:
    b = Built()
    feat = spec['feat']
    noise = spec['noise']
    # parameter records
    th_recs, th_exp = GL.render_thetas(spec['thetas'])
    om_recs, om_mean, neta = GL.render_omegas(spec['omegas'], 'OMEGA', max_total=4, values_ok=bool(feat.get('omega_values')))
    sg_layout = [dict(it, kind=it['kind'] % 8 if it['kind'] % 10 < 8 else 0) for it in spec['sigmas']]
    sg_recs, sg_mean, neps = GL.render_omegas(sg_layout, 'SIGMA', max_total=2)
    if neps == 0:
        sg_recs, sg_mean, neps = ['$SIGMA 0.1\n'], [dict(kind='diag', size=1, diag=[0.1], fix=[False])], 1
    nth = len(th_exp)
    b.th_exp, b.om_mean, b.sg_mean = th_exp, om_mean, sg_mean
    b.nth, b.neta, b.neps = nth, neta, neps
    covs = G.COVS[: spec['ncov'] % 4]
    b.kind = 'pred' if spec['kind'] == 'pred' else 'advan'
    p = G.Printer(noise)
    lines = []
    prob = '$PROBLEM generated model'
    if b.kind == 'pred':
        cols = ['ID', 'TIME'] + covs + ['DV']
        ctx = G.Ctx(nth, neta, neps, ['TIME'] + covs, feat)
        defs = set()
        code = G.resolve_code(spec['body'][:10], ctx, defs, G.USERVARS)
        ycode = _y_statements(spec, ctx, defs, fsym=None)
        b.pred = code + ycode
        b.pk = None
        b.error = None
        body_lines = p.code(b.pred)
        text_records = [('$PRED', body_lines)]
        b.advan = b.trans = None
        b.defs_end = set(defs) | {s[1] for s in ycode if s[0] == 'asg'}
    else:
        advan = ADVANS[spec['advan'] % len(ADVANS)]
        transes = R.ADVAN_TRANS[advan]
        trans = transes[spec['trans'] % len(transes)]
        b.advan, b.trans = advan, trans
        cols = ['ID', 'TIME', 'AMT'] + covs + ['DV']
        ctx = G.Ctx(nth, neta, neps, ['TIME'] + covs, feat)
        defs = set()
        pk = G.resolve_code(spec['pk'][:6], ctx, defs, G.USERVARS[:6])
        req = R.REQUIRED[(advan, trans)]
        # required PK parameters: positive by construction
        for i, nm in enumerate(req):
            pk.append(('asg', nm, _positive_param(spec, i, nth, neta, advan, trans, nm)))
            defs.add(nm)
        ncomp = R.ADVAN_NCOMP[advan]
        obs = R.ADVAN_DEFOBS[advan]
        b.scale_name = None
        sc = spec['scale'] % 4
        vol = next((n for n in ('V', f'V{obs}', 'V1', 'V2') if n in req), None)
        if sc == 1 and vol:
            b.scale_name = f'S{obs}'
            pk.append(('asg', b.scale_name, ('var', vol)))
        elif sc == 2 and vol:
            b.scale_name = f'S{obs}'
            pk.append(('asg', b.scale_name, ('bin', '/', ('var', vol), ('num', 1000.0, '1000'))))
        elif sc == 3 and vol:
            b.scale_name = 'SC'
            pk.append(('asg', 'SC', ('var', vol)))
        if b.scale_name:
            defs.add(b.scale_name)
        b.alag = b.bio = None
        if spec['alag']:
            b.alag = f'ALAG{R.ADVAN_DEFDOSE[advan]}'
            pk.append(('asg', b.alag, ('idx', 'THETA', (1,))))
            defs.add(b.alag)
        if spec['bio']:
            b.bio = f'F{R.ADVAN_DEFDOSE[advan]}'
            pk.append(('asg', b.bio, ('bin', '/', ('num', 1.0, '1'), ('bin', '+', ('num', 1.0, '1'), ('call', 'EXP', (('idx', 'THETA', (nth,)),))))))
            defs.add(b.bio)
        b.pk = pk
        b.pk_defs = set(defs)
        ctx_e = G.Ctx(nth, neta, neps, ['TIME'] + covs, feat, in_error=True, ncomp=ncomp, reserved_readable=['F'])
        edefs = set(defs)
        epool = ['IPRED', 'W', 'Z', 'TMP', 'X1', 'IRES'] if feat.get('error_reassigns_pk_var') else ['IPRED', 'EW', 'EZ', 'ETMP', 'EX1', 'IRES']
        ecode = G.resolve_code(spec['body'][:5], ctx_e, edefs, epool)
        if spec['a_in_error']:
            n_a = 1 + spec['yform'] % ncomp
            ecode.append(('asg', 'AAMT', ('idx', 'A', (n_a,))))
            edefs.add('AAMT')
        ycode = _y_statements(spec, ctx_e, edefs, fsym='F')
        b.error = ecode + ycode
        b.pred = None
        b.defs_end = set(edefs) | {s[1] for s in ycode if s[0] == 'asg'}
        text_records = [('$PK', p.code(b.pk)), ('$ERROR', p.code(b.error))]
    b.cols = cols
    # assemble text
    ab = noise.get('abbr', 0)
    out = [prob, '$INPUT ' + ' '.join(cols), '$DATA gen.csv IGNORE=@']
    if b.kind == 'advan':
        sub = ['$SUBROUTINES', '$SUBROUTINE', '$SUBS', '$SUB'][ab % 4]
        tr = f' TRANS{b.trans}' if (b.trans != 1 or noise.get('indent', 0) % 2) else ''
        out.append(f'{sub} ADVAN{b.advan}{tr}')
    for name, body in text_records:
        out.append(name)
        out.extend(body)
    out.extend(r.rstrip('\n') for r in th_recs)
    out.extend(r.rstrip('\n') for r in om_recs)
    out.extend(r.rstrip('\n') for r in sg_recs)
    out.append(['$ESTIMATION METHOD=1 INTER', '$EST METHOD=COND INTER MAXEVAL=9999', '$ESTIMATION METH=0'][ab % 3])
    text = '\n'.join(out) + '\n'
    if noise.get('crlf'):
        text = text.replace('\n', '\r\n')
    b.text = text
    return b


def _positive_param(spec, i, nth, neta, advan, trans, nm):
    form = spec['pkform'][i % len(spec['pkform'])] % 6
    th = ('idx', 'THETA', (1 + i % nth,))
    base = ('call', 'EXP', (('bin', '*', ('num', 0.1, '0.1'), th),))  # positive for every theta
    # distinct magnitudes per parameter so that swapped parameters are visible
    base = ('bin', '*', ('num', float(i + 2), str(i + 2)), base)
    if nm in ('ALPHA',):
        base = ('bin', '+', ('num', 10.0, '10'), base)
    if nm in ('VSS',):
        base = ('bin', '+', ('num', 50.0, '50'), base)
    if nm in ('GAMMA',):
        base = ('bin', '*', ('num', 0.01, '0.01'), base)
    if neta and form in (1, 2, 3):
        eta = ('idx', 'ETA', (1 + i % neta,))
        if form == 1:
            return ('bin', '*', base, ('call', 'EXP', (eta,)))
        if form == 2:
            return ('bin', '*', base, ('call', 'EXP', (('bin', '*', ('num', 0.5, '0.5'), eta),)))
        return ('bin', '*', ('call', 'EXP', (eta,)), base)
    return base


def _y_statements(spec, ctx, defs, fsym):
    f = ('var', fsym) if fsym else None
    yf = spec['yform'] % 6
    eps1 = ('idx', 'EPS', (1,))
    eps2 = ('idx', 'EPS', (2 if ctx.neps >= 2 else 1,))
    pool = sorted(defs)
    if f is None:
        base = ('var', pool[spec['vals'][0] % len(pool)]) if pool else ('idx', 'THETA', (1,))
    else:
        base = f
    out = []
    if yf == 0:
        out.append(('asg', 'Y', ('bin', '+', base, eps1)))
    elif yf == 1:
        out.append(('asg', 'Y', ('bin', '+', base, ('bin', '*', base, eps1))))
    elif yf == 2:
        out.append(('asg', 'IPRED', base))
        out.append(('asg', 'W', ('call', 'SQRT', (('bin', '+', ('bin', '**', ('idx', 'THETA', (1,)), ('num', 2.0, '2')), ('bin', '**', ('bin', '*', ('idx', 'THETA', (ctx.nth,)), ('var', 'IPRED')), ('num', 2.0, '2'))),))))
        out.append(('asg', 'Y', ('bin', '+', ('var', 'IPRED'), ('bin', '*', ('var', 'W'), eps1))))
    elif yf == 3:
        out.append(('asg', 'Y', ('bin', '+', ('bin', '*', base, ('bin', '+', ('num', 1.0, '1'), eps1)), eps2)))
    elif yf == 4:
        out.append(('asg', 'IPRED', base))
        out.append(('asg', 'Y', ('bin', '*', ('var', 'IPRED'), ('call', 'EXP', (eps1,)))))
    else:
        out.append(('asg', 'IPRED', base))
        out.append(('asg', 'IRES', ('bin', '-', ('var', 'DV'), ('var', 'IPRED'))))
        out.append(('asg', 'Y', ('bin', '+', ('var', 'IPRED'), ('bin', '*', eps1, ('call', 'PSQRT', (('bin', '**', ('var', 'IPRED'), ('num', 2.0, '2')),))))))
    return out


# ------------------------------------------------------------------------------------------
# helpers


def program_features(stmts, feats=None, assigned=None, depth=0):
    if feats is None:
        feats = set()
    if assigned is None:
        assigned = set()
    for s in stmts:
        if s[0] == 'asg':
            if s[1] in assigned:
                feats.add('reassignment')
            assigned.add(s[1])
            _expr_features(s[2], feats)
        else:
            if depth > 0:
                feats.add('nested_if')
            br, els = s[1], s[2]
            if len(br) == 1 and els is None and len(br[0][1]) == 1 and br[0][1][0][0] == 'asg':
                if br[0][1][0][1] in assigned:
                    feats.add('if_keeps_previous')
                else:
                    feats.add('if_maybe_assigned')
            else:
                names = set()
                for _, body in br:
                    names |= set(R.assigned_names(body))
                    seen = set()
                    for st_ in body:
                        if st_[0] == 'asg':
                            if st_[1] in seen:
                                feats.add('inblock_reassign')
                            seen.add(st_[1])
                if len(names) >= 2:
                    feats.add('block_if_multi')
                if len(br) > 1:
                    feats.add('elseif')
            for c, body in br:
                _cond_features(c, feats)
                program_features(body, feats, set(assigned), depth + 1)
            if els is not None:
                program_features(els, feats, set(assigned), depth + 1)
            assigned |= set(R.assigned_names([s]))
    return feats


def _expr_features(e, feats):
    k = e[0]
    if k == 'call':
        feats.add('function')
        feats.add('fn:' + e[1])
        for a in e[2]:
            _expr_features(a, feats)
    elif k == 'bin':
        if e[1] == '**':
            feats.add('power')
        if e[2][0] == 'bin' and e[1] in '*/' and e[2][1] in '+-':
            feats.add('precedence')
        if e[3][0] == 'bin' and e[1] in '-/':
            feats.add('precedence')
        _expr_features(e[2], feats)
        _expr_features(e[3], feats)
    elif k == 'neg':
        feats.add('unary_minus')
        _expr_features(e[1], feats)


def _cond_features(c, feats):
    if c[0] in ('and', 'or', 'not'):
        feats.add('logical_op')
        for x in c[1:]:
            _cond_features(x, feats)
    else:
        _expr_features(c[2], feats)
        _expr_features(c[3], feats)


def sample_inputs(spec, b, k):
    """k-th deterministic input sample"""
    vals = spec['vals']

    def v(i, scale=1.0, off=0.0):
        return off + scale * (((vals[(i + 7 * k) % len(vals)] * (k + 3)) % 61) / 10.0 + 0.13)

    theta = []
    for i, t in enumerate(b.th_exp):
        lo, up = t['lower'], t['upper']
        x = v(i)
        if math.isfinite(lo) and math.isfinite(up):
            x = lo + (up - lo) * (0.1 + 0.8 * ((x * 13.7) % 1.0))
        elif math.isfinite(lo):
            x = lo + x
        elif math.isfinite(up):
            x = up - x
        else:
            x = x - 2.5
        theta.append(x)
    eta = [(v(10 + i) - 3.0) / 4.0 for i in range(b.neta)]
    eps = [(v(15 + i) - 3.0) / 5.0 for i in range(b.neps)]
    data = {'ID': 1.0, 'TIME': v(18), 'AMT': 100.0, 'DV': v(19), 'WGT': 50.0 + 5 * v(20), 'AGE': 20.0 + 3 * v(21), 'SEX': float(int(v(22)) % 2)}
    data = {c: data[c] for c in b.cols}
    amounts = {n: 1.0 + v(2 + n, 3.0) for n in range(1, 6)}
    return theta, eta, eps, data, amounts


def finite(x):
    return isinstance(x, float) and math.isfinite(x) and abs(x) < 1e150


# ------------------------------------------------------------------------------------------
# parameter comparison


def expected_matrix(meanings):
    blocks = R.assemble_omegas(meanings)
    n = sum(bk['size'] for bk in blocks)
    M = [[0.0] * n for _ in range(n)]
    F = [[None] * n for _ in range(n)]
    for bk in blocks:
        s = bk['start'] - 1
        for a in range(bk['size']):
            for c in range(bk['size']):
                M[s + a][s + c] = bk['matrix'][a][c]
                F[s + a][s + c] = bool(bk['fix'])
    return M, F, blocks


def compare_parameters(model, b, E2):
    from pharmpy.basic import Expr  # noqa

    params = model.parameters
    rvs = model.random_variables
    rv_param_names = set(rvs.parameter_names)
    thetas = [p for p in params if p.name not in rv_param_names]
    if len(thetas) != len(E2['thetas']):
        raise Violation('parameters:theta-count', observed=[p.name for p in thetas], expected=len(E2['thetas']))
    for i, (p, t) in enumerate(zip(thetas, E2['thetas'])):
        got = (float(p.init), float(p.lower), float(p.upper), bool(p.fix))
        exp = (t['init'], t['lower'], t['upper'], t['fix'])
        ok = close(got[0], exp[0], rtol=1e-12) and _beq(got[1], exp[1]) and _beq(got[2], exp[2]) and got[3] == exp[3]
        if not ok:
            raise Violation('parameters:theta', observed=got, expected=exp, detail=f'THETA({i + 1})')
    inits = {p.name: float(p.init) for p in params}
    for which, names, meanings in (('omega', list(rvs.etas.names), E2['omegas']), ('sigma', list(rvs.epsilons.names), E2['sigmas'])):
        M, F, blocks = expected_matrix(meanings)
        if len(names) != len(M):
            raise Violation(f'parameters:{which}-count', observed=names, expected=len(M))
        sub = rvs.etas if which == 'omega' else rvs.epsilons
        cov = sub.covariance_matrix
        n = len(names)
        for a in range(n):
            for c in range(n):
                e = cov[a, c]
                try:
                    val = ev(e, inits)
                except EvalError as ee:
                    raise Violation(f'parameters:{which}-entry-unevaluable', detail=f'{e}: {ee}')
                if not close(val, M[a][c], rtol=1e-9, atol=1e-14):
                    raise Violation(f'parameters:{which}-value', observed=val, expected=M[a][c], detail=f'element ({a + 1},{c + 1}) of {which}; entry {e}')
                if M[a][c] != 0.0 or a == c:
                    syms = [str(s_) for s_ in getattr(e, 'free_symbols', [])]
                    if len(syms) == 1 and F[a][c] is not None:
                        if bool(params[syms[0]].fix) != F[a][c]:
                            raise Violation(f'parameters:{which}-fix', observed=bool(params[syms[0]].fix), expected=F[a][c], detail=f'element ({a + 1},{c + 1}) {syms[0]}')
        # block structure: partition of indices into distributions
        got_blocks = []
        pos = 0
        for dist in sub:
            got_blocks.append((pos, len(dist)))
            pos += len(dist)
        exp_blocks = [(bk['start'] - 1, bk['size']) for bk in blocks]
        if got_blocks != exp_blocks:
            raise Violation(f'parameters:{which}-block-structure', observed=got_blocks, expected=exp_blocks)
        # SAME: the same parameters are shared
        for bi, bk in enumerate(blocks):
            if bk['same']:
                d_prev = list(sub)[bi - 1]
                d_cur = list(sub)[bi]
                if [str(x) for x in d_prev.parameter_names] != [str(x) for x in d_cur.parameter_names]:
                    raise Violation(f'parameters:{which}-same-not-shared', observed=list(d_cur.parameter_names), expected=list(d_prev.parameter_names))


def _beq(a, b):
    if math.isinf(a) or math.isinf(b):
        return a == b
    return close(a, b, rtol=1e-12)


# ------------------------------------------------------------------------------------------
# the check


def parse_reference(b):
    recs = R.split_records(b.text)
    E2 = dict(thetas=[], omegas=[], sigmas=[], code={}, advan=None, trans=None)
    for raw, name, content in recs:
        if name == 'THETA':
            E2['thetas'] += R.parse_theta_record(content)
        elif name == 'OMEGA':
            E2['omegas'].append(R.parse_omega_record(content))
        elif name == 'SIGMA':
            E2['sigmas'].append(R.parse_omega_record(content))
        elif name in ('PRED', 'PK', 'ERROR', 'DES'):
            E2['code'][name] = R.parse_code(content)
        elif name == 'SUBROUTINES':
            E2['advan'], E2['trans'] = R.parse_subroutines(content)
        elif name == 'INPUT':
            E2['input'] = R.parse_input(content)
    return E2


def selfcheck_case(b, E2):
    """generator expectation == reference parse of the text (harness self-check)"""
    if E2['thetas'] != b.th_exp:
        raise HarnessError(f'reference $THETA parse differs from generator:\n{E2["thetas"]}\n{b.th_exp}\n{b.text}')
    for got, exp, nm in ((E2['omegas'], b.om_mean, 'OMEGA'), (E2['sigmas'], b.sg_mean, 'SIGMA')):
        if len(got) != len(exp):
            raise HarnessError(f'reference ${nm} record count differs\n{b.text}')
        for g, e in zip(got, exp):
            if g['kind'] != e['kind']:
                raise HarnessError(f'reference ${nm} kind differs {g} {e}\n{b.text}')
            if g['kind'] == 'diag':
                if not all(close(x, y, rtol=1e-12) for x, y in zip(g['diag'], e['diag'])) or g['fix'] != e['fix'] or len(g['diag']) != len(e['diag']):
                    raise HarnessError(f'reference ${nm} diag differs {g} {e}\n{b.text}')
            elif g['kind'] == 'block':
                if g['size'] != e['size'] or g['fix'] != e['fix'] or not all(close(x, y, rtol=1e-12, atol=1e-15) for r1, r2 in zip(g['matrix'], e['matrix']) for x, y in zip(r1, r2)):
                    raise HarnessError(f'reference ${nm} block differs {g} {e}\n{b.text}')
            else:
                if g['nsame'] != e['nsame']:
                    raise HarnessError(f'reference ${nm} same differs {g} {e}\n{b.text}')
    pairs = [('PRED', b.pred)] if b.kind == 'pred' else [('PK', b.pk), ('ERROR', b.error)]
    for nm, ast in pairs:
        if E2['code'].get(nm) != G.strip_code(ast):
            raise HarnessError(f'reference parse of ${nm} differs from generator AST\n{E2["code"].get(nm)}\n{G.strip_code(ast)}\n{b.text}')
    if b.kind == 'advan' and (E2['advan'], E2['trans']) != (b.advan, b.trans):
        raise HarnessError(f'reference $SUBROUTINES parse differs: {(E2["advan"], E2["trans"])} vs {(b.advan, b.trans)}')


READ_ALLOWED = ()  # valid-by-construction programs: every refusal is reported (bucketed by type)


FLAGS = ['nested_if', 'inblock_reassign', 'block_cond_dep', 'inblock_dep', 'error_reassigns_pk_var', 'mod', 'pfunc_in_cond', 'omega_values', 'neg_literal_pow', 'nested_pfunc', 'rel_shared_symbol']


def run_case(spec):
    """Runs the oracle; a violation is attributed to a generator feature flag by ablation: if
    switching one flag off (which removes exactly that shape from the program) makes the same
    case pass, the clause is prefixed with 'cause=<flag>:' -- known findings are matched on that."""
    try:
        return run_case_inner(spec)
    except Violation as v:
        feat = spec.get('feat', {})
        on = [fl for fl in FLAGS if feat.get(fl)]
        if not on:
            raise

        def fails(off):
            spec2 = dict(spec, feat=dict(feat, **{fl: False for fl in off}))
            try:
                run_case_inner(spec2)
            except Violation:
                return True
            except Reject:
                return False
            return False

        if fails(on):
            raise  # not explained by any switchable shape
        off = list(on)
        for fl in on:  # greedy minimisation of the set of flags that must be off
            trial = [x for x in off if x != fl]
            if not fails(trial):
                off = trial
        raise Violation(f'cause={off[0]}:{v.clause}', observed=v.observed, expected=v.expected, detail=f'[causes: {"+".join(off)}] ' + (v.detail or ''))


def run_case_inner(spec):
    from pharmpy.model import ModelSyntaxError  # noqa
    from pharmpy.modeling import read_model_from_string

    b = build(spec)
    try:
        E2 = parse_reference(b)
    except (R.Unsupported, R.NMSyntaxError) as e:
        raise HarnessError(f'reference cannot parse generated text: {e}\n{b.text}')
    selfcheck_case(b, E2)

    feats = set()
    for code in (b.pred, b.pk, b.error):
        if code:
            program_features(code, feats)
    pfeats = set()
    for m in b.om_mean + b.sg_mean:
        if m['kind'] == 'same':
            pfeats.add('SAME')
        if m['kind'] == 'block':
            pfeats.add('BLOCK')
    txtu = b.text.upper()
    for w, lab in (('SD', 'SD'), ('STANDARD', 'SD'), ('CORR', 'CORR'), ('CHOLESKY', 'CHOLESKY'), (')X', 'repeat'), ('VALUES', 'VALUES')):
        if w in txtu:
            pfeats.add(lab)
    if any(t['fix'] for t in b.th_exp):
        pfeats.add('theta_fix')

    import warnings

    with warnings.catch_warnings():
        warnings.simplefilter('ignore')
        model = guard(read_model_from_string, b.text, allowed=READ_ALLOWED, clause='read')

    compare_parameters(model, b, E2)

    # ---- numeric semantics ------------------------------------------------------------
    params = model.parameters
    rvs = model.random_variables
    rvp = set(rvs.parameter_names)
    theta_names = [p.name for p in params if p.name not in rvp]
    eta_names = list(rvs.etas.names)
    eps_names = list(rvs.epsilons.names)
    stmts = model.statements
    ode = stmts.ode_system
    nsamples = 0
    for k in range(12):
        if nsamples >= 4:
            break
        theta, eta, eps, data, amounts = sample_inputs(spec, b, k)
        # reference
        R.NONFINITE[0] = 0
        try:
            env = R.Env(theta=theta, eta=eta, eps=eps, data=data, amounts=amounts)
            if b.kind == 'pred':
                margin = R.branch_margin(E2['code']['PRED'], R.Env(theta=theta, eta=eta, eps=eps, data=data))
                R.exec_code(E2['code']['PRED'], env)
            else:
                margin = R.branch_margin(E2['code']['PK'], R.Env(theta=theta, eta=eta, eps=eps, data=data, amounts=amounts))
                R.exec_code(E2['code']['PK'], env)
                pkvals = dict(env.vars)
                rates = R.predpp_rates(b.advan, b.trans, pkvals)
                ncomp = R.ADVAN_NCOMP[b.advan]
                obs = R.ADVAN_DEFOBS[b.advan]
                sname = f'S{obs}'
                if sname in pkvals:
                    scale = pkvals[sname]
                elif 'SC' in pkvals:
                    scale = pkvals['SC']
                else:
                    scale = 1.0
                env.vars['F'] = amounts[obs] / scale
                env2 = R.Env(theta=theta, eta=eta, eps=eps, data=dict(env.vars), amounts=amounts)
                margin = min(margin, R.branch_margin(E2['code']['ERROR'], env2))
                R.exec_code(E2['code']['ERROR'], env)
        except R.UndefinedVariable as u:
            raise HarnessError(f'generated program reads undefined variable {u}\n{b.text}')
        except (OverflowError, ValueError, ZeroDivisionError):
            continue
        ref = env.vars
        check_names = sorted(n for n in b.defs_end if n in ref)
        if margin < 1e-6 or R.NONFINITE[0] or not all(finite(ref[n]) for n in check_names):
            # a non-finite intermediate (LOG/SQRT outside its domain, division by zero, overflow) is an
            # NM-TRAN run-time error, not a defined value: resample the inputs
            continue
        # pharmpy side
        penv = dict(data)
        penv.update(dict(zip(theta_names, theta)))
        penv.update(dict(zip(eta_names, eta)))
        penv.update(dict(zip(eps_names, eps)))
        penv['t'] = data.get('TIME', 0.0)
        cmap = getattr(model.internals, 'compartment_map', None) or {}
        if ode is not None:
            for cname, num in cmap.items():
                if cname != 'OUTPUT':
                    penv[f'A_{cname}(t)'] = amounts[num]
        got = run_ir(stmts, penv, b)
        for n in check_names:
            if n not in got:
                raise Violation('semantics:variable-missing', detail=f'{n} not defined by the model\n{b.text}')
            if got[n] is UNDEF:
                raise Violation('semantics:variable-undefined', detail=f'{n} has no value (Piecewise without matching branch or undefined symbol: {UNDEF_WHY.get(n)})\n{b.text}', expected=ref[n])
            if not close(got[n], ref[n], rtol=1e-9, atol=1e-12):
                raise Violation(_value_clause(n, b, feats), observed=got[n], expected=ref[n], detail=f'{n} at sample {k}\n{b.text}')
        if ode is not None:
            # right-hand sides, entrywise in NONMEM numbering
            benv = dict(got)
            for eq in ode.eqs:
                lhs = eq.lhs._sympy_() if hasattr(eq.lhs, '_sympy_') else eq.lhs
                fn = lhs.args[0]
                cname = str(fn.func)[2:]
                num = cmap.get(cname)
                if num is None:
                    raise Violation('ode:compartment-not-in-map', detail=f'{cname} {cmap}')
                try:
                    val = ev(eq.rhs, {k_: v_ for k_, v_ in benv.items() if v_ is not UNDEF})
                except Undefined as u:
                    raise Violation(f'ode:undefined-symbol:ADVAN{b.advan}-TRANS{b.trans}', detail=f'd{cname}/dt uses {u} which nothing defines\n{b.text}')
                d = R.rhs_from_rates(rates, amounts, ncomp)
                # TRANS5/6 derive the micro constants through differences of nearly equal terms:
                # algebraically equal evaluation orders differ by cancellation error (stated tolerance 1e-6)
                rt = 1e-6 if b.trans in (5, 6) else 1e-9
                scale_ = max(abs(x) for x in d.values())
                if not close(val, d[num], rtol=rt, atol=rt * scale_):
                    raise Violation(f'ode:rhs:ADVAN{b.advan}-TRANS{b.trans}', observed=val, expected=d[num], detail=f'd/dt of compartment {num} ({cname})\n{b.text}')
            if len(ode.eqs) != ncomp:
                raise Violation('ode:compartment-count', observed=len(ode.eqs), expected=ncomp)
            # dose compartment, lag, bioavailability
            dnum = R.ADVAN_DEFDOSE[b.advan]
            inv = {v_: k_ for k_, v_ in cmap.items()}
            dcs = guard(lambda: ode.dosing_compartments, allowed=(), clause='ode:dosing_compartments')
            if [c.name for c in dcs] != [inv[dnum]]:
                raise Violation('ode:dose-compartment', observed=[c.name for c in dcs], expected=inv[dnum])
            dose = dcs[0].doses[0]
            if type(dose).__name__ != 'Bolus' or str(dose.amount) != 'AMT':
                raise Violation('ode:dose-kind', observed=repr(dose), expected='Bolus(AMT)')
            for cname, num in cmap.items():
                if cname == 'OUTPUT':
                    continue
                comp = ode.find_compartment(cname)
                lag = ev(comp.lag_time, {k_: v_ for k_, v_ in got.items() if v_ is not UNDEF})
                bio = ev(comp.bioavailability, {k_: v_ for k_, v_ in got.items() if v_ is not UNDEF})
                elag = ref.get(f'ALAG{num}', 0.0)
                ebio = ref.get(f'F{num}', 1.0)
                if not close(lag, elag) or not close(bio, ebio):
                    raise Violation('ode:lag-or-bioavailability', observed=(lag, bio), expected=(elag, ebio), detail=f'compartment {num} {cname}')
        nsamples += 1
    if nsamples == 0:
        raise Reject('no finite sample away from branch points')

    classes = sorted(feats - {f for f in feats if f.startswith('fn:')}) + sorted('p:' + f for f in pfeats)
    classes += [f for f in feats if f.startswith('fn:')]
    if b.kind == 'advan':
        classes.append(f'ADVAN{b.advan}-TRANS{b.trans}')
    nt = bool(feats & {'reassignment', 'if_keeps_previous', 'block_if_multi', 'function', 'precedence'}) or bool(pfeats) or (b.kind == 'advan' and (b.advan, b.trans) != (1, 1))
    return CaseInfo(nontrivial=nt, classes=tuple(classes), key=None, render=b.text, evals=nsamples)


UNDEF = object()
UNDEF_WHY = {}


def run_ir(stmts, env, b):
    from pharmpy.model import Assignment

    env = dict(env)
    for s in stmts:
        if isinstance(s, Assignment):
            name = str(s.symbol)
            try:
                env[name] = ev(s.expression, {k: v for k, v in env.items() if v is not UNDEF})
            except Undefined as u:
                env[name] = UNDEF
                UNDEF_WHY[name] = str(u)
            except EvalError as e:
                raise HarnessError(f'cannot evaluate IR statement {s!r}: {e}')
    return env


def _value_clause(n, b, feats):
    return 'semantics:value'


SUBCHECKS = [
    SubCheck('pred', lambda: PRED_SPEC, run_case, quick=220, thorough=2280, quick_time=240, thorough_time=3000),
    SubCheck('advan', lambda: ADVAN_SPEC, run_case, quick=220, thorough=2280, quick_time=240, thorough_time=3000),
]


# ==========================================================================================
# $MODEL-based structures: ADVAN5/7 (Kij / KiTj rate constants) and ADVAN6/8/9/13 ($DES)

from ..ref import nmmodel as NM  # noqa: E402

STRUCT_SPEC = st.fixed_dictionaries(
    dict(
        kind=st.sampled_from(['linear', 'des']),
        n=st.integers(1, 4),
        edges=st.lists(st.tuples(st.integers(0, 3), st.integers(0, 3), st.integers(0, 5)).map(list), min_size=0, max_size=6),
        outs=st.lists(st.integers(0, 3), min_size=1, max_size=2),
        defdose=st.integers(0, 5),
        defobs=st.integers(0, 5),
        names=st.integers(0, 3),
        scale=st.booleans(),
        alag=st.booleans(),
        bio=st.booleans(),
        mm=st.booleans(),
        kt=st.booleans(),
        advan=st.integers(0, 3),
        termorder=st.integers(0, 3),
        sumflow=st.integers(0, 3),
        noise=G.NOISE,
        vals=st.lists(st.integers(1, 60), min_size=24, max_size=24),
    )
)

NAMESETS = [
    ['CENTRAL', 'PERIPH', 'DEPOT', 'EFFECT'],
    ['DEPOT', 'CENTRAL', 'PERI1', 'PERI2'],
    ['COMP1', 'COMP2', 'COMP3', 'COMP4'],
    ['GUT', 'CENTRAL', 'TISSUE', 'DEEP'],
]


def build_struct(spec):
    b = Built()
    n = 1 + (spec['n'] - 1) % 4
    names = NAMESETS[spec['names'] % len(NAMESETS)][:n]
    kind = spec['kind'] if spec['kind'] in ('linear', 'des') else 'des'
    edges = {}
    for i, j, _ in spec['edges'][:6]:
        i, j = i % n, j % n
        if i != j:
            edges[(i + 1, j + 1)] = True
    outs = sorted({1 + o % n for o in spec['outs'][:2]})
    # every compartment must be connected to something so that to_compartmental_system sees it
    for c in range(1, n + 1):
        if not any(c in e for e in edges) and c not in outs:
            edges[(c, 1 + c % n)] = True if n > 1 else None
            if n == 1:
                outs = [1]
    edges = {e: v for e, v in edges.items() if v}
    defdose = 1 + spec['defdose'] % n if spec['defdose'] % 6 < 4 else None
    defobs = 1 + spec['defobs'] % n if spec['defobs'] % 6 < 4 else None
    comps = []
    for i, nm in enumerate(names, 1):
        opts = []
        if defdose == i:
            opts.append('DEFDOSE')
        if defobs == i:
            opts.append(['DEFOBS', 'DEFOBSERVATION'][spec['termorder'] % 2])
        comps.append(f'COMP=({nm}{" " if opts else ""}{" ".join(opts)})' if spec['termorder'] % 2 else f'COMPARTMENT=({nm}{" " if opts else ""}{" ".join(opts)})')
    pk = []
    rate_names = {}
    k = 0
    for (i, j) in sorted(edges):
        nm = f'K{i}T{j}' if (kind == 'linear' and spec['kt']) else f'K{i}{j}'
        rate_names[(i, j)] = nm
        pk.append(('asg', nm, ('bin', '*', ('num', float(k + 2) / 10, repr(float(k + 2) / 10)), ('call', 'EXP', (('bin', '*', ('num', 0.1, '0.1'), ('idx', 'THETA', (1 + k % 3,))),)))))
        k += 1
    for i in outs:
        nm = f'K{i}T0' if (kind == 'linear' and spec['kt']) else f'K{i}0'
        rate_names[(i, 0)] = nm
        pk.append(('asg', nm, ('bin', '*', ('num', float(k + 2) / 10, repr(float(k + 2) / 10)), ('call', 'EXP', (('idx', 'ETA', (1,)),)))))
        k += 1
    mm = None
    if kind == 'des' and spec['mm']:
        mm = outs[0]
        pk.append(('asg', 'VM', ('bin', '+', ('num', 2.0, '2'), ('idx', 'THETA', (2,)))))
        pk.append(('asg', 'KM', ('bin', '+', ('num', 3.0, '3'), ('idx', 'THETA', (3,)))))
    # observation / dose compartments by NM-TRAN defaults
    tm_comps = [(nm, set()) for nm in names]
    obs = defobs or next((i for i, nm in enumerate(names, 1) if nm == 'CENTRAL'), 1)
    dose = defdose or next((i for i, nm in enumerate(names, 1) if nm == 'DEPOT'), 1)
    b.scale_name = None
    if spec['scale']:
        b.scale_name = f'S{obs}'
        pk.append(('asg', b.scale_name, ('bin', '+', ('num', 5.0, '5'), ('idx', 'THETA', (1,)))))
    if spec['alag']:
        pk.append(('asg', f'ALAG{dose}', ('bin', '*', ('num', 0.5, '0.5'), ('idx', 'THETA', (2,)))))
    if spec['bio']:
        pk.append(('asg', f'F{dose}', ('bin', '/', ('num', 1.0, '1'), ('bin', '+', ('num', 1.0, '1'), ('call', 'EXP', (('idx', 'THETA', (3,)),))))))
    des = []
    # one flow may be the sum of two rate constants, written (K+KX)*A(i) or as two separate terms
    sumedge = None
    if kind == 'des' and spec.get('sumflow', 0) % 4 in (1, 2) and rate_names:
        sumedge = sorted(rate_names)[0]
        if mm is not None and sumedge == (mm, 0):
            sumedge = None
    if sumedge is not None:
        pk.append(('asg', 'KX', ('bin', '*', ('num', 0.15, '0.15'), ('call', 'EXP', (('bin', '*', ('num', 0.2, '0.2'), ('idx', 'THETA', (2,))),)))))
    if kind == 'des':
        for c in range(1, n + 1):
            terms = []
            for (i, j), nm in sorted(rate_names.items()):
                rate = ('var', nm)
                extra = None
                if (i, j) == sumedge:
                    if spec['sumflow'] % 4 == 1:
                        rate = ('bin', '+', ('var', nm), ('var', 'KX'))
                    else:
                        extra = ('var', 'KX')
                if i == c:
                    if mm == c and j == 0:
                        continue
                    terms.append(('neg', ('bin', '*', rate, ('idx', 'A', (c,)))) if spec['termorder'] < 2 else ('neg', ('bin', '*', ('idx', 'A', (c,)), rate)))
                    if extra is not None:
                        terms.append(('neg', ('bin', '*', extra, ('idx', 'A', (c,)))))
                if j == c:
                    terms.append(('bin', '*', rate, ('idx', 'A', (i,))))
                    if extra is not None:
                        terms.append(('bin', '*', extra, ('idx', 'A', (i,))))
            if mm == c:
                terms.append(('neg', ('bin', '/', ('bin', '*', ('var', 'VM'), ('idx', 'A', (c,))), ('bin', '+', ('var', 'KM'), ('idx', 'A', (c,))))))
            if spec['termorder'] % 2:
                terms = terms[::-1]
            # first term may be negative; print as sum
            e = None
            for t in terms:
                if e is None:
                    e = t
                elif t[0] == 'neg':
                    e = ('bin', '-', e, t[1])
                else:
                    e = ('bin', '+', e, t)
            if e is None:
                e = ('num', 0.0, '0')
            des.append(('asg', f'DADT({c})', e))
        if mm is not None:
            rate_names.pop((mm, 0), None)
            pk[:] = [s_ for s_ in pk if s_[1] != f'K{mm}0']
    b.n, b.names, b.kind = n, names, kind
    err = [('asg', 'IPRED', ('var', 'F')), ('asg', 'Y', ('bin', '+', ('var', 'IPRED'), ('bin', '*', ('var', 'IPRED'), ('idx', 'EPS', (1,)))))]
    p = G.Printer(spec['noise'])
    advan = [5, 7][spec['advan'] % 2] if kind == 'linear' else [6, 13, 8, 9][spec['advan'] % 4]
    out = ['$PROBLEM generated structural model', '$INPUT ID TIME AMT DV', '$DATA gen.csv IGNORE=@', f'$SUBROUTINES ADVAN{advan}' + (' TOL=5' if kind == 'des' else ''), '$MODEL ' + ' '.join(comps), '$PK']
    out += p.code(pk)
    if kind == 'des':
        out.append('$DES')
        out += p.code(des)
    out.append('$ERROR')
    out += p.code(err)
    out += ['$THETA (0,1) (0,0.5,5) 0.3', '$OMEGA 0.1', '$SIGMA 0.04', '$ESTIMATION METHOD=1 INTER']
    b.text = '\n'.join(out) + '\n'
    b.pk, b.des, b.error = pk, des, err
    b.advan = advan
    b.expect_dose, b.expect_obs = dose, obs
    b.edges, b.outs, b.mm = sorted(edges), outs, mm
    return b


def run_struct(spec):
    import warnings

    from pharmpy.modeling import read_model_from_string

    b = build_struct(spec)
    try:
        tm = NM.TextModel(b.text)
    except (R.Unsupported, R.NMSyntaxError) as e:
        raise HarnessError(f'reference cannot parse generated text: {e}\n{b.text}')
    if (tm.defdose, tm.defobs, tm.ncomp) != (b.expect_dose, b.expect_obs, b.n):
        raise HarnessError(f'reference $MODEL defaults differ from generator: {(tm.defdose, tm.defobs, tm.ncomp)} vs {(b.expect_dose, b.expect_obs, b.n)}\n{b.text}')
    for nm, ast in (('PK', b.pk), ('DES', b.des), ('ERROR', b.error)):
        if ast and tm.code.get(nm) != G.strip_code(ast):
            raise HarnessError(f'reference parse of ${nm} differs from generator AST\n{tm.code.get(nm)}\n{G.strip_code(ast)}\n{b.text}')
    with warnings.catch_warnings():
        warnings.simplefilter('ignore')
        model = guard(read_model_from_string, b.text, allowed=(), clause=f'read[{b.kind}]')
    ode = model.statements.ode_system
    if ode is None:
        raise Violation(f'struct[{b.kind}]:no-ode-system', detail=b.text)
    cmap = dict(getattr(model.internals, 'compartment_map', None) or {})
    cmap.pop('OUTPUT', None)
    exp_map = {nm: i for i, nm in enumerate(b.names, 1)}
    if cmap != exp_map:
        raise Violation(f'struct[{b.kind}]:compartment-map', observed=cmap, expected=exp_map, detail=b.text)
    if sorted(ode.compartment_names) != sorted(b.names):
        raise Violation(f'struct[{b.kind}]:compartment-names', observed=ode.compartment_names, expected=b.names, detail=b.text)
    rvp = set(model.random_variables.parameter_names)
    ths = [p_.name for p_ in model.parameters if p_.name not in rvp]
    etas = list(model.random_variables.etas.names)
    epss = list(model.random_variables.epsilons.names)
    used = 0
    for k in range(6):
        if used >= 3:
            break
        pt = modeleval.sample_point(model, spec['vals'][0] + k)
        theta = [pt.params[n_] for n_ in ths]
        eta = [pt.etas[n_] for n_ in etas]
        eps = [pt.eps[n_] for n_ in epss]
        data = {c.upper(): v for c, v in pt.data.items()}
        amounts = {exp_map[c]: pt.amounts[c] for c in b.names}
        try:
            tv = tm.evaluate(theta, eta, eps, data, amounts)
        except R.UndefinedVariable as u:
            raise HarnessError(f'generated program reads undefined variable {u}\n{b.text}')
        if tv['nonfinite']:
            continue
        mv = modeleval.evaluate(model, pt)
        used += 1
        for c in b.names:
            a = mv.rhs.get(c)
            if a is modeleval.UNDEF:
                raise Violation(f'struct[{b.kind}]:undefined-symbol-in-ode', observed=mv.undefined, detail=b.text)
            if not close(a, tv['rhs'][exp_map[c]], rtol=1e-9, atol=1e-12):
                raise Violation(f'struct[{b.kind}]:ode-rhs', observed=a, expected=tv['rhs'][exp_map[c]], detail=f'd/dt of {c} (compartment {exp_map[c]})\n{b.text}')
        dosed = sorted(exp_map[c] for c in mv.doses)
        if dosed != [tm.defdose]:
            raise Violation(f'struct[{b.kind}]:dose-compartment', observed=dosed, expected=[tm.defdose], detail=b.text)
        for c in mv.doses:
            n_ = exp_map[c]
            if not close(mv.lag[c], tv['pk'].get(f'ALAG{n_}', 0.0)) or not close(mv.bio[c], tv['pk'].get(f'F{n_}', 1.0)):
                raise Violation(f'struct[{b.kind}]:lag-or-bioavailability', observed=(mv.lag[c], mv.bio[c]), expected=(tv['pk'].get(f'ALAG{n_}', 0.0), tv['pk'].get(f'F{n_}', 1.0)), detail=b.text)
        for name in ('F', 'IPRED', 'Y'):
            got = mv.vars.get(name, modeleval.UNDEF)
            if got is modeleval.UNDEF or not close(got, tv['err'][name], rtol=1e-9, atol=1e-12):
                raise Violation(f'struct[{b.kind}]:value:{name}', observed=None if got is modeleval.UNDEF else got, expected=tv['err'][name], detail=b.text)
    if used == 0:
        raise Reject('no finite sample')
    classes = [b.kind, f'ADVAN{b.advan}', f'n={b.n}', f'defobs={"explicit" if spec["defobs"] % 6 < 4 else "default"}', f'defdose={"explicit" if spec["defdose"] % 6 < 4 else "default"}']
    if b.mm:
        classes.append('michaelis-menten')
    cyc = any((j, i) in b.edges for (i, j) in b.edges)
    if cyc:
        classes.append('bidirectional')
    if spec['kt'] and b.kind == 'linear':
        classes.append('KiTj-names')
    if b.kind == 'des' and spec.get('sumflow', 0) % 4 in (1, 2):
        classes.append('flow-sum-of-two-rates')
    nt = b.n >= 2 and (cyc or len(b.outs) > 1 or b.mm is not None or b.expect_obs != 1 or b.expect_dose != 1)
    return CaseInfo(nontrivial=nt, classes=tuple(classes), render=b.text, evals=used)


from .. import modeleval  # noqa: E402

SUBCHECKS.append(SubCheck('logic', lambda: LOGIC_SPEC, run_case, quick=200, thorough=2000, quick_time=240, thorough_time=3000))
SUBCHECKS.append(SubCheck('struct', lambda: STRUCT_SPEC, run_struct, quick=160, thorough=1660, quick_time=240, thorough_time=3000))


# ==========================================================================================
# IF blocks: every branch is visited (conditions select on a data item, samples iterate over it)

BLOCK_SPEC = st.fixed_dictionaries(
    dict(
        nvar=st.integers(2, 4),
        pre=st.lists(st.booleans(), min_size=4, max_size=4),  # which variables are assigned before the blocks
        blocks=st.lists(
            st.fixed_dictionaries(
                dict(
                    nbr=st.integers(1, 4),
                    els=st.booleans(),
                    assign=st.lists(st.lists(st.integers(0, 7), min_size=0, max_size=3), min_size=5, max_size=5),
                    sel=st.integers(0, 2),
                )
            ),
            min_size=1,
            max_size=2,
        ),
        logical=st.lists(st.tuples(st.integers(0, 3), st.integers(0, 4)).map(list), min_size=0, max_size=2),
        noise=G.NOISE,
        selfref=st.booleans(),
    )
)


def build_blocks(spec):
    nvar = 2 + (spec['nvar'] - 2) % 3
    vars_ = [f'X{i + 1}' for i in range(nvar)]
    stmts = []
    defs = set()
    c = [0]

    def val(v, self_ok):
        c[0] += 1
        base = ('bin', '+', ('num', float(c[0]), str(c[0])), ('bin', '*', ('num', 0.5, '0.5'), ('idx', 'THETA', (1 + c[0] % 2,))))
        if self_ok and spec['selfref'] and v in defs and c[0] % 3 == 0:
            return ('bin', '+', ('var', v), base)  # X = X + ...: reads its own previous value only
        return base

    for i, v in enumerate(vars_):
        if spec['pre'][i % 4]:
            stmts.append(('asg', v, val(v, False)))
            defs.add(v)
    sels = ['GRP', 'GRP', 'SEL']
    maxsel = 1
    for bl in spec['blocks'][:2]:
        nbr = 1 + (bl['nbr'] - 1) % 4
        sel = sels[bl['sel'] % 3]
        branches = []
        assigned_all = None
        for bi in range(nbr):
            names = []
            for k in bl['assign'][bi % 5][:3]:
                v = vars_[k % nvar]
                if v not in names:
                    names.append(v)
            body = [('asg', v, val(v, True)) for v in names]
            cond = ('rel', '==', ('var', sel), ('num', float(bi + 1), str(bi + 1)), ['.EQ.', '=='][bi % 2])
            branches.append((cond, body))
            assigned_all = set(names) if assigned_all is None else assigned_all & set(names)
        els = None
        if bl['els']:
            names = []
            for k in bl['assign'][4][:3]:
                v = vars_[k % nvar]
                if v not in names:
                    names.append(v)
            els = [('asg', v, val(v, True)) for v in names]
            assigned_all &= set(names)
            defs |= assigned_all
        stmts.append(('if', branches, els))
        maxsel = max(maxsel, nbr + 1)
    for vi, gi in spec['logical'][:2]:
        v = vars_[vi % nvar]
        stmts.append(('if', [(('rel', '==', ('var', 'GRP'), ('num', float(1 + gi % 4), str(1 + gi % 4)), '.EQ.'), [('asg', v, val(v, True))])], None))
    readable = sorted(defs)
    y = ('idx', 'THETA', (1,))
    for v in readable:
        y = ('bin', '+', y, ('var', v))
    stmts.append(('asg', 'Y', ('bin', '+', y, ('idx', 'EPS', (1,)))))
    p = G.Printer(spec['noise'])
    text = '\n'.join(['$PROBLEM generated IF blocks', '$INPUT ID TIME GRP SEL DV', '$DATA gen.csv IGNORE=@', '$PRED'] + p.code(stmts) + ['$THETA 0.7 1.3', '$OMEGA 0.1', '$SIGMA 0.04', '$ESTIMATION METHOD=1 INTER']) + '\n'
    return text, stmts, readable, maxsel, vars_


def run_blocks(spec):
    import warnings

    from pharmpy.modeling import read_model_from_string

    text, stmts, readable, maxsel, vars_ = build_blocks(spec)
    tm = NM.TextModel(text)
    if tm.code.get('PRED') != G.strip_code(stmts):
        raise HarnessError(f'reference parse differs from generator AST\n{text}')
    with warnings.catch_warnings():
        warnings.simplefilter('ignore')
        model = guard(read_model_from_string, text, allowed=(), clause='read[blocks]')
    ths = [p_.name for p_ in model.parameters if p_.name not in set(model.random_variables.parameter_names)]
    etas = list(model.random_variables.etas.names)
    epss = list(model.random_variables.epsilons.names)
    used = 0
    for grp in range(1, maxsel + 1):
        for sel in range(1, maxsel + 1):
            pt = modeleval.sample_point(model, grp * 7 + sel)
            pt.data.update(GRP=float(grp), SEL=float(sel))
            theta = [pt.params[n_] for n_ in ths]
            tv = tm.evaluate(theta, [pt.etas[n_] for n_ in etas], [pt.eps[n_] for n_ in epss], {k.upper(): v for k, v in pt.data.items()}, {})
            mv = modeleval.evaluate(model, pt)
            used += 1
            for v in readable + ['Y']:
                got = mv.vars.get(v, modeleval.UNDEF)
                exp = tv['err'][v]
                if got is modeleval.UNDEF or not close(got, exp, rtol=1e-9, atol=1e-12):
                    raise Violation('blocks:value', observed=None if got is modeleval.UNDEF else got, expected=exp, detail=f'{v} at GRP={grp} SEL={sel}\n{text}')
            # variables that are assigned on the executed path (but not on every path) must agree as well
            for v in vars_:
                if v in readable:
                    continue
                if v in tv['err']:
                    got = mv.vars.get(v, modeleval.UNDEF)
                    if got is modeleval.UNDEF or not close(got, tv['err'][v], rtol=1e-9, atol=1e-12):
                        raise Violation('blocks:value-on-executed-path', observed=None if got is modeleval.UNDEF else got, expected=tv['err'][v], detail=f'{v} at GRP={grp} SEL={sel}\n{text}')
    nbl = [1 + (b_['nbr'] - 1) % 4 for b_ in spec['blocks'][:2]]
    classes = [f'branches={max(nbl)}', 'else' if any(b_['els'] for b_ in spec['blocks'][:2]) else 'no-else', f'blocks={len(nbl)}']
    partial = any(True for s_ in stmts if s_[0] == 'if' and len({tuple(sorted(a[1] for a in body)) for _, body in s_[1]}) > 1)
    if partial:
        classes.append('branches-assign-different-variables')
    return CaseInfo(nontrivial=partial and max(nbl) >= 2, classes=tuple(classes), render=text, evals=used)


SUBCHECKS.append(SubCheck('blocks', lambda: BLOCK_SPEC, run_blocks, quick=240, thorough=2500, quick_time=240, thorough_time=3000))
