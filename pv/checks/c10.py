"""C10 -- Statement dataflow analyses are sound.

Generated straight-line programs (JSON AST) are interpreted by a reference interpreter
working on the AST / on reaching definitions, and compared with pharmpy's
Statements.{full_expression, dependencies, find_assignment, direct_dependencies, reassign,
subs, remove_symbol_definitions} and modeling.remove_unused_parameters_and_rvs.
"""

from __future__ import annotations

import math

import sympy
from hypothesis import strategies as st

from ..core import CaseInfo, HarnessError, Reject, SubCheck, Violation, guard
from ..irsem import EvalError, Undefined, close, ev

PROPERTY = 'C10'
LEVEL = 'exploration'
RULE = (
    'Straight-line programs of <=12 statements over assigned symbols A..F, leaves T1..T4 (parameters), '
    'E1,E2 (random variables), C1,C2,AMT (data columns), with redefinitions, self-reference to the earlier '
    'value, Piecewise right-hand sides and an optional 1-3 compartment ODE system whose rates use assigned '
    'symbols; every non-leaf symbol is defined before use (what Model.create enforces). Non-trivial = a symbol '
    'assigned >=2 times with a use in between, or a diamond, or a dependency through the ODE. Distinct = hash of the spec.'
)
ASSUMPTIONS = [
    'sympy free_symbols / numeric evaluation by own tree walker are trusted',
    'true dependencies are computed by reaching definitions over the constructed statements; a semantic '
    'perturbation test cross-checks the reference itself (harness error on disagreement)',
]

ASSIGNED = ['A', 'B', 'C', 'D', 'E', 'F']
PARAMS = ['T1', 'T2', 'T3', 'T4']
RVS = ['E1', 'E2']
COLS = ['C1', 'C2', 'AMT']
LEAVES = PARAMS + RVS + COLS
NUMS = [1, 2, 3, 0.5, 1.5]

# ------------------------------------------------------------------------------------------
# generator


def _expr(depth):
    leaf = st.one_of(
        st.tuples(st.just('s'), st.integers(0, 40)),
        st.tuples(st.just('n'), st.integers(0, len(NUMS) - 1)),
    )
    if depth == 0:
        return leaf
    sub = _expr(depth - 1)
    return st.one_of(
        leaf,
        st.tuples(st.just('s'), st.integers(0, 40)),
        st.tuples(st.sampled_from(['+', '*']), sub, sub),
        st.tuples(st.just('sq'), sub),
        st.tuples(st.just('pw'), sub, sub, sub, sub),
    )


def _tolist(x):
    if isinstance(x, tuple):
        return [_tolist(y) for y in x]
    return x


EXPR = _expr(2).map(_tolist)

PROG = st.fixed_dictionaries(
    dict(
        prog=st.lists(st.tuples(st.integers(0, 5), EXPR, st.integers(0, 9)).map(_tolist), min_size=1, max_size=12),
        ode=st.one_of(
            st.none(),
            st.fixed_dictionaries(dict(pos=st.integers(0, 12), rates=st.lists(EXPR, min_size=1, max_size=3))),
        ),
        q=st.integers(0, 40),
        q2=st.integers(0, 40),
        vals=st.lists(st.integers(1, 40), min_size=12, max_size=12),
        e=EXPR,
        rm=st.lists(st.integers(0, 5), min_size=1, max_size=3),
        use=st.lists(st.booleans(), min_size=9, max_size=9),
    )
)


# ------------------------------------------------------------------------------------------
# building: AST -> (reference structures, sympy expressions)


class Prog:
    """Resolved program: list of ('asg', lhs, ast) / ('ode', n, [rate asts]) with all symbol
    references resolved to names (valid mode: only leaves and symbols defined earlier)."""

    def __init__(self, spec, leaf_assign=False):
        items = []
        stmts = spec['prog'][:12]
        ode = spec.get('ode')
        pos = None
        if ode is not None:
            pos = ode['pos'] % (len(stmts) + 1)
        defined = []
        amounts = []
        self.ncomp = 0
        i = 0
        for k in range(len(stmts) + 1):
            if pos is not None and k == pos:
                rates = ode['rates'][:3]
                avail = LEAVES + defined
                rr = [self._resolve(r, avail) for r in rates]
                self.ncomp = len(rr)
                items.append(('ode', self.ncomp, rr))
                amounts = [f'A_X{j + 1}(t)' for j in range(self.ncomp)]
            if k == len(stmts):
                break
            lhs_i, e, la = stmts[k]
            lhs = ASSIGNED[lhs_i % 6]
            if leaf_assign and la == 0:
                lhs = COLS[lhs_i % 2]
            avail = LEAVES + defined + amounts
            items.append(('asg', lhs, self._resolve(e, avail)))
            if lhs not in defined and lhs not in LEAVES:
                defined.append(lhs)
        self.items = items
        self.amount_names = amounts if pos is not None else []

    @staticmethod
    def _resolve(e, avail):
        op = e[0]
        if op == 's':
            return ['s', avail[e[1] % len(avail)]]
        if op == 'n':
            return ['n', NUMS[e[1] % len(NUMS)]]
        if op == 'pw':
            # condition operands must be piecewise-free (sympy would build ITE conditions,
            # which pharmpy's Expr does not represent): nested pw there is replaced by its first branch
            return ['pw', Prog._resolve(_nopw(e[1]), avail), Prog._resolve(_nopw(e[2]), avail), Prog._resolve(e[3], avail), Prog._resolve(e[4], avail)]
        return [op] + [Prog._resolve(a, avail) for a in e[1:]]

    def render(self):
        out = []
        for it in self.items:
            if it[0] == 'asg':
                out.append(f'{it[1]} = {rend(it[2])}')
            else:
                out.append('ODE[' + '; '.join(f'X{j + 1}->{"X%d" % (j + 2) if j + 1 < it[1] else "out"}: {rend(r)}' for j, r in enumerate(it[2])) + ']')
        return out


def _nopw(e):
    if e[0] == 'pw':
        return _nopw(e[3])
    if e[0] in ('s', 'n'):
        return e
    return [e[0]] + [_nopw(x) for x in e[1:]]


def rend(a):
    op = a[0]
    if op in ('s', 'n'):
        return str(a[1])
    if op in ('+', '*'):
        return f'({rend(a[1])} {op} {rend(a[2])})'
    if op == 'sq':
        return f'({rend(a[1])})**2'
    if op == 'pw':
        return f'PW({rend(a[3])} if {rend(a[1])} < {rend(a[2])} else {rend(a[4])})'
    raise HarnessError(op)


def ast_eval(a, env):
    op = a[0]
    if op == 's':
        if a[1] not in env:
            raise Undefined(a[1])
        return env[a[1]]
    if op == 'n':
        return float(a[1])
    if op == '+':
        return ast_eval(a[1], env) + ast_eval(a[2], env)
    if op == '*':
        return ast_eval(a[1], env) * ast_eval(a[2], env)
    if op == 'sq':
        return ast_eval(a[1], env) ** 2
    if op == 'pw':
        if ast_eval(a[1], env) < ast_eval(a[2], env):
            return ast_eval(a[3], env)
        return ast_eval(a[4], env)
    raise HarnessError(op)


def ast_reads(a, out=None):
    if out is None:
        out = set()
    if a[0] == 's':
        out.add(a[1])
    elif a[0] != 'n':
        for x in a[1:]:
            ast_reads(x, out)
    return out


def to_sympy(a):
    op = a[0]
    if op == 's':
        nm = a[1]
        if nm.endswith('(t)'):
            return sympy.Function(nm[:-3])(sympy.Symbol('t'))
        return sympy.Symbol(nm)
    if op == 'n':
        v = a[1]
        return sympy.Integer(v) if float(v).is_integer() else sympy.Float(v)
    if op == '+':
        return to_sympy(a[1]) + to_sympy(a[2])
    if op == '*':
        return to_sympy(a[1]) * to_sympy(a[2])
    if op == 'sq':
        return to_sympy(a[1]) ** 2
    if op == 'pw':
        c = sympy.Lt(to_sympy(a[1]), to_sympy(a[2]))
        return sympy.Piecewise((to_sympy(a[3]), c), (to_sympy(a[4]), True))
    raise HarnessError(op)


def build_statements(p: Prog):
    from pharmpy.basic import Expr
    from pharmpy.model import (
        Assignment,
        Bolus,
        Compartment,
        CompartmentalSystem,
        CompartmentalSystemBuilder,
        Statements,
        output,
    )

    sts = []
    for it in p.items:
        if it[0] == 'asg':
            sts.append(Assignment.create(Expr.symbol(it[1]), Expr(to_sympy(it[2]))))
        else:
            cb = CompartmentalSystemBuilder()
            comps = []
            for j in range(it[1]):
                c = Compartment.create(f'X{j + 1}', doses=(Bolus.create('AMT'),) if j == 0 else ())
                cb.add_compartment(c)
                comps.append(c)
            for j, r in enumerate(it[2]):
                dest = comps[j + 1] if j + 1 < it[1] else output
                cb.add_flow(comps[j], dest, Expr(to_sympy(r)))
            sts.append(CompartmentalSystem(cb))
    return Statements(sts)


# ------------------------------------------------------------------------------------------
# reference analyses (on items; symbol reads taken from the built sympy expressions so that
# sympy's automatic simplification -- e.g. Piecewise with an identical condition -- is respected)


def item_reads(stmts, p: Prog):
    """per statement: set of names read (symbols and applied amount functions)."""
    from pharmpy.model import Assignment

    reads = []
    for s, it in zip(stmts, p.items):
        if it[0] == 'asg':
            assert isinstance(s, Assignment)
            e = s.expression._sympy_()
            names = {str(x) for x in e.free_symbols} | {str(f) for f in e.atoms(sympy.Function) if isinstance(f, sympy.core.function.AppliedUndef)}
            if any(nm.endswith('(t)') for nm in names):
                names.discard('t')
            reads.append(names)
        else:
            # read from the stored rate expressions (pharmpy's Expr layer folds conditions such as
            # `C < C` that plain sympy keeps, so the stored IR is the reference for 'what is read')
            from pharmpy.model import output

            names = set()
            cn = [f'X{j + 1}' for j in range(it[1])]
            for j in range(it[1]):
                dest = s.find_compartment(cn[j + 1]) if j + 1 < it[1] else output
                rate = s.get_flow(s.find_compartment(cn[j]), dest)
                names |= {str(x) for x in rate._sympy_().free_symbols}
            names.add('AMT')
            reads.append(names)
    return reads


def item_defs(p: Prog):
    defs = []
    for it in p.items:
        if it[0] == 'asg':
            defs.append({it[1]})
        else:
            defs.append({f'A_X{j + 1}(t)' for j in range(it[1])})
    return defs


def reaching(reads, defs):
    """reach[i][name] = index of latest earlier statement defining name, or None (leaf read)"""
    reach = []
    last = {}
    for i, (r, d) in enumerate(zip(reads, defs)):
        reach.append({nm: last.get(nm) for nm in r})
        for nm in d:
            last[nm] = i
    return reach


def leaf_deps(i, reach, memo):
    if i in memo:
        return memo[i]
    out = set()
    for nm, j in reach[i].items():
        if j is None:
            out.add(nm)
        else:
            out |= leaf_deps(j, reach, memo)
    memo[i] = out
    return out


def run_ref(p: Prog, env, amounts):
    env = dict(env)
    for it in p.items:
        if it[0] == 'asg':
            env[it[1]] = ast_eval(it[2], env)
        else:
            for nm in [f'A_X{j + 1}(t)' for j in range(it[1])]:
                env[nm] = amounts[nm]
    return env


def make_env(spec):
    vals = spec['vals']
    # values are 'generic': a distinct irrational-ish offset per leaf keeps comparisons between small integer
    # combinations of leaves away from exact ties (sympy/symengine may rewrite a relational, e.g. divide by a
    # coefficient, which can flip an exact tie through rounding)
    env = {nm: 0.25 * v + 0.0137 * math.sqrt(2 + 3 * i) for i, (nm, v) in enumerate(zip(LEAVES, vals))}
    amounts = {f'A_X{j + 1}(t)': 0.25 * vals[9 + j] + 0.125 for j in range(3)}
    return env, amounts


def run_pharmpy(stmts, env, amounts):
    """sequential numeric execution of pharmpy statements (E1)"""
    from pharmpy.model import Assignment

    env = dict(env)
    for s in stmts:
        if isinstance(s, Assignment):
            env[str(s.symbol)] = ev(s.expression, env)
        else:
            for a in s.amounts:
                env[str(a)] = amounts[str(a)]
    return env


def nontrivial(p: Prog, reads, defs, reach):
    classes = []
    # redefinition with a use in between
    seen_def = {}
    redef_use = False
    for i, it in enumerate(p.items):
        if it[0] != 'asg':
            continue
        nm = it[1]
        if nm in seen_def:
            j = seen_def[nm]
            if any(nm in reads[k] for k in range(j + 1, i + 1)):
                redef_use = True
        seen_def[nm] = i
    if redef_use:
        classes.append('redef_with_use')
    # diamond: some statement reaches another statement through two distinct direct deps
    def closure(i, memo={}):
        out = set()
        for j in reach[i].values():
            if j is not None:
                out.add(j)
                out |= closure(j)
        return out

    diamond = False
    for i in range(len(p.items)):
        ds = [j for j in set(reach[i].values()) if j is not None]
        if len(ds) >= 2:
            cl = [closure(j) | {j} for j in ds]
            for a in range(len(cl)):
                for b in range(a + 1, len(cl)):
                    if cl[a] & cl[b]:
                        diamond = True
    if diamond:
        classes.append('diamond')
    ode_dep = False
    for i, it in enumerate(p.items):
        if it[0] == 'asg' and any(nm.endswith('(t)') for nm in reads[i]):
            ode_dep = True
    if ode_dep:
        classes.append('through_ode')
    if any(it[0] == 'asg' and it[1] in LEAVES for it in p.items):
        classes.append('leaf_assigned')
    if any(_has_pw(it[2]) for it in p.items if it[0] == 'asg'):
        classes.append('piecewise')
    return classes


def _has_pw(a):
    if a[0] == 'pw':
        return True
    if a[0] in ('s', 'n'):
        return False
    return any(_has_pw(x) for x in a[1:])


def stmt_key(s):
    from pharmpy.model import Assignment

    if isinstance(s, Assignment):
        return ('asg', str(s.symbol), sympy.srepr(s.expression._sympy_()))
    return ('ode', repr(sorted((str(e.lhs), str(e.rhs)) for e in s.eqs)))


# ------------------------------------------------------------------------------------------
# sub-check 1: queries


def _run_dataflow(spec, leaf_assign=False):
    p = Prog(spec, leaf_assign=leaf_assign)
    stmts = build_statements(p)
    reads = item_reads(stmts, p)
    defs = item_defs(p)
    reach = reaching(reads, defs)
    env, amounts = make_env(spec)
    classes = nontrivial(p, reads, defs, reach)
    n = len(p.items)
    ode_idx = next((i for i, it in enumerate(p.items) if it[0] == 'ode'), None)

    # reference execution, and self check of E1 on the built statements
    try:
        ref_env = run_ref(p, env, amounts)
    except (OverflowError,):
        raise Reject('overflow')
    ph_env = run_pharmpy(stmts, env, amounts)
    for k, v in ref_env.items():
        if not close(v, ph_env.get(k, math.nan), rtol=1e-9):
            if math.isinf(v) or abs(v) > 1e200:
                raise Reject('overflow')
            raise HarnessError(f'AST evaluation and IR evaluation disagree on {k}: {v} vs {ph_env.get(k)}\n{p.render()}')

    all_syms = sorted({nm for d in defs for nm in d})
    last_def = {}
    for i, d in enumerate(defs):
        for nm in d:
            last_def[nm] = i
    evals = 0

    # --- find_assignment / find_assignment_index -------------------------------------
    from pharmpy.basic import Expr

    for nm in ASSIGNED + COLS[:2]:
        exp_i = last_def.get(nm) if nm in last_def and p.items[last_def[nm]][0] == 'asg' else None
        got_i = guard(stmts.find_assignment_index, nm, clause='find_assignment_index')
        if got_i != exp_i:
            raise Violation('find_assignment_index', observed=got_i, expected=exp_i, detail=f'{nm} in {p.render()}')
        got = guard(stmts.find_assignment, nm, clause='find_assignment')
        if (got is None) != (exp_i is None) or (got is not None and got != stmts[exp_i]):
            raise Violation('find_assignment', observed=repr(got), expected=exp_i, detail=f'{nm} in {p.render()}')
        evals += 1

    # --- full_expression ----------------------------------------------------------------
    # for lists without ODE: whole list; with ODE: before_odes and after_odes slices
    def check_full(slice_stmts, lo, hi, label):
        nonlocal evals
        # symbols defined in the slice
        syms = sorted({nm for i in range(lo, hi) for nm in defs[i]})
        if not syms:
            return
        # value of expression e "after executing the list" when the slice starts from an
        # environment holding leaves (+ anything defined before the slice, treated as inputs)
        start = dict(env)
        if lo > 0:
            # run reference up to lo to obtain inputs (incl. amounts)
            start = run_ref_prefix(p, env, amounts, lo)
        final = dict(start)
        for it in p.items[lo:hi]:
            final[it[1]] = ast_eval(it[2], final)
        for nm in syms:
            fe = guard(slice_stmts.full_expression, Expr.symbol(nm), clause=f'full_expression[{label}]')
            try:
                val = ev(fe, start)
            except Undefined as u:
                raise Violation(f'full_expression[{label}]:leftover-symbol', observed=str(fe), detail=f'symbol {u} is not an input; {nm} in {p.render()}')
            except EvalError as ee:
                raise HarnessError(str(ee))
            evals += 1
            if not close(val, final[nm], rtol=1e-8):
                raise Violation(f'full_expression[{label}]:value', observed=val, expected=final[nm], detail=f'{nm}: {fe} in {p.render()}')

    if ode_idx is None:
        check_full(stmts, 0, n, 'all')
    else:
        check_full(guard(lambda: stmts.before_odes, clause='before_odes'), 0, ode_idx, 'before_odes')
        check_full(guard(lambda: stmts.after_odes, clause='after_odes'), ode_idx + 1, n, 'after_odes')
        # whole list must refuse with ValueError (documented)
        try:
            stmts.full_expression(Expr.symbol(p.items[0][1] if p.items[0][0] == 'asg' else 'A'))
        except ValueError:
            pass
        except Exception as e:
            raise Violation(f'full_expression[all-with-ode]:{type(e).__name__}', detail=str(e))
        else:
            if ode_idx != n - 1 or True:
                # returning is only acceptable when the traversal never meets the ODE; it always does
                raise Violation('full_expression[all-with-ode]:no-refusal', detail=str(p.render()))

    # --- dependencies -------------------------------------------------------------------
    memo = {}
    single_assignment = all(sum(1 for d in defs if nm in d) == 1 for nm in all_syms)
    if single_assignment:
        classes.append('single_assignment')
    for nm in all_syms:
        i = last_def[nm]
        true = leaf_deps(i, reach, memo)
        arg = Expr(to_sympy(['s', nm]))
        got = guard(stmts.dependencies, arg, allowed=(), clause='dependencies')
        got_names = {str(x) for x in got}
        got_leaves = {g for g in got_names if g in LEAVES}
        evals += 1
        missing = {t for t in true if t in LEAVES} - got_leaves
        if missing:
            raise Violation('dependencies:missing', observed=sorted(got_names), expected=sorted(true), detail=f'{nm} misses {sorted(missing)} in {p.render()}')
        if single_assignment:
            extra = got_leaves - {t for t in true if t in LEAVES}
            if extra:
                raise Violation('dependencies:extra', observed=sorted(got_names), expected=sorted(true), detail=f'{nm} has extra {sorted(extra)} in {p.render()}')
    # unknown symbol -> KeyError (documented)
    try:
        stmts.dependencies(Expr.symbol('NOSUCH'))
    except KeyError:
        pass
    except Exception as e:
        raise Violation(f'dependencies:unknown-symbol:{type(e).__name__}', detail=str(e))
    else:
        raise Violation('dependencies:unknown-symbol:no-error')

    # semantic cross-check of the reference (harness self check): perturbing a leaf outside
    # `true` must not change the final value
    qn = all_syms[spec['q'] % len(all_syms)]
    qi = last_def[qn]
    true = leaf_deps(qi, reach, memo)
    base = ref_env[qn] if qn in ref_env else None
    if base is not None and p.items[qi][0] == 'asg':
        for lf in LEAVES:
            if lf in true:
                continue
            env2 = dict(env)
            env2[lf] = env[lf] * 3.7 + 11.0
            try:
                v2 = run_ref(p, env2, amounts)[qn]
            except OverflowError:
                continue
            if not close(v2, base, rtol=1e-12):
                raise HarnessError(f'reference dependency set wrong: {qn} changes with {lf}: {p.render()}')

    # --- direct_dependencies ---------------------------------------------------------------
    keys = [stmt_key(s) for s in stmts]
    for i in range(n):
        if keys.count(keys[i]) != 1:
            continue  # Statements.index() finds the first equal statement: ambiguous query
        dd = guard(stmts.direct_dependencies, stmts[i], allowed=(), clause='direct_dependencies')
        got = {keys.index(stmt_key(s)) for s in dd if keys.count(stmt_key(s)) == 1}
        n_amb = sum(1 for s in dd if keys.count(stmt_key(s)) != 1)
        must = {j for j in reach[i].values() if j is not None and keys.count(keys[j]) == 1}
        may = {j for j in range(i) if defs[j] & reads[i]}
        evals += 1
        if not must <= got:
            raise Violation('direct_dependencies:missing', observed=sorted(got), expected=sorted(must), detail=f'stmt {i} in {p.render()}')
        if n_amb == 0 and not got <= may:
            raise Violation('direct_dependencies:extra', observed=sorted(got), expected=sorted(may), detail=f'stmt {i} in {p.render()}')

    # --- reassign -------------------------------------------------------------------------
    asg_syms = sorted({it[1] for it in p.items if it[0] == 'asg'})
    rn = asg_syms[spec['q2'] % len(asg_syms)] if asg_syms else None
    if rn is not None:
        new_ast = Prog._resolve(spec['e'], LEAVES)
        new_e = to_sympy(new_ast)
        res = guard(stmts.reassign, Expr.symbol(rn), Expr(new_e), allowed=(), clause='reassign')
        idxs = [i for i, it in enumerate(p.items) if it[0] == 'asg' and it[1] == rn]
        exp_keys = []
        for i, k in enumerate(keys):
            if i in idxs[:-1]:
                continue
            if i == idxs[-1]:
                exp_keys.append(('asg', rn, sympy.srepr(sympy.piecewise_fold(new_e))))
            else:
                exp_keys.append(k)
        got_keys = [stmt_key(s) for s in res]
        evals += 1
        if len(got_keys) != len(exp_keys):
            raise Violation('reassign:length', observed=len(got_keys), expected=len(exp_keys), detail=f'{rn} in {p.render()}')
        for gk, ek in zip(got_keys, exp_keys):
            if gk != ek:
                if gk[0] == 'asg' and ek[0] == 'asg' and gk[1] == ek[1] and gk[1] == rn:
                    # compare new expression numerically (folding may differ syntactically)
                    try:
                        a = ev(sympy.sympify(res[got_keys.index(gk)].expression._sympy_()), env)
                        b = ast_eval(new_ast, env)
                        if close(a, b):
                            continue
                    except (Undefined, EvalError):
                        pass  # not the new expression (it only reads leaves): content mismatch
                raise Violation('reassign:content', observed=gk, expected=ek, detail=f'{rn} in {p.render()}')

    # --- subs (renaming) ---------------------------------------------------------------------
    cand = sorted(set(all_syms) | set(LEAVES))
    cand = [c for c in cand if not c.endswith('(t)')]
    old = cand[spec['q'] % len(cand)]
    newn = old + '_R'
    res = guard(stmts.subs, {Expr.symbol(old): Expr.symbol(newn)}, allowed=(), clause='subs')
    evals += 1
    if len(res) != n:
        raise Violation('subs:length', observed=len(res), expected=n)
    env_r = {(newn if k == old else k): v for k, v in env.items()}
    got_env = run_pharmpy(res, env_r, amounts)
    for k, v in ref_env.items():
        kk = newn if k == old else k
        if kk not in got_env or not close(got_env[kk], v, rtol=1e-9):
            raise Violation('subs:value', observed=got_env.get(kk), expected=v, detail=f'rename {old}->{newn}; {k} in {p.render()}')
    if old in got_env and old not in env_r and old in {str(s.symbol) for s in res if hasattr(s, 'symbol')}:
        raise Violation('subs:old-name-left', detail=f'rename {old}->{newn} in {p.render()}')
    for s in res:
        if old in {str(x) for x in s.free_symbols}:
            raise Violation('subs:old-name-left', detail=f'rename {old}->{newn} in {p.render()}: {s!r}')

    nt = any(c in classes for c in ('redef_with_use', 'diamond', 'through_ode'))
    return CaseInfo(nontrivial=nt, classes=tuple(classes), render=p.render(), evals=evals)


def run_ref_trace(p, env, amounts):
    env = dict(env)
    trace = []
    for it in p.items:
        if it[0] == 'asg':
            env[it[1]] = ast_eval(it[2], env)
            trace.append(env[it[1]])
        else:
            for j in range(it[1]):
                env[f'A_X{j + 1}(t)'] = amounts[f'A_X{j + 1}(t)']
            trace.append(None)
    return trace


def run_ref_prefix(p, env, amounts, hi):
    env = dict(env)
    for it in p.items[:hi]:
        if it[0] == 'asg':
            env[it[1]] = ast_eval(it[2], env)
        else:
            for j in range(it[1]):
                env[f'A_X{j + 1}(t)'] = amounts[f'A_X{j + 1}(t)']
    return env


def run_dataflow(spec):
    return _run_dataflow(spec, leaf_assign=False)


def run_dataflow_leafassign(spec):
    return _run_dataflow(spec, leaf_assign=True)


# ------------------------------------------------------------------------------------------
# sub-check 2: remove_symbol_definitions under the caller protocol


def run_remove_defs(spec):
    """Protocol (modeling/odes.py callers): pick statement X; rewrite X so that it no longer
    uses the chosen symbols (here: X's uses of them are replaced by the constant 1 -- callers
    replace a rate/expression); then statements.remove_symbol_definitions(symbols, X').
    Oracle: in the result every remaining statement reads, for each symbol, the same
    reaching definition as before (identified by original position), in particular no
    definition that is still read was removed; X' itself is kept; order kept."""
    from pharmpy.basic import Expr
    from pharmpy.model import Assignment, Statements

    p = Prog(spec)
    n = len(p.items)
    xi = spec['q'] % n
    defs = item_defs(p)
    # symbols to remove: assigned symbols (names) chosen by the spec, restricted to those defined before X
    defined_before = sorted({nm for i in range(xi) for nm in defs[i] if not nm.endswith('(t)')})
    if not defined_before:
        raise Reject('no symbol defined before X')
    syms = sorted({defined_before[k % len(defined_before)] for k in spec['rm']})
    keep_using = spec['use'][0]  # callers sometimes pass symbols that X still uses (e.g. numer.free_symbols)

    # rewrite X
    def strip(a):
        if a[0] == 's':
            return ['n', 1] if a[1] in syms else a
        if a[0] == 'n':
            return a
        return [a[0]] + [strip(x) for x in a[1:]]

    if not keep_using:
        it = p.items[xi]
        if it[0] == 'asg':
            p.items[xi] = ('asg', it[1], strip(it[2]))
        else:
            p.items[xi] = ('ode', it[1], [strip(r) for r in it[2]])
    stmts = build_statements(p)
    keys = [stmt_key(s) for s in stmts]
    if keys.count(keys[xi]) != 1:
        raise Reject('X not unique (index() ambiguity)')
    reads = item_reads(stmts, p)
    reach = reaching(reads, defs)
    env, amounts = make_env(spec)
    classes = nontrivial(p, reads, defs, reach)

    res = guard(stmts.remove_symbol_definitions, [Expr.symbol(s) for s in syms], stmts[xi], allowed=(), clause='remove_symbol_definitions')
    if not isinstance(res, Statements):
        raise Violation('remove_symbol_definitions:type', observed=type(res).__name__)
    # map result statements back to original positions (subsequence matching by identity/equality in order)
    pos = []
    j = 0
    for s in res:
        k = stmt_key(s)
        while j < n and keys[j] != k:
            j += 1
        if j >= n:
            raise Violation('remove_symbol_definitions:not-a-subsequence', detail=f'{[stmt_key(s) for s in res]} vs {p.render()}')
        pos.append(j)
        j += 1
    kept = set(pos)
    removed = set(range(n)) - kept
    if xi in removed:
        raise Violation('remove_symbol_definitions:removed-X', detail=f'X={xi} syms={syms} in {p.render()}')
    # (an ODE system nobody else needs may be removed as an unused dependency: the property
    # only forbids removing statements that a remaining statement needs -- counted as a class)
    ode_removed = any(p.items[r][0] != 'asg' for r in removed)
    # reaching definitions of remaining statements unchanged
    new_reach = reaching([reads[i] for i in pos], [defs[i] for i in pos])
    for a, i in enumerate(pos):
        for nm, j in reach[i].items():
            nj = new_reach[a][nm]
            nj = pos[nj] if nj is not None else None
            if nj != j:
                what = 'needed-definition-removed' if j in removed else 'reaching-definition-changed'
                where = 'before-X' if i < xi else ('X' if i == xi else 'after-X')
                raise Violation(
                    f'remove_symbol_definitions:{what}:{where}',
                    observed=[p.render()[k] for k in pos],
                    expected=p.render(),
                    detail=f'X=#{xi} syms={syms}; statement #{i} reads {nm} defined at #{j}, now {nj}; removed={sorted(removed)}',
                )
    # numeric confirmation: every kept statement computes the same value as in the original program
    try:
        ref_trace = run_ref_trace(p, env, amounts)
    except OverflowError:
        raise Reject('overflow')
    got_trace = []
    genv = dict(env)
    from pharmpy.model import Assignment as _Asg

    for s_ in res:
        if isinstance(s_, _Asg):
            try:
                v = ev(s_.expression, genv)
            except Undefined as u:
                raise HarnessError(f'reaching definitions equal but symbol {u} undefined: {p.render()}')
            genv[str(s_.symbol)] = v
            got_trace.append(v)
        else:
            for a_ in s_.amounts:
                genv[str(a_)] = amounts[str(a_)]
            got_trace.append(None)
    for a, i in enumerate(pos):
        if ref_trace[i] is None or got_trace[a] is None:
            continue
        if not close(got_trace[a], ref_trace[i], rtol=1e-9) and abs(ref_trace[i]) < 1e200:
            raise HarnessError(f'reaching definitions equal but value of statement #{i} differs: {p.render()}')
    # something was actually removed?
    if removed:
        classes.append('removed_some')
    if ode_removed:
        classes.append('removed_unused_ode')
    if any(defs[i] & set(syms) for i in kept if i < xi):
        classes.append('kept_requested_def')
    nt = bool(removed) and any(c in classes for c in ('redef_with_use', 'diamond', 'through_ode'))
    return CaseInfo(nontrivial=nt, classes=tuple(classes), render=dict(prog=p.render(), X=xi, syms=syms, removed=sorted(removed)))


# ------------------------------------------------------------------------------------------
# sub-check 3: remove_unused_parameters_and_rvs


def run_remove_unused(spec):
    from pharmpy.basic import Expr
    from pharmpy.model import (
        ColumnInfo,
        DataInfo,
        JointNormalDistribution,
        Model,
        NormalDistribution,
        Parameter,
        Parameters,
        RandomVariables,
    )
    from pharmpy.modeling import remove_unused_parameters_and_rvs

    p = Prog(spec)
    use = spec['use']
    joint = use[1]
    three = use[2]
    stmts = build_statements(p)
    params = [Parameter.create(nm, 0.5 + 0.1 * i, lower=0.0 if use[3] else None) for i, nm in enumerate(PARAMS)]
    rvnames = RVS + (['E3'] if three else [])
    if joint:
        var = {}
        n = len(rvnames)
        mat = [[None] * n for _ in range(n)]
        for i in range(n):
            for j in range(i + 1):
                nm = f'OM{i + 1}{j + 1}'
                mat[i][j] = mat[j][i] = Expr.symbol(nm)
                params.append(Parameter.create(nm, 0.09 if i == j else 0.01))
                var[(i, j)] = nm
        dists = [JointNormalDistribution.create(rvnames, 'iiv', [0] * n, mat)]
        varparams = {rvnames[i]: {f'OM{max(i, j) + 1}{min(i, j) + 1}' for j in range(n)} for i in range(n)}
    else:
        dists = []
        varparams = {}
        for i, nm in enumerate(rvnames):
            vn = f'OM{i + 1}{i + 1}'
            params.append(Parameter.create(vn, 0.09))
            dists.append(NormalDistribution.create(nm, 'iiv', 0, Expr.symbol(vn)))
            varparams[nm] = {vn}
    rvs = RandomVariables.create(dists)
    di = DataInfo.create([ColumnInfo.create(c) for c in COLS])
    model = guard(
        Model.create, name='m', parameters=Parameters.create(params), random_variables=rvs, statements=stmts, datainfo=di,
        allowed=(), clause='Model.create',
    )
    res = guard(remove_unused_parameters_and_rvs, model, allowed=(), clause='remove_unused_parameters_and_rvs')
    used = set()
    reads = item_reads(stmts, p)
    for r in reads:
        used |= r
    exp_rvs = [nm for nm in rvnames if nm in used]
    exp_params = {nm for nm in PARAMS if nm in used}
    if joint:
        kept = exp_rvs
        for i in kept:
            for j in kept:
                a, b = rvnames.index(i), rvnames.index(j)
                exp_params.add(f'OM{max(a, b) + 1}{min(a, b) + 1}')
    else:
        for nm in exp_rvs:
            exp_params |= varparams[nm]
    got_rvs = list(res.random_variables.names)
    got_params = set(res.parameters.names)
    if got_rvs != exp_rvs:
        raise Violation('remove_unused:rvs', observed=got_rvs, expected=exp_rvs, detail=str(p.render()))
    if got_params != exp_params:
        raise Violation('remove_unused:parameters', observed=sorted(got_params), expected=sorted(exp_params), detail=str(p.render()))
    # statements untouched, inits of kept parameters untouched
    if [stmt_key(s) for s in res.statements] != [stmt_key(s) for s in stmts]:
        raise Violation('remove_unused:statements-changed', detail=str(p.render()))
    for nm in exp_params:
        if res.parameters[nm] != model.parameters[nm]:
            raise Violation('remove_unused:parameter-changed', observed=repr(res.parameters[nm]), expected=repr(model.parameters[nm]))
    removed_any = len(exp_rvs) < len(rvnames) or len(exp_params) < len(params)
    part_block = joint and 0 < len(exp_rvs) < len(rvnames)
    classes = ['joint' if joint else 'separate']
    if part_block:
        classes.append('partial_block_removed')
    return CaseInfo(nontrivial=removed_any and (part_block or len(exp_rvs) > 0), classes=tuple(classes), render=dict(prog=p.render(), joint=joint, kept_rvs=exp_rvs))


SUBCHECKS = [
    SubCheck('dataflow', lambda: PROG, run_dataflow, quick=4000, thorough=120000),
    SubCheck('dataflow_leafassign', lambda: PROG, run_dataflow_leafassign, quick=1500, thorough=40000),
    SubCheck('remove_defs', lambda: PROG, run_remove_defs, quick=4000, thorough=120000),
    SubCheck('remove_unused', lambda: PROG, run_remove_unused, quick=600, thorough=15000),
]


def _pred_folding_piecewise(spec):
    """True when some expression of the program mentions a symbol its value cannot depend on (a Piecewise with
    equal branches, a comparison of an expression with itself ...): pharmpy's symengine layer keeps such symbols
    in free_symbols although its sympy layer (and the printed model) folds them away. Decided numerically: the
    value is the same on a grid of values of that symbol, for several settings of the other symbols."""
    grid = [-3.7, -1.1, 0.3, 0.9, 1.2, 1.7, 2.6, 4.1]
    try:
        for variant in (False, True):
            p = Prog(spec, leaf_assign=variant)
            for it in p.items:
                exprs = [it[2]] if it[0] == 'asg' else list(it[2])
                for e in exprs:
                    syn = sorted(ast_reads(e))
                    for sname in syn:
                        irrelevant = True
                        for k in range(4):
                            env = {n: grid[(3 * j + 5 * k) % len(grid)] for j, n in enumerate(syn)}
                            vals = set()
                            for g in grid:
                                env[sname] = g
                                vals.add(round(ast_eval(e, env), 12))
                            if len(vals) > 1:
                                irrelevant = False
                                break
                        if irrelevant:
                            return True
    except Exception:
        return False
    return False


KNOWN_PREDICATES = {'folding_piecewise': _pred_folding_piecewise}
