"""C15 -- Path locks: reader-writer exclusion without deadlock in every schedule.

`pharmpy/internals/fs/lock.py` is loaded from the current tree as fresh module instances (one
per simulated process) on top of the schedule-owning scheduler `pv.sched` (engine E6).  A
case = program (threads x processes, each thread a small tree of `with path_lock(...)`)
+ schedule (choice sequence).  The oracle is a reference reader-writer lock specification
tracked from body entry/exit events (clauses S1, S2, L1, L2, L3, Q, see RULE/DESIGN.md).
"""

from __future__ import annotations

import errno
import importlib.util
import os

from hypothesis import strategies as st

from .. import sched as S
from ..core import VERIF_DIR, CaseInfo, HarnessError, SubCheck, Violation

PROPERTY = 'C15'
LEVEL = 'exploration'
RULE = (
    'Programs of <=3 threads in <=2 simulated processes, each thread a tree of <=3 nested/sequential '
    '`with path_lock(path, shared, blocking, reentrant)` on <=2 files (paths include aliases such as a/../f; keys are '
    'normalised paths), bodies are marker events; the schedule is a choice sequence over the enabled virtual threads at '
    'every simulated primitive operation (Lock/RLock/Condition/os.open/os.close/fcntl.lockf). Non-trivial = >=2 threads '
    'request the same file, at least one of them exclusively, and the schedule switches away from a thread at least once '
    'while it is inside a lock acquire/release operation. Distinct = hash of (program, schedule). The exhaustive sub-checks '
    'enumerate ALL schedules (DFS with state caching) of every 2-thread program with <=2 requests per thread on one file.'
)
ASSUMPTIONS = [
    'CPython threading semantics as simulated: Lock/RLock without fairness, Condition.notify wakes waiters FIFO, no spurious wake-ups, no timeouts',
    'Linux POSIX record lock semantics as simulated (validated against the real kernel for non-blocking sequences by the self-check; '
    'EDEADLK detection modelled after fs/locks.c: owner = process, checked whenever a blocking request is (re)tried)',
    'thread identifiers are not reused while a program runs; the locked files exist; nobody else touches the files',
    'bodies may take arbitrarily long: liveness (L1/L2/L3) is evaluated at terminal states and at states where every live thread is '
    'parked in a body, not started, or unable to move; no fairness policy is prescribed (a request may queue behind a justified waiter)',
    'exhaustive sub-checks merge states by (per thread: pending operation + operation/result log of its still-open requests; shared '
    'objects reachable from the module instance under canonical names; kernel state): assumes thread-local state of lock.py is a '
    'function of the results of the thread\'s own primitive operations of the requests still open',
    'exhaustive sub-checks use coarser atomic steps where sound by commutativity (Lipton reduction): the release of a pool lock that is '
    'only ever acquired blocking (ThreadSafeKeyedRefPool._lock) and os.open under it are not scheduling points, nor are operations on '
    'python-level primitives of a process that has a single thread; sub-check `schedules` yields at every primitive operation',
]

PATHS = ['f', 'a/../f', './f', 'g', 'b/../g']
FILES = ['f', 'g']
MAX_THREADS = 3
MAX_PROCS = 2
MAX_NODES = 3
RANK = {'SH': 1, 'EX': 2}

_LOCK_PY = None


def lock_py_path():
    global _LOCK_PY
    if _LOCK_PY is None:
        spec = importlib.util.find_spec('pharmpy.internals.fs.lock')
        if spec is None or not spec.origin:
            raise HarnessError('cannot locate pharmpy.internals.fs.lock')
        _LOCK_PY = spec.origin
    return _LOCK_PY


# -----------------------------------------------------------------------------------------
# program normalisation (total)


def _norm_nodes(nodes, budget, counter):
    out = []
    if not isinstance(nodes, list):
        return out
    for n in nodes:
        if budget[0] <= 0:
            break
        if not isinstance(n, dict):
            continue
        budget[0] -= 1
        counter[0] += 1
        p = n.get('p', 0)
        p = p if isinstance(p, int) and not isinstance(p, bool) else 0
        node = dict(
            id=counter[0],
            path=PATHS[p % len(PATHS)],
            shared=bool(n.get('s', False)),
            blocking=bool(n.get('b', False)),
            reentrant=bool(n.get('r', False)),
        )
        node['key'] = os.path.normpath(node['path'])
        node['mode'] = 'SH' if node['shared'] else 'EX'
        node['children'] = _norm_nodes(n.get('in', []), budget, counter)
        out.append(node)
    return out


def parse_program(spec):
    """-> list of processes, each a list of threads, each a list of top-level nodes."""
    procs = spec.get('procs', []) if isinstance(spec, dict) else []
    out = []
    nthreads = 0
    counter = [0]
    for pr in procs[:MAX_PROCS] if isinstance(procs, list) else []:
        threads = []
        for th in pr if isinstance(pr, list) else []:
            if nthreads >= MAX_THREADS:
                break
            nthreads += 1
            threads.append(_norm_nodes(th, [MAX_NODES], counter))
        out.append(threads)
    return out


def _walk(nodes):
    for n in nodes:
        yield n
        yield from _walk(n['children'])


def render_program(prog):
    lines = []

    def rn(n, ind):
        lines.append(
            '  ' * ind + f"with path_lock({n['path']!r}, shared={n['shared']}, blocking={n['blocking']}, reentrant={n['reentrant']}):  # n{n['id']}"
        )
        for c in n['children']:
            rn(c, ind + 1)

    g = 0
    for pi, threads in enumerate(prog):
        for th in threads:
            lines.append(f'process {pi} thread t{g}:')
            for n in th:
                rn(n, 1)
            if not th:
                lines.append('  pass')
            g += 1
    return lines


def static_classes(prog):
    """(contention, classes) from the program text alone."""
    users = {}
    g = 0
    nested = False
    alias = False
    for pi, threads in enumerate(prog):
        for th in threads:
            for n in _walk(th):
                users.setdefault(n['key'], []).append((g, pi, n['mode']))
                if n['children']:
                    nested = True
                if n['path'] != n['key']:
                    alias = True
            g += 1
    contention = False
    cross = False
    for key, us in users.items():
        gs = {u[0] for u in us}
        if len(gs) >= 2 and any(u[2] == 'EX' for u in us):
            contention = True
            if len({u[1] for u in us}) >= 2:
                cross = True
    cl = []
    if contention:
        cl.append('contention')
    if cross:
        cl.append('contention:cross-process')
    if nested:
        cl.append('nested')
    if alias:
        cl.append('path-alias')
    if len(users) >= 2:
        cl.append('two-files')
    cl.append(f'threads={g}')
    cl.append(f'procs={len([p for p in prog if p])}')
    return contention, cl


# -----------------------------------------------------------------------------------------
# one execution of a program under a chooser, with the monitor (reference specification)

# severity order when several clauses are seen: the first matching prefix wins; the known
# upgrader lost wake-up is reported only when nothing else was seen.
_PRIORITY = ['S1', 'S2', 'internal', 'L3', 'L2', 'Q', 'L1:edeadlk', 'L1:blocking', 'L1:blocked', 'L1:lost-wakeup:upgrader~', 'L1:lost-wakeup']


def clause_rank(clause):
    if clause.startswith('L1:lost-wakeup:upgrader'):
        return (99, clause)
    for i, p in enumerate(_PRIORITY):
        if clause.startswith(p):
            return (i, clause)
    return (50, clause)


class Found:
    def __init__(self, clause, detail='', observed=None, expected=None):
        self.clause = clause
        self.detail = detail
        self.observed = observed
        self.expected = expected


class Execution:
    def __init__(self, prog, pool, max_steps=6000, quiet=False):
        self.prog = prog
        self.sched = S.Scheduler(pool, max_steps=max_steps)
        self.sched.local_quiet = quiet
        for f in FILES:
            self.sched.kernel.create(f)
        self.mods = []
        self.holds = []  # dict(gid, pid, key, mode, node)
        self.tinfo = []  # per gid: dict(phase, pending, finished)
        self.found = []
        self.outcomes = []
        self.midop_switches = 0
        self._last = None
        path = lock_py_path()
        for pi, threads in enumerate(prog):
            proc = self.sched.add_process()
            mod = proc.load_module(path, 'lock')
            if quiet:
                proc.quiet_open = True
                for v in list(vars(mod).values()):
                    lk = getattr(v, '_lock', None)
                    if hasattr(v, '_refs') and isinstance(lk, S.SimLock) and type(lk) is S.SimLock:
                        lk.quiet_release = True
            self.mods.append(mod)
            for th in threads:
                gid = len(self.tinfo)
                self.tinfo.append(dict(phase='idle', pending=None, finished=False, pid=pi))
                self.sched.add_thread(proc, self._make_thread(gid, pi, mod, th))

    # -- virtual thread bodies -------------------------------------------------------------
    def _make_thread(self, gid, pid, mod, nodes):
        def main(vt):
            for n in nodes:
                self._exec_node(vt, gid, pid, mod, n)
            self.tinfo[gid]['phase'] = 'finished'
            self.tinfo[gid]['finished'] = True

        return main

    def _fail(self, clause, detail='', observed=None, expected=None):
        self.found.append(Found(clause, detail, observed, expected))
        raise S.Kill()

    def _conflicting(self, gid, key, mode):
        return [h for h in self.holds if h['gid'] != gid and h['key'] == key and (mode == 'EX' or h['mode'] == 'EX')]

    def _exec_node(self, vt, gid, pid, mod, n):
        ti = self.tinfo[gid]
        key, mode = n['key'], n['mode']
        recursive = any(h['gid'] == gid and h['key'] == key for h in self.holds)
        pend = dict(node=n, key=key, mode=mode, blocking=n['blocking'], reentrant=n['reentrant'], recursive=recursive,
                    conflict_seen=bool(self._conflicting(gid, key, mode)))
        outer_phase = ti['phase']
        logmark = len(vt.log)
        ti['pending'] = pend
        ti['phase'] = 'enter'
        stage = 'enter'
        hold = None
        cm = mod.path_lock(n['path'], shared=n['shared'], blocking=n['blocking'], reentrant=n['reentrant'])
        try:
            with cm:
                # ---- body entry event (atomic with the last primitive operation of the acquire)
                stage = 'body'
                ti['pending'] = None
                ti['phase'] = 'body'
                bad = self._conflicting(gid, key, mode)
                if bad:
                    self._fail(
                        'S1:exclusion:' + ('cross-process' if any(h['pid'] != pid for h in bad) else 'threads'),
                        detail=f"t{gid} entered n{n['id']} ({mode} on {key}) while " + ', '.join(f"t{h['gid']} holds {h['mode']} (n{h['node']['id']})" for h in bad),
                        observed=[[h['gid'], h['mode']] for h in bad], expected='no conflicting holder',
                    )
                if recursive and not n['reentrant']:
                    self._fail('L3:recursive-granted', detail=f"t{gid} n{n['id']}: non-reentrant request on {key} granted while the thread already holds it")
                hold = dict(gid=gid, pid=pid, key=key, mode=mode, node=n)
                self.holds.append(hold)
                for oi in self.tinfo:
                    op = oi['pending']
                    if op is not None and op is not pend and op['key'] == key and (mode == 'EX' or op['mode'] == 'EX') and oi is not ti:
                        op['conflict_seen'] = True
                self.outcomes.append('granted')
                S.marker(self.sched, 'body')
                for c in n['children']:
                    self._exec_node(vt, gid, pid, mod, c)
                if n['children']:
                    S.marker(self.sched, 'body')
                # ---- body exit event (atomic with the first primitive operation of the release)
                self.holds.remove(hold)
                hold = None
                ti['phase'] = 'exit'
                stage = 'exit'
            stage = 'done'
        except S.Kill:
            raise
        except BaseException as e:  # noqa
            if hold is not None and hold in self.holds:
                self.holds.remove(hold)
            self._classify_exception(e, stage, gid, pid, mod, n, pend)
        ti['pending'] = None
        ti['phase'] = outer_phase
        # the frames of this request are gone: its operation log no longer matters for the state
        del vt.log[logmark:]
        vt.log.append(('done', None, n['id']))

    def _classify_exception(self, e, stage, gid, pid, mod, n, pend):
        tn = type(e).__name__
        where = f"t{gid} n{n['id']} ({pend['mode']} on {pend['key']}, blocking={pend['blocking']}, reentrant={pend['reentrant']})"
        if isinstance(e, HarnessError):
            raise e
        if stage != 'enter':
            self._fail(f'internal:{stage}:{tn}', detail=f'{where}: {tn}: {e} raised while {"releasing" if stage == "exit" else "in body"}')
        would_block = getattr(mod, 'AcquiringLockWouldBlockError', None)
        recursive_err = getattr(mod, 'RecursiveDeadlockError', None)
        if would_block is None or recursive_err is None:
            raise HarnessError('lock.py no longer defines its public exception classes')
        conflicts = self._conflicting(gid, pend['key'], pend['mode'])
        if isinstance(e, would_block):
            if pend['blocking']:
                self._fail('L1:blocking-request-refused', detail=f'{where}: {tn} raised for a blocking request')
            if conflicts:
                self.outcomes.append('refused:conflict')
            elif pend['recursive'] and not pend['reentrant']:
                self.outcomes.append('refused:recursive-as-would-block')
            elif pend['conflict_seen']:
                self.outcomes.append('refused:conflict-gone')
            else:
                self.outcomes.append('refused:spurious')
            return
        if isinstance(e, recursive_err):
            if pend['reentrant'] or not pend['recursive']:
                self._fail('L3:spurious-recursive-error', detail=f'{where}: RecursiveDeadlockError although the request is ' + ('reentrant' if pend['reentrant'] else 'not recursive'))
            self.outcomes.append('recursive-error')
            return
        if isinstance(e, OSError) and e.errno == errno.EDEADLK:
            if self._spec_cycle(gid, pend):
                self.outcomes.append('edeadlk:inherent')
                return
            self._fail(
                'L1:edeadlk-without-deadlock',
                detail=f'{where}: OSError(EDEADLK) from fcntl although the conflicting holder(s) '
                + (', '.join(f"t{h['gid']}" for h in conflicts) or '(none inside a body)') + ' are not waiting for this thread (kernel deadlock detection is per process); holds='
                + self._holds_str(),
            )
        self._fail(f'internal:enter:{tn}', detail=f'{where}: {tn}: {e}')

    def _holds_str(self):
        return '[' + ', '.join(f"t{h['gid']}:{h['mode']}:{h['key']}" for h in self.holds) + ']'

    def _spec_cycle(self, gid, pend):
        """Is there a cycle t -> (holder conflicting with t's pending blocking request) -> ... -> t
        in the specification's wait-for graph?"""
        seen = set()
        frontier = [h['gid'] for h in self._conflicting(gid, pend['key'], pend['mode'])]
        while frontier:
            g = frontier.pop()
            if g == gid:
                return True
            if g in seen:
                continue
            seen.add(g)
            p = self.tinfo[g]['pending']
            if p is not None and p['blocking']:
                frontier.extend(h['gid'] for h in self._conflicting(g, p['key'], p['mode']))
        return False

    # -- scheduler side ----------------------------------------------------------------------
    check_from = 0  # DFS replays: states before this step were checked by an earlier execution

    def after_step(self, vt):
        if self.sched.steps < self.check_from:
            return
        # S2: every hold is backed by a kernel lock of at least that mode held by its process
        k = self.sched.kernel
        for h in self.holds:
            ino = k.files[h['key']]
            have = k.locks.get(ino, {}).get(h['pid'])
            if have is None or RANK[have] < RANK[h['mode']]:
                if not any(f.clause.startswith('S2') for f in self.found):
                    self.found.append(Found(
                        'S2:hold-lost:' + ('no-kernel-lock' if have is None else 'kernel-lock-weaker'),
                        detail=f"after a step of t{vt.gid}: t{h['gid']} is inside n{h['node']['id']} holding {h['mode']} on {h['key']} but process {h['pid']} "
                        f"holds {have} in the kernel; last kernel ops: {k.history[-6:]}",
                        observed=have, expected=h['mode'],
                    ))

        if not self.found:
            self.quiescent_check()

    def note_choice(self, en, vt):
        last = self._last
        if last is not None and vt is not last and not last.done and self.tinfo[last.gid]['phase'] in ('enter', 'exit'):
            self.midop_switches += 1
        self._last = vt

    def run(self, chooser):
        def ch(sched, en):
            if self.found:
                return None
            vt = chooser(sched, en)
            if vt is not None:
                self.note_choice(en, vt)
            return vt

        try:
            status = self.sched.run(ch, self.after_step)
            if status == 'terminal' and not self.found:
                self.terminal_checks()
            elif status == 'terminal' and self.found:
                status = 'stopped'
        finally:
            self.sched.shutdown()
        self.status = status
        return status

    def terminal_checks(self):
        blocked = [vt for vt in self.sched.threads if not vt.done]
        if not blocked:
            self.outcome_terminal = 'all-finished'
            npools = 0
            for pi, mod in enumerate(self.mods):
                for name in sorted(vars(mod)):
                    v = vars(mod)[name]
                    refs = getattr(v, '_refs', None)
                    if isinstance(refs, dict) and getattr(type(v), '__module__', None) == mod.__name__:
                        npools += 1
                        if refs:
                            self.found.append(Found('Q:refs-left:' + name, detail=f'process {pi}: {name}._refs = {S.dump(refs)!r:.300} at quiescence', observed=len(refs), expected=0))
            if npools < 3 * len(self.mods):
                raise HarnessError('bookkeeping pools (_refs) of lock.py not found')
            k = self.sched.kernel
            if any(k.fds.values()):
                self.found.append(Found('Q:fd-open', detail=f'open descriptors at quiescence: {k.state()[0]}'))
            if any(k.locks.values()):
                self.found.append(Found('Q:kernel-lock-left', detail=f'kernel locks at quiescence: {k.state()[1]}'))
            return
        self.outcome_terminal = 'deadlock:inherent'
        self._check_blocked(blocked, 'terminal state')

    def _check_blocked(self, blocked, when):
        """L1/L2/L3 for threads that cannot move while nothing else is in progress."""
        # justified waits: a conflicting hold of another thread exists, or (no fairness policy is
        # prescribed, e.g. writer preference is fine) the request conflicts with a pending blocking
        # request of another thread that is itself justified
        pend_of = {g: t['pending'] for g, t in enumerate(self.tinfo) if t['pending'] is not None and t['pending']['blocking'] and t['phase'] == 'enter'}
        justified = {g for g, p in pend_of.items() if self._conflicting(g, p['key'], p['mode'])}
        grew = True
        while grew:
            grew = False
            for g, p in pend_of.items():
                if g in justified:
                    continue
                for g2 in sorted(justified):
                    p2 = pend_of[g2]
                    if g2 != g and p2['key'] == p['key'] and (p['mode'] == 'EX' or p2['mode'] == 'EX'):
                        justified.add(g)
                        grew = True
                        break
        for vt in blocked:
            ti = self.tinfo[vt.gid]
            opk = vt.pending.kind if vt.pending is not None else '?'
            at = vt.pending.desc() if vt.pending is not None else '?'
            pend = ti['pending']
            if ti['phase'] == 'exit':
                self.found.append(Found('L1:blocked-in-release', detail=f'{when}: t{vt.gid} is blocked at {at} while releasing; holds={self._holds_str()}'))
                continue
            if ti['phase'] != 'enter' or pend is None:
                raise HarnessError(f'thread blocked outside a lock operation: phase={ti["phase"]} at {at}')
            n = pend['node']
            where = f"{when}: t{vt.gid} n{n['id']} ({pend['mode']} on {pend['key']}, blocking={pend['blocking']}, reentrant={pend['reentrant']})"
            if not pend['blocking']:
                self.found.append(Found('L2:nonblocking-request-blocked', detail=f'{where} is blocked at {at}; holds={self._holds_str()}'))
                continue
            if vt.gid in justified:
                continue  # waits for a real holder, or queues behind a request that does
            own = [h for h in self.holds if h['gid'] == vt.gid and h['key'] == pend['key']]
            if own and opk == 'wait':
                clause = 'L1:lost-wakeup:upgrader'
            elif pend['recursive'] and not pend['reentrant']:
                clause = 'L3:recursive-hangs:' + opk
            else:
                clause = 'L1:lost-wakeup:' + opk
            self.found.append(Found(
                clause,
                detail=f'{where} is blocked at {at} although no other thread/process holds {pend["key"]} in a conflicting mode (nor waits for such a holder) and no lock operation is in progress '
                f'(own holds: {[h["mode"] for h in own]}); all holds={self._holds_str()}; kernel locks={self.sched.kernel.state()[1]}; '
                f'finished threads={[i for i, t in enumerate(self.tinfo) if t["finished"]]}',
                observed='blocked', expected='granted' if (pend['reentrant'] or not pend['recursive']) else 'RecursiveDeadlockError',
            ))

    def quiescent_check(self):
        """Bodies may take arbitrarily long: in a state where every live thread is either parked in a
        body (or has not started) or cannot move, a thread that cannot move must be waiting for a real
        conflicting holder (same rule as at terminal states)."""
        blocked = []
        for vt in self.sched.threads:
            if vt.done:
                continue
            p = vt.pending
            if p is None:
                return
            if p.kind in ('body', 'start'):
                continue
            if p.is_enabled():
                return  # a lock operation is in progress somewhere
            blocked.append(vt)
        if blocked:
            self._check_blocked(blocked, 'all other threads idle in bodies')

    def signature(self):
        names = {}
        mods = tuple(S.dump_module(m, names) for m in self.mods)
        ths = []
        for vt in self.sched.threads:
            p = vt.pending
            if p is None:
                pd = None
            elif p.obj is None or p.obj.name not in names:
                pd = (p.kind, None if p.obj is None else p.obj.name)
            else:
                pd = (p.kind, names[p.obj.name])
            ths.append((vt.done, pd, tuple([(e[0], e[2]) for e in vt.log])))
        return hash((tuple(ths), mods, self.sched.kernel.state()))

    def worst(self):
        return min(self.found, key=lambda f: clause_rank(f.clause)) if self.found else None


# -----------------------------------------------------------------------------------------
# sub-check 1: generated (program, schedule) pairs


def _sched_choices(spec):
    s = spec.get('sched', []) if isinstance(spec, dict) else []
    return [c for c in s if isinstance(c, int) and not isinstance(c, bool)][:400] if isinstance(s, list) else []


def _violation(f, prog, trace=None, sched=None):
    extra = ''
    if sched is not None:
        extra = f' | replayable schedule (sub-check schedules): sched={sched}'
    if trace is not None:
        extra += f' | thread per step: {_compress(trace)}'
    return Violation(f.clause, observed=f.observed, expected=f.expected, detail=f.detail + ' | program: ' + ' ; '.join(render_program(prog)) + extra)


def _compress(trace):
    out = []
    for g in trace:
        if out and out[-1][0] == g:
            out[-1][1] += 1
        else:
            out.append([g, 1])
    return ' '.join(f't{g}x{n}' for g, n in out)


def run_schedules(spec):
    prog = parse_program(spec)
    choices = _sched_choices(spec)
    contention, classes = static_classes(prog)
    pool = S.WorkerPool()
    try:
        return _run_schedules(spec, prog, choices, contention, classes, pool)
    finally:
        pool.close()


def _run_schedules(spec, prog, choices, contention, classes, pool):
    ex = Execution(prog, pool)
    pos = [0]

    def chooser(sched, en):
        if len(en) == 1:
            return en[0]
        if pos[0] < len(choices):
            c = choices[pos[0]]
            pos[0] += 1
            return en[c % len(en)]
        return en[0]

    status = ex.run(chooser)
    if status == 'bound':
        return CaseInfo(nontrivial=False, classes=('inconclusive:step-bound',), render=render_program(prog))
    f = ex.worst()
    if f is not None:
        raise _violation(f, prog, trace=ex.sched.trace)
    classes = list(classes)
    classes.append('end:' + ex.outcome_terminal)
    for o in sorted(set(ex.outcomes)):
        classes.append('outcome:' + o)
    if ex.midop_switches:
        classes.append('midop-switch')
    if pos[0] >= len(choices) and len(choices) > 0:
        classes.append('choices-exhausted')
    nt = contention and ex.midop_switches >= 1
    return CaseInfo(
        nontrivial=nt, classes=tuple(classes),
        render=dict(program=render_program(prog), steps=ex.sched.steps, schedule=_compress(ex.sched.trace), end=ex.outcome_terminal, outcomes=ex.outcomes),
    )


def _node_strategy(depth):
    base = dict(
        p=st.sampled_from([0, 0, 0, 1, 2, 3, 4]),
        s=st.booleans(),
        b=st.booleans(),
        r=st.sampled_from([True, True, False]),
    )
    if depth <= 0:
        return st.fixed_dictionaries(dict(base, **{'in': st.just([])}))
    return st.fixed_dictionaries(dict(base, **{'in': st.lists(_node_strategy(depth - 1), max_size=2)}))


def schedules_strategy():
    thread = st.lists(_node_strategy(2), min_size=1, max_size=3)
    procs = st.one_of(
        st.lists(thread, min_size=2, max_size=3).map(lambda ts: [ts]),
        st.tuples(st.lists(thread, min_size=1, max_size=2), st.lists(thread, min_size=1, max_size=2)).map(lambda t: [t[0], t[1]]),
    )
    choice = st.one_of(st.just(0), st.integers(0, 5))
    return st.fixed_dictionaries(dict(procs=procs, sched=st.lists(choice, min_size=30, max_size=160)))


# -----------------------------------------------------------------------------------------
# sub-checks 2/3: exhaustive DFS over all schedules (state caching, stateless replay)


def explore(prog, max_exec):
    pool = S.WorkerPool()
    try:
        return _explore(prog, max_exec, pool)
    finally:
        pool.close()


def _explore(prog, max_exec, pool):
    """-> dict(executions, states, complete, found={clause: (Found, trace)}, terminals=Counter-like dict, outcomes=set)"""
    visited = set()
    todo = [[]]
    nexec = 0
    found = {}
    terminals = {}
    outcomes = set()
    maxdepth = 0
    complete = True
    while todo:
        if nexec >= max_exec:
            complete = False
            break
        prefix = todo.pop()
        nexec += 1
        ex = Execution(prog, pool, quiet=True)
        ex.check_from = len(prefix)

        def chooser(sched, en, prefix=prefix, ex=ex):
            k = sched.steps
            if k < len(prefix):
                for vt in en:
                    if vt.gid == prefix[k]:
                        return vt
                raise HarnessError(f'replay diverged at step {k}: t{prefix[k]} not enabled')
            sig = ex.signature()
            if sig in visited:
                return None
            visited.add(sig)
            base = list(sched.trace)
            for alt in en[1:]:
                todo.append(base + [alt.gid])
            return en[0]

        status = ex.run(chooser)
        maxdepth = max(maxdepth, ex.sched.steps)
        if status == 'bound':
            complete = False
            terminals['inconclusive:step-bound'] = terminals.get('inconclusive:step-bound', 0) + 1
            continue
        for f in ex.found:
            if f.clause not in found:
                found[f.clause] = (f, list(ex.sched.trace))
        if status == 'terminal' and not ex.found:
            terminals[ex.outcome_terminal] = terminals.get(ex.outcome_terminal, 0) + 1
        outcomes.update(ex.outcomes)
    return dict(executions=nexec, states=len(visited), complete=complete, found=found, terminals=terminals, outcomes=outcomes, maxdepth=maxdepth)


def run_exhaustive(spec):
    prog = parse_program(spec)
    max_exec = spec.get('max_exec', 20000) if isinstance(spec, dict) else 20000
    if not isinstance(max_exec, int) or isinstance(max_exec, bool) or max_exec <= 0:
        max_exec = 20000
    contention, classes = static_classes(prog)
    res = explore(prog, max_exec)
    if res['found']:
        clause = min(res['found'], key=clause_rank)
        f, trace = res['found'][clause]
        raise _violation(f, prog, trace=trace)
    classes = list(classes)
    classes.append('exhaustive:complete' if res['complete'] else 'exhaustive:bounded')
    for k in sorted(res['terminals']):
        classes.append('reaches:' + k)
    for o in sorted(res['outcomes']):
        classes.append('outcome:' + o)
    b = res['states']
    classes.append('states<=100' if b <= 100 else 'states<=1000' if b <= 1000 else 'states<=10000' if b <= 10000 else 'states>10000')
    return CaseInfo(
        nontrivial=contention and res['states'] > 1, classes=tuple(classes), evals=res['executions'],
        render=dict(program=render_program(prog), executions=res['executions'], states=res['states'], complete=res['complete'], terminals=res['terminals'], max_depth=res['maxdepth']),
    )


def _thread_programs():
    """All thread programs with <=2 requests on one file. reentrant only varies where it can matter
    (a nested request); elsewhere it is False."""
    flags = [(s, b) for s in (False, True) for b in (False, True)]
    one = [[dict(p=0, s=s, b=b, r=False, **{'in': []})] for s, b in flags]
    seq = [[dict(p=0, s=s1, b=b1, r=False, **{'in': []}), dict(p=0, s=s2, b=b2, r=False, **{'in': []})] for s1, b1 in flags for s2, b2 in flags]
    nest = [
        [dict(p=0, s=s1, b=b1, r=False, **{'in': [dict(p=0, s=s2, b=b2, r=r2, **{'in': []})]})]
        for s1, b1 in flags for s2, b2 in flags for r2 in (False, True)
    ]
    return one, seq + nest


def catalogue(tier, two_procs):
    one, two = _thread_programs()
    progs = []
    for i, a in enumerate(one):
        for b in one[i:]:
            progs.append((a, b))
    for a in one:
        for b in two:
            progs.append((a, b))
    k = 0
    for i, a in enumerate(two):
        for b in two[i:]:
            k += 1
            if tier == 'thorough' or k % (QUICK_22_STRIDE_2PROC if two_procs else QUICK_22_STRIDE) == 0:
                progs.append((a, b))
    for a, b in progs:
        yield dict(procs=[[a], [b]] if two_procs else [[a, b]], max_exec=MAX_EXEC[tier])


QUICK_22_STRIDE = 16
QUICK_22_STRIDE_2PROC = 3
MAX_EXEC = dict(quick=6000, thorough=57070)

SUBCHECKS = [
    SubCheck('schedules', schedules_strategy, run_schedules, quick=3000, thorough=28540),
    SubCheck('exhaustive_1proc', None, run_exhaustive, quick=0, thorough=0, enumerate=lambda tier: catalogue(tier, False),
             describe='DFS over all schedules of every 2-thread program with <=2 requests per thread on one file, one process'),
    SubCheck('exhaustive_2proc', None, run_exhaustive, quick=0, thorough=0, enumerate=lambda tier: catalogue(tier, True),
             describe='same catalogue with the two threads in two processes'),
]


# -----------------------------------------------------------------------------------------
# oracle self-check: the simulated fcntl kernel against the real kernel (non-blocking sequences)

_SELFCHECK = {}


def _real_child(rfd, wfd):
    import fcntl
    import json

    handles = []
    try:
        with os.fdopen(rfd, 'r') as r, os.fdopen(wfd, 'w') as w:
            for line in r:
                cmd = json.loads(line)
                try:
                    if cmd[0] == 'open':
                        handles.append(os.open(cmd[1], os.O_RDWR))
                        res = 'ok'
                    elif cmd[0] == 'close':
                        fd = handles[cmd[1]]
                        os.close(fd)
                        res = 'ok'
                    elif cmd[0] == 'lock':
                        op = {'SH': fcntl.LOCK_SH | fcntl.LOCK_NB, 'EX': fcntl.LOCK_EX | fcntl.LOCK_NB, 'UN': fcntl.LOCK_UN}[cmd[2]]
                        fcntl.lockf(handles[cmd[1]], op)
                        res = 'ok'
                    elif cmd[0] == 'reset':
                        for fd in handles:
                            try:
                                os.close(fd)
                            except OSError:
                                pass
                        handles = []
                        res = 'ok'
                    else:
                        res = 'bad-command'
                except OSError as e:
                    res = errno.errorcode.get(e.errno, str(e.errno))
                w.write(res + '\n')
                w.flush()
    finally:
        os._exit(0)


class _RealProcs:
    def __init__(self, n):
        import json

        self.json = json
        self.children = []
        for _ in range(n):
            c_r, p_w = os.pipe()
            p_r, c_w = os.pipe()
            pid = os.fork()
            if pid == 0:
                try:
                    os.close(p_w)
                    os.close(p_r)
                    for ch in self.children:
                        os.close(ch[1])
                        os.close(ch[2])
                    _real_child(c_r, c_w)
                finally:
                    os._exit(0)
            os.close(c_r)
            os.close(c_w)
            self.children.append((pid, p_w, p_r))

    def call(self, i, cmd):
        import select

        pid, w, r = self.children[i]
        os.write(w, (self.json.dumps(cmd) + '\n').encode())
        buf = b''
        while not buf.endswith(b'\n'):
            ready, _, _ = select.select([r], [], [], 5.0)
            if not ready:
                raise HarnessError('self-check: real worker process does not answer')
            chunk = os.read(r, 4096)
            if not chunk:
                raise HarnessError('self-check: real worker process died')
            buf += chunk
        return buf.decode().strip()

    def close(self):
        import signal
        import time

        for pid, w, r in self.children:
            for fd in (w, r):
                try:
                    os.close(fd)
                except OSError:
                    pass
        for pid, _, _ in self.children:
            for _ in range(200):
                done, _st = os.waitpid(pid, os.WNOHANG)
                if done:
                    break
                time.sleep(0.01)
            else:
                os.kill(pid, signal.SIGKILL)
                os.waitpid(pid, 0)


_FIXED_SEQS = [
    # (proc, op, args...)   handles are per process, numbered in order of opening
    [(0, 'open', 'f'), (1, 'open', 'f'), (0, 'lock', 0, 'SH'), (1, 'lock', 0, 'SH'), (0, 'lock', 0, 'EX'), (1, 'lock', 0, 'UN'), (0, 'lock', 0, 'EX'),
     (1, 'lock', 0, 'SH'), (0, 'lock', 0, 'SH'), (1, 'lock', 0, 'SH'), (1, 'lock', 0, 'EX'), (0, 'lock', 0, 'UN'), (1, 'lock', 0, 'EX')],
    # closing ANY descriptor of the file drops the process's lock taken through another descriptor
    [(0, 'open', 'f'), (0, 'open', 'f'), (0, 'lock', 0, 'EX'), (1, 'open', 'f'), (1, 'lock', 0, 'SH'), (0, 'close', 1), (1, 'lock', 0, 'SH'), (0, 'lock', 0, 'EX'),
     (0, 'lock', 0, 'SH'), (1, 'lock', 0, 'EX')],
    # failed conversion keeps the old lock
    [(0, 'open', 'f'), (1, 'open', 'f'), (0, 'lock', 0, 'SH'), (1, 'lock', 0, 'SH'), (0, 'lock', 0, 'EX'), (1, 'lock', 0, 'EX'), (0, 'lock', 0, 'UN'),
     (0, 'lock', 0, 'SH'), (1, 'lock', 0, 'UN'), (0, 'lock', 0, 'EX'), (1, 'lock', 0, 'SH')],
    # two descriptors in one process never conflict; files are independent; aliases name the same file
    [(0, 'open', 'f'), (0, 'open', 'a/../f'), (0, 'lock', 0, 'EX'), (0, 'lock', 1, 'SH'), (1, 'open', './f'), (1, 'lock', 0, 'SH'), (1, 'open', 'g'),
     (1, 'lock', 1, 'EX'), (0, 'open', 'b/../g'), (0, 'lock', 2, 'SH'), (1, 'close', 1), (0, 'lock', 2, 'SH'), (0, 'lock', 2, 'UN'), (0, 'lock', 2, 'UN')],
    # three processes, unlock of an unlocked file, use of a closed descriptor
    [(0, 'open', 'f'), (1, 'open', 'f'), (2, 'open', 'f'), (2, 'lock', 0, 'UN'), (0, 'lock', 0, 'SH'), (1, 'lock', 0, 'SH'), (2, 'lock', 0, 'EX'), (2, 'lock', 0, 'SH'),
     (0, 'close', 0), (1, 'lock', 0, 'EX'), (2, 'close', 0), (1, 'lock', 0, 'EX'), (2, 'lock', 0, 'SH'), (0, 'lock', 0, 'SH')],
]


def _generated_seqs(n, length):
    x = 12345
    seqs = []
    for _ in range(n):
        seq = []
        nopen = [0, 0, 0]
        alive = [[], [], []]
        for _ in range(length):
            x = (x * 1103515245 + 12345) % (2 ** 31)
            p = (x >> 8) % 3
            x = (x * 1103515245 + 12345) % (2 ** 31)
            k = (x >> 8) % 10
            x = (x * 1103515245 + 12345) % (2 ** 31)
            a = (x >> 8)
            if not alive[p] or k == 0:
                if nopen[p] < 4:
                    seq.append((p, 'open', PATHS[a % len(PATHS)]))
                    alive[p].append(nopen[p])
                    nopen[p] += 1
            elif k == 1:
                h = alive[p].pop(a % len(alive[p]))
                seq.append((p, 'close', h))
            else:
                seq.append((p, 'lock', alive[p][a % len(alive[p])], ['SH', 'EX', 'UN', 'SH', 'EX'][(a >> 4) % 5]))
        seqs.append(seq)
    return seqs


def selfcheck():
    import shutil

    base = os.path.join(VERIF_DIR, '.scratch', f'c15-selfcheck-{os.getpid()}')
    shutil.rmtree(base, ignore_errors=True)
    os.makedirs(os.path.join(base, 'a'))
    os.makedirs(os.path.join(base, 'b'))
    for f in FILES:
        open(os.path.join(base, f), 'w').close()
    procs = None
    nops = 0
    seqs = _FIXED_SEQS + _generated_seqs(40, 30)
    try:
        procs = _RealProcs(3)
        for si, seq in enumerate(seqs):
            k = S.Kernel(None)
            for f in FILES:
                k.create(f)
            fdmap = [[], [], []]
            for i in range(3):
                procs.call(i, ['reset'])
            for step, op in enumerate(seq):
                p = op[0]
                if op[1] == 'open':
                    real = procs.call(p, ['open', os.path.join(base, op[2])])
                    try:
                        fdmap[p].append(k.m_open(p, op[2]))
                        model = 'ok'
                    except OSError as e:
                        model = errno.errorcode.get(e.errno, str(e.errno))
                elif op[1] == 'close':
                    real = procs.call(p, ['close', op[2]])
                    try:
                        k.m_close(p, fdmap[p][op[2]])
                        model = 'ok'
                    except OSError as e:
                        model = errno.errorcode.get(e.errno, str(e.errno))
                else:
                    real = procs.call(p, ['lock', op[2], op[3]])
                    err = k.m_trylock(p, fdmap[p][op[2]], op[3])
                    model = 'ok' if err is None else errno.errorcode.get(err, str(err))
                if real == 'EACCES':
                    real = 'EAGAIN'
                nops += 1
                if real != model:
                    raise HarnessError(f'self-check: simulated fcntl kernel disagrees with the real kernel in sequence {si} at step {step} {op}: real={real} model={model}; sequence={seq}')
        procs.close()
        procs = None
        _SELFCHECK['edeadlk_model_validated'] = _selfcheck_edeadlk(base)
    finally:
        if procs is not None:
            procs.close()
        shutil.rmtree(base, ignore_errors=True)
    _SELFCHECK.update(traces_validated_against_impl=len(seqs), ops_validated_against_impl=nops)
    _selfcheck_oracle()


def _selfcheck_edeadlk(base):
    """Blocking scenario against the real kernel: process A holds EX on f (thread 0) while its thread 1
    sleeps in lockf(g, EX) because process B holds SH on g; B then asks for SH on f (blocking).  The
    model says EDEADLK (deadlock detection is per process).  Returns False when the sleeping thread
    cannot be observed in /proc/locks (nothing is concluded then)."""
    import fcntl
    import select
    import signal
    import threading
    import time

    f, g = os.path.join(base, 'f'), os.path.join(base, 'g')
    k = S.Kernel(None)
    k.create('f')
    k.create('g')
    fa, ga, gb, fb = k.m_open(0, 'f'), k.m_open(0, 'g'), k.m_open(1, 'g'), k.m_open(1, 'f')
    assert k.m_trylock(1, gb, 'SH') is None and k.m_trylock(0, fa, 'EX') is None
    assert k.m_trylock(0, ga, 'EX') == errno.EAGAIN and not k.would_deadlock(0, k.files['g'], 'EX')
    k.blocked[0] = (0, k.files['g'], 'EX')
    model = 'EDEADLK' if k.would_deadlock(1, k.files['f'], 'SH') else 'blocks'

    c_r, p_w = os.pipe()
    p_r, c_w = os.pipe()
    pid = os.fork()
    if pid == 0:
        try:
            os.close(p_w)
            os.close(p_r)
            fd = os.open(g, os.O_RDWR)
            fcntl.lockf(fd, fcntl.LOCK_SH)
            os.write(c_w, b'r')
            os.read(c_r, 1)
            fd2 = os.open(f, os.O_RDWR)
            try:
                fcntl.lockf(fd2, fcntl.LOCK_SH)
                os.write(c_w, b'k')
            except OSError as e:
                os.write(c_w, b'D' if e.errno == errno.EDEADLK else b'?')
        finally:
            os._exit(0)
    os.close(c_r)
    os.close(c_w)
    th = None
    fd_f = None
    observed = False
    real = None
    try:
        if not select.select([p_r], [], [], 5.0)[0] or os.read(p_r, 1) != b'r':
            raise HarnessError('self-check: real worker process does not answer')
        fd_f = os.open(f, os.O_RDWR)
        fcntl.lockf(fd_f, fcntl.LOCK_EX | fcntl.LOCK_NB)

        def sleeper():
            fd = os.open(g, os.O_RDWR)
            try:
                fcntl.lockf(fd, fcntl.LOCK_EX)
            finally:
                os.close(fd)

        th = threading.Thread(target=sleeper, daemon=True)
        th.start()
        ino = os.stat(g).st_ino
        for _ in range(200):
            try:
                with open('/proc/locks') as fh:
                    if any('->' in ln and ln.split()[-3].endswith(':%d' % ino) for ln in fh if len(ln.split()) >= 8):
                        observed = True
                        break
            except OSError:
                break
            time.sleep(0.01)
        os.write(p_w, b'g')
        if select.select([p_r], [], [], 1.5)[0]:
            real = {b'D': 'EDEADLK', b'k': 'granted'}.get(os.read(p_r, 1), 'other')
        else:
            real = 'blocks'
    finally:
        if fd_f is not None:
            os.close(fd_f)  # releases f: B (if sleeping) proceeds and exits, then the sleeper gets g
        for fd in (p_w, p_r):
            try:
                os.close(fd)
            except OSError:
                pass
        for _ in range(300):
            done, _st = os.waitpid(pid, os.WNOHANG)
            if done:
                break
            time.sleep(0.01)
        else:
            os.kill(pid, signal.SIGKILL)
            os.waitpid(pid, 0)
        if th is not None:
            th.join(timeout=5)
            if th.is_alive():
                raise HarnessError('self-check: sleeper thread did not finish')
    if not observed:
        return False
    if real != model:
        raise HarnessError(f'self-check: deadlock detection of the simulated kernel ({model}) differs from the real kernel ({real})')
    return True


def _selfcheck_oracle():
    """The scheduler must replay a (program, schedule) pair exactly, whatever the code under test does
    (a violation found here is not a harness problem: the generated search will report it)."""
    n = dict(p=0, s=False, b=True, r=False, **{'in': []})
    spec = dict(procs=[[[n], [dict(n, s=True)]], [[dict(n, p=1)]]], sched=[1, 2, 0, 1, 1, 2, 0, 0, 1, 2, 1, 0, 2, 2, 1] * 4)

    def once():
        try:
            r = run_schedules(spec)
            return ('ok', r.classes, r.render)
        except Violation as v:
            return ('violation', v.clause, v.detail)

    if once() != once():
        raise HarnessError('self-check: replay of a (program, schedule) pair is not exact')


def extra_coverage(results=None):
    out = dict(_SELFCHECK)
    out['exhaustive_subspaces'] = dict(
        what='all schedules (DFS, state caching) of the catalogue programs: 2 threads, <=2 requests each (sequential or nested), one file',
        one_process='quick: all 1-vs-1 and 1-vs-2 request programs + every %dth 2-vs-2 program; thorough: whole catalogue (1378 programs)' % QUICK_22_STRIDE,
        two_processes='quick: all 1-vs-1 and 1-vs-2 request programs + every %drd 2-vs-2 program; thorough: whole catalogue' % QUICK_22_STRIDE_2PROC,
        incomplete_programs='counted in class exhaustive:bounded (execution cap per program: %r)' % MAX_EXEC,
    )
    return out


# -----------------------------------------------------------------------------------------
# predicates for known findings (matched together with the clause prefix)


def _threads_of(spec):
    out = []
    for pi, threads in enumerate(parse_program(spec)):
        for ti, th in enumerate(threads):
            out.append((pi, ti, th))
    return out


def _nested_pairs(nodes):
    """(ancestor, descendant) pairs"""
    for n in nodes:
        for d in _walk(n['children']):
            yield n, d
        yield from _nested_pairs(n['children'])


def known_upgrader_lost_wakeup(spec):
    """A thread holds a file shared and, nested inside, makes a blocking exclusive request on the same
    file while another thread of the same process has a shared request on that file: the upgrader
    waits on the condition and `_lock_sh`'s exit does not notify while the upgrader itself still holds."""
    ths = _threads_of(spec)
    for pi, ti, th in ths:
        for a, d in _nested_pairs(th):
            if a['shared'] and not d['shared'] and d['blocking'] and a['key'] == d['key']:
                for pj, tj, other in ths:
                    if pj == pi and tj != ti and any(n['shared'] and n['key'] == a['key'] for n in _walk(other)):
                        return True
    return False


def known_edeadlk_per_process(spec):
    """Process Q's thread holds file k1 and, nested inside, makes a blocking request on another file k2;
    process P has one thread with a conflicting blocking request on k1 (it sleeps in fcntl) and a
    different thread with a conflicting request on k2 (the holder): the kernel's per-process deadlock
    detection answers EDEADLK although P's holder is not waiting for anybody."""
    ths = _threads_of(spec)

    def conflict(a, b):
        return a['key'] == b['key'] and (not a['shared'] or not b['shared'])

    for qi, qt, u in ths:
        for a, d in _nested_pairs(u):
            if a['key'] == d['key'] or not d['blocking']:
                continue
            for pi, t1i, t1 in ths:
                if pi == qi or not any(n['blocking'] and conflict(n, a) for n in _walk(t1)):
                    continue
                for pj, t0i, t0 in ths:
                    if pj == pi and t0i != t1i and any(conflict(n, d) for n in _walk(t0)):
                        return True
    return False


KNOWN_PREDICATES = {
    'upgrader_lost_wakeup': known_upgrader_lost_wakeup,
    'edeadlk_per_process': known_edeadlk_per_process,
}
