"""C17 -- Workflows execute as their task graph specifies.

A spec is a construction script (builder operations).  `pv.ref.wfref.plan` interprets it
(totally) on a reference workflow; this module replays the resolved steps on pharmpy's
WorkflowBuilder / Workflow, compares tasks and edges after every step, and executes the
finished workflow on every code path pharmpy offers with the threaded dask scheduler:

  direct            dask.threaded.get(wf.as_dask_dict(), 'results', num_workers=1|2|8)
  run               pharmpy.workflows.local_dask.run(wf, ctx)            (dispatcher entry point)
  insert_context    WorkflowBuilder(wf) + insert_context + Workflow      (what call_workflow does)
  execute_workflow  execute_workflow(wf, dispatcher=local_dask, context=ctx)

Task functions come from a pure family: plain f(*args) -> (label, args); context tasks
g(context, *args) -> (label, 'CTX', args).  They log enter/leave on a logical clock.
"""

from __future__ import annotations

import collections
import itertools
import os
import shutil
import threading
import time

from hypothesis import strategies as st

from ..core import VERIF_DIR, CaseInfo, HarnessError, SubCheck, Violation, guard
from ..ref import wfref
from ..ref.wfref import CTX

PROPERTY = 'C17'
LEVEL = 'exploration'
RULE = (
    'Construction scripts (optionally starting from WorkflowBuilder(tasks=[0-3 tasks])) of 2-10 builder operations '
    '(add_task of a new task with 0-4 predecessors given as Task or list in arbitrary order, optionally one of them '
    'a task not yet in the builder; add_task on a task ALREADY in the builder declaring further predecessors that '
    'are not its descendants; insert_workflow of a 1-4 task sub-workflow given as Workflow or WorkflowBuilder with '
    'explicit or default predecessors in the arities N:N, N:1, 1:N; WorkflowBuilder + Workflow and Workflow + '
    'Workflow; replace_task; insert_context) over <=12 tasks, closed by one sink that collects all open outputs '
    '(in a permuted order) plus up to 2 inner tasks. Task functions f(*args)->(label,args) / '
    'g(context,*args)->(label,"CTX",args), 0-2 static inputs, task names drawn from 4 names incl. "results" '
    '(duplicates on purpose), 0-1 ms sleeps to perturb scheduling. Every workflow is executed on each applicable '
    'path (threaded get with 1, 2, 8 workers; local_dask.run; insert_context copy; execute_workflow with a '
    'NullContext or, when ldc % 10 == 0 (about a third of the scripts), a scratch LocalDirectoryContext). Non-trivial = final DAG has a task '
    'with >=2 predecessors and a diamond, or a replaced / context-prepended task feeds a task with >=2 '
    'predecessors. Distinct = hash of the script.'
)
ASSUMPTIONS = [
    'argument order = static inputs, then predecessor results ordered by the position at which the predecessor '
    'task entered the workflow (property text); replace_task / insert_context / the replacements done by '
    'execute_workflow substitute a task in place, i.e. do not change the position of a task',
    'the order of the list given as predecessors= is NOT taken as the argument order (pharmpy orders by entry; '
    'cases where both differ are counted in class declared_order_differs)',
    'dask.threaded.get is trusted to evaluate a dask graph dict correctly',
    'the distributed dispatcher (LocalCluster) is exercised in the thorough tier only (sub-check distributed, one '
    'execution per script); call_workflow under a running client is represented by its insert_context step only',
]

SCRATCH = os.path.join(VERIF_DIR, '.scratch', 'c17')

# ------------------------------------------------------------------------------------------
# generator

TASK = st.fixed_dictionaries(
    dict(c=st.integers(0, 3), s=st.lists(st.integers(0, 11), max_size=2), n=st.integers(0, 7), d=st.integers(0, 4))
)
SUB = st.fixed_dictionaries(
    dict(t=st.lists(TASK, min_size=1, max_size=4), p=st.lists(st.lists(st.integers(0, 5), max_size=2), min_size=4, max_size=4))
)
IDX = st.integers(0, 23)
OP_ADD = st.fixed_dictionaries(dict(o=st.just('add'), t=TASK, p=st.lists(IDX, max_size=4), single=st.booleans(), fresh=st.integers(0, 11), ft=TASK))
OP_LINK = st.fixed_dictionaries(dict(o=st.just('link'), i=IDX, p=st.lists(IDX, max_size=3), single=st.booleans()))
OP_INS = st.fixed_dictionaries(
    dict(o=st.just('ins'), w=SUB, p=st.one_of(st.none(), st.lists(IDX, max_size=4)), b=st.booleans(), single=st.booleans())
)
OP_PLUS = st.fixed_dictionaries(dict(o=st.just('plus'), w=SUB, v=st.integers(0, 1)))
OP_REP = st.fixed_dictionaries(dict(o=st.just('rep'), i=IDX, t=TASK))
OP_CTX = st.fixed_dictionaries(dict(o=st.just('ctx')))
OPS_PLAIN = st.one_of(OP_ADD, OP_ADD, OP_ADD, OP_ADD, OP_LINK, OP_LINK, OP_INS, OP_INS, OP_INS, OP_PLUS)
OPS_ALL = st.one_of(OP_ADD, OP_ADD, OP_ADD, OP_ADD, OP_LINK, OP_LINK, OP_INS, OP_INS, OP_INS, OP_PLUS, OP_REP, OP_REP, OP_CTX)
SINK = st.fixed_dictionaries(dict(force=st.booleans(), perm=st.lists(st.integers(0, 9), max_size=8), x=st.lists(IDX, max_size=2), t=TASK))


def _script(ops):
    return st.fixed_dictionaries(dict(init=st.lists(TASK, max_size=3), ops=st.lists(ops, min_size=2, max_size=10), sink=SINK, ldc=st.integers(0, 9)))


def strategy_build():
    # scripts without replace_task / insert_context
    return _script(OPS_PLAIN)


def strategy_replace():
    return _script(OPS_ALL)


# ------------------------------------------------------------------------------------------
# recording task functions


class Recorder:
    def __init__(self):
        self.lock = threading.Lock()
        self.ctx = None
        self.by_type = False
        self.reset()

    def reset(self):
        with self.lock:
            self.clock = 0
            self.enter = collections.defaultdict(list)
            self.leave = collections.defaultdict(list)

    def tick(self, table, label):
        with self.lock:
            self.clock += 1
            getattr(self, table)[label].append(self.clock)


_ACTIVE = [None]  # the recorder of the case being evaluated (one case at a time per process)


def _active() -> Recorder:
    return _ACTIVE[0]


def make_fn(label: str, takes_ctx: bool, delay: int):
    """Task function of the pure family.  It reaches the recorder through the module-level
    accessor (not a closure) so that the function stays picklable for dask distributed."""
    if takes_ctx:

        def fn(context, *args):
            rec = _active()
            rec.tick('enter', label)
            if delay:
                time.sleep(0.0005 * delay)
            ok = context is rec.ctx or (rec.by_type and type(context) is type(rec.ctx))
            val = (label, 'CTX' if ok else ('WRONG', repr(context)), args)
            rec.tick('leave', label)
            return val

    else:

        def fn(*args):
            rec = _active()
            rec.tick('enter', label)
            if delay:
                time.sleep(0.0005 * delay)
            val = (label, args)
            rec.tick('leave', label)
            return val

    fn.__name__ = f'fn_{label}'
    return fn


# ------------------------------------------------------------------------------------------
# replay on pharmpy


class Build:
    def __init__(self, P, rec):
        from pharmpy.workflows import Task

        self.P = P
        self.rec = rec
        self.task = {}
        self.fn_label = {}
        for lab, t in P.tasks.items():
            fn = make_fn(lab, t['ctx'], t['delay'])
            self.fn_label[id(fn)] = lab
            self.task[lab] = Task(t['name'], fn, *t['static'])

    def label(self, task):
        return self.fn_label.get(id(task.function))

    def sub(self, step, as_builder):
        from pharmpy.workflows import Workflow, WorkflowBuilder

        wb = WorkflowBuilder()
        for lab, ps in zip(step['labels'], step['decl']):
            wb.add_task(self.task[lab], predecessors=[self.task[p] for p in ps] if ps else None)
        return wb if as_builder else Workflow(wb)

    def apply(self, wb, step):
        from pharmpy.workflows import Workflow, WorkflowBuilder
        from pharmpy.workflows.workflow import insert_context

        op = step['op']
        if op == 'init':
            wb = WorkflowBuilder(tasks=[self.task[x] for x in step['labels']], name='c17')
        elif op == 'add':
            preds = [self.task[p] for p in step['preds']]
            if step['single']:
                wb.add_task(self.task[step['task']], predecessors=preds[0])
            elif preds:
                wb.add_task(self.task[step['task']], predecessors=preds)
            else:
                wb.add_task(self.task[step['task']])
        elif op == 'ins':
            other = self.sub(step, step['as_builder'])
            if step['preds'] is None:
                wb.insert_workflow(other)
            elif step['single']:
                wb.insert_workflow(other, predecessors=self.task[step['preds'][0]])
            else:
                wb.insert_workflow(other, predecessors=[self.task[p] for p in step['preds']])
        elif op == 'plus':
            other = self.sub(step, False)
            if step['variant'] == 0:
                wb = wb + other
            else:
                wb = WorkflowBuilder(Workflow(wb) + other)
            if not isinstance(wb, WorkflowBuilder):
                raise Violation('struct:add-returns', observed=type(wb).__name__, expected='WorkflowBuilder')
        elif op == 'rep':
            wb.replace_task(self.task[step['old']], self.task[step['new']])
        elif op == 'ctx':
            insert_context(wb, self.rec.ctx)
            # insert_context creates the replacing Task objects itself: later operations of the
            # script must refer to the tasks that are now in the workflow
            for t in wb.tasks:
                lab = self.label(t)
                if lab is not None:
                    self.task[lab] = t
        else:
            raise HarnessError(op)
        return wb


def structure(B: Build, w, where):
    """-> (labels in w.tasks order, edge set) of a WorkflowBuilder / Workflow; checks that the public
    views (tasks, predecessors, successors, inputs, outputs, len) are consistent with each other"""
    tasks = w.tasks
    labels = []
    for t in tasks:
        lab = B.label(t)
        if lab is None:
            raise Violation('struct:tasks:foreign', observed=repr(t), detail=f'{where}: task with a function that was never declared')
        labels.append(lab)
    if len(set(labels)) != len(labels):
        raise Violation('struct:tasks:duplicate', observed=labels, detail=where)
    if len(w) != len(labels):
        raise Violation('struct:len', observed=len(w), expected=len(labels), detail=where)
    e_pred = set()
    e_succ = set()
    for t, lab in zip(tasks, labels):
        for p in w.get_predecessors(t):
            e_pred.add((B.label(p), lab))
        for s in w.get_successors(t):
            e_succ.add((lab, B.label(s)))
    if e_pred != e_succ:
        raise Violation('struct:pred-succ-inconsistent', observed=sorted(e_pred ^ e_succ), detail=where)
    ins = {B.label(t) for t in w.input_tasks}
    outs = {B.label(t) for t in w.output_tasks}
    if ins != {x for x in labels if all(b != x for _, b in e_pred)}:
        raise Violation('struct:input_tasks', observed=sorted(ins), detail=where)
    if outs != {x for x in labels if all(a != x for a, _ in e_pred)}:
        raise Violation('struct:output_tasks', observed=sorted(outs), detail=where)
    return labels, e_pred


def check_structure(B: Build, w, snap, ctx_labels, where, defect_edges=None):
    """tasks / edges / task contents of w equal the reference snapshot"""
    P = B.P
    labels, edges = guard(structure, B, w, where, allowed=(), clause='struct')
    if set(labels) != set(snap.nodes):
        raise Violation(
            'struct:tasks', observed=sorted(labels), expected=sorted(snap.nodes),
            detail=f'{where}: missing {sorted(set(snap.nodes) - set(labels))} surplus {sorted(set(labels) - set(snap.nodes))}',
        )
    if edges != snap.edges:
        det = f'{where}: missing {sorted(snap.edges - edges)} surplus {sorted(edges - snap.edges)}'
        if defect_edges is not None and edges == defect_edges:
            raise Violation('edges-after-replace:insert_workflow', observed=sorted(edges), expected=sorted(snap.edges), detail=det)
        raise Violation('struct:edges', observed=sorted(edges), expected=sorted(snap.edges), detail=det)
    for t in w.tasks:
        lab = B.label(t)
        spec = P.tasks[lab]
        if t.name != spec['name']:
            raise Violation('struct:task-name', observed=t.name, expected=spec['name'], detail=where)
        got = tuple(CTX if x is B.rec.ctx else x for x in t.task_input)
        exp = ((CTX,) if lab in ctx_labels else ()) + tuple(spec['static'])
        if got != exp:
            raise Violation('struct:task-input', observed=repr(got), expected=repr(exp), detail=f'{where}: task {lab}')


def check_dask_dict(B: Build, wf, ref, ctx_labels):
    """keys unique, sink named 'results', value = (function, *static, *keys of the predecessors)"""
    dsk = guard(wf.as_dask_dict, allowed=(), clause='dask:as_dask_dict')
    P = B.P
    if not isinstance(dsk, dict):
        raise Violation('dask:type', observed=type(dsk).__name__)
    if len(dsk) != len(ref.nodes):
        raise Violation('dask:keys-not-unique', observed=sorted(map(str, dsk)), expected=len(ref.nodes), detail='number of keys != number of tasks')
    key_of = {}
    for k, v in dsk.items():
        if not (isinstance(v, tuple) and v and callable(v[0])):
            raise Violation('dask:value', observed=repr(v)[:200])
        lab = B.fn_label.get(id(v[0]))
        if lab is None or lab in key_of:
            raise Violation('dask:function', observed=repr(v)[:200], detail='unknown or repeated function')
        key_of[lab] = k
    sink = ref.outputs()[0]
    if key_of.get(sink) != 'results':
        raise Violation('dask:sink-name', observed=key_of.get(sink), expected='results')
    for lab, k in key_of.items():
        v = dsk[k]
        ns = len(P.tasks[lab]['static']) + (1 if lab in ctx_labels else 0)
        got_static = tuple(CTX if x is B.rec.ctx else x for x in v[1 : 1 + ns])
        exp_static = ((CTX,) if lab in ctx_labels else ()) + tuple(P.tasks[lab]['static'])
        if got_static != exp_static:
            raise Violation('dask:static-inputs', observed=repr(got_static), expected=repr(exp_static), detail=f'task {lab}')
        got_keys = list(v[1 + ns :])
        exp_keys = {key_of[p] for p in ref.preds(lab)}
        if len(got_keys) != len(exp_keys) or set(map(str, got_keys)) != exp_keys:
            raise Violation('dask:predecessor-keys', observed=repr(got_keys)[:300], expected=sorted(exp_keys), detail=f'task {lab}')
    return dsk


def check_calls(rec: Recorder, ref, kind, problems):
    for n in ref.nodes:
        c = len(rec.enter.get(n, []))
        if c != 1 or len(rec.leave.get(n, [])) != 1:
            problems.append(Violation(f'calls:count:{kind}', observed=c, expected=1, detail=f'task {n} called {c} times'))
            return
    extra = sorted(set(rec.enter) - set(ref.nodes))
    if extra:
        problems.append(Violation(f'calls:foreign-task:{kind}', observed=extra, detail='task that is not part of the workflow was called'))
        return
    for p, t in sorted(ref.edges):
        if not rec.leave[p][0] < rec.enter[t][0]:
            problems.append(Violation(f'calls:before-predecessor:{kind}', observed=(rec.enter[t][0], rec.leave[p][0]), detail=f'{t} started before its predecessor {p} finished'))
            return


def run_path(kind, thunk, rec, ref, expected, defect_expected, problems, in_pharmpy=True, note=''):
    rec.reset()
    try:
        if in_pharmpy:
            got = guard(thunk, allowed=(), clause=f'exec:{kind}')
        else:
            got = thunk()
    except Violation as v:
        problems.append(v)
        return
    if got != expected:
        if defect_expected is not None and got == defect_expected:
            clause = f'argorder-after-replace:{kind}'
        else:
            clause = f'result:{kind}'
        problems.append(Violation(clause, observed=repr(got), expected=repr(expected), detail=note))
    check_calls(rec, ref, kind, problems)


_counter = itertools.count()


def render(P):
    out = []
    for s in P.steps:
        if s['op'] == 'init':
            out.append(f"WorkflowBuilder(tasks={[desc(P, x) for x in s['labels']]})")
        elif s['op'] == 'add':
            out.append(f"add_task({'EXISTING ' if s.get('existing') else ''}{desc(P, s['task'])}, predecessors={s['preds']})")
        elif s['op'] == 'ins':
            out.append(f"insert_workflow({'WB' if s['as_builder'] else 'WF'}{[(desc(P, a), d) for a, d in zip(s['labels'], s['decl'])]}, predecessors={s['preds']})")
        elif s['op'] == 'plus':
            out.append(f"wb {'+' if s['variant'] == 0 else '(Workflow)+'} WF{[(desc(P, a), d) for a, d in zip(s['labels'], s['decl'])]}")
        elif s['op'] == 'rep':
            out.append(f"replace_task({s['old']}, {desc(P, s['new'])})")
        else:
            out.append('insert_context')
    return out


def desc(P, lab):
    t = P.tasks[lab]
    return lab + ('(context)' if t['ctx'] else '') + (repr(list(t['static'])) if t['static'] else '')


def run_script_distributed(spec):
    return run_script(spec, distributed=True)


def run_script(spec, distributed=False):
    import dask
    import dask.threaded

    import pharmpy.workflows.dispatchers as dispatchers
    from pharmpy.workflows import Workflow, WorkflowBuilder, execute_workflow, local_dask
    from pharmpy.workflows.contexts import LocalDirectoryContext, NullContext
    from pharmpy.workflows.workflow import insert_context

    dispatchers.conf.dask_dispatcher = 'threaded'

    P = wfref.plan(spec)
    exp = wfref.expectations(P, True)
    dfx = wfref.expectations(P, False)
    rec = Recorder()
    _ACTIVE[0] = rec
    use_ldc = int(spec.get('ldc', 1)) % 10 == 0 and not distributed
    scratch = None
    if use_ldc:
        scratch = f'{SCRATCH}_{os.getpid()}_{next(_counter)}'  # one directory per case, nothing shared between shards
        os.makedirs(scratch, exist_ok=True)
    try:
        if use_ldc:
            rec.ctx = guard(LocalDirectoryContext, 'wf', ref=scratch, allowed=(), clause='context')
        else:
            rec.ctx = NullContext()
        return _run(P, exp, dfx, rec, spec, use_ldc, dask, Workflow, WorkflowBuilder, execute_workflow, local_dask, insert_context, distributed)
    finally:
        dispatchers.conf.dask_dispatcher = 'threaded'
        if scratch is not None:
            shutil.rmtree(scratch, ignore_errors=True)


def _run(P, exp, dfx, rec, spec, use_ldc, dask, Workflow, WorkflowBuilder, execute_workflow, local_dask, insert_context, distributed=False):
    import dask.threaded

    import pharmpy.workflows.dispatchers as dispatchers

    B = Build(P, rec)
    wb = WorkflowBuilder(name='c17')
    ctx_labels = set()
    evals = 0
    classes = set(P.classes)

    # ---- (1) structure after every builder operation ------------------------------------------
    for k, step in enumerate(P.steps):
        if k == len(P.steps) - 1 and P.multi_sink_before_final:
            # a workflow without exactly one output task has no dask dict (documented ValueError)
            try:
                Workflow(wb).as_dask_dict()
            except ValueError:
                pass
            except Exception as e:  # noqa
                raise Violation(f'dask:not-one-sink:{type(e).__name__}', detail=str(e)[:200])
            else:
                raise Violation('dask:not-one-sink:no-error', detail=f'{len(P.snaps[k - 1].outputs()) if k else 0} output tasks')
        wb = guard(B.apply, wb, step, allowed=(), clause=f'build:{step["op"]}')
        if step['op'] == 'ctx':
            ctx_labels = set(step['touched'])
        de = dfx['edges'][k] if k < len(dfx['edges']) and dfx['edges'][k] != 'diverged' else None
        check_structure(B, wb, P.snaps[k], ctx_labels, f'after step {k} {render(P)[k]}', defect_edges=de)
        evals += 1

    ref = P.ref
    wf = guard(Workflow, wb, allowed=(), clause='build:Workflow')
    check_structure(B, wf, ref, ctx_labels, 'Workflow(builder)')
    check_dask_dict(B, wf, ref, ctx_labels)

    problems = []
    rendered = ' ; '.join(render(P))

    # ---- (2)/(3) execution ----------------------------------------------------------------------
    if distributed:
        # thorough only: one execution through the LocalCluster branch of the dispatcher
        rec.by_type = True  # the scattered context object may arrive as a copy
        dispatchers.conf.dask_dispatcher = 'distributed'
        if exp['direct'] is not None:
            run_path('run-distributed', lambda: local_dask.run(wf, rec.ctx), rec, ref, exp['direct'], dfx['direct'], problems, note=rendered)
            evals += 1
        elif exp['execute_workflow'] is not None:
            run_path('execute_workflow-distributed', lambda: execute_workflow(wf, dispatcher=local_dask, context=rec.ctx), rec, ref, exp['execute_workflow'], dfx['execute_workflow'], problems, note=rendered)
            evals += 1
        dispatchers.conf.dask_dispatcher = 'threaded'
    elif exp['direct'] is not None:
        dsk = wf.as_dask_dict()
        for n in (1, 2, 8):
            run_path('direct', lambda: dask.threaded.get(dsk, 'results', num_workers=n), rec, ref, exp['direct'], dfx['direct'], problems, in_pharmpy=False, note=f'num_workers={n}; {rendered}')
            evals += 1
        nw = (1, 2, 8)[int(spec.get('ldc', 0)) % 3]

        def via_run():
            with dask.config.set(num_workers=nw):
                return local_dask.run(wf, rec.ctx)

        run_path('run', via_run, rec, ref, exp['direct'], dfx['direct'], problems, note=f'num_workers={nw}; {rendered}')
        evals += 1

    if not P.ctx_inserted and not distributed:
        all_ctx = {n for n in ref.nodes if P.tasks[n]['ctx']}
        if all_ctx:
            classes.add('context_tasks')
        # what call_workflow does before dispatching
        wb2 = guard(WorkflowBuilder, wf, allowed=(), clause='build:WorkflowBuilder(workflow)')
        guard(insert_context, wb2, rec.ctx, allowed=(), clause='build:insert_context')
        wf2 = guard(Workflow, wb2, allowed=(), clause='build:Workflow')
        check_structure(B, wf2, ref, all_ctx, 'WorkflowBuilder(wf)+insert_context')
        check_dask_dict(B, wf2, ref, all_ctx)
        # the original workflow is immutable: untouched by the copy's insert_context
        check_structure(B, wf, ref, ctx_labels, 'original workflow after insert_context on a copy')
        if exp['insert_context'] is not None:
            dsk2 = wf2.as_dask_dict()
            for n in (1, 8):
                run_path('insert_context', lambda: dask.threaded.get(dsk2, 'results', num_workers=n), rec, ref, exp['insert_context'], dfx['insert_context'], problems, in_pharmpy=False, note=f'num_workers={n}; {rendered}')
                evals += 1
        if exp['execute_workflow'] is not None:
            for n in (1, 2, 8):

                def via_execute():
                    with dask.config.set(num_workers=n):
                        return execute_workflow(wf, dispatcher=local_dask, context=rec.ctx)

                run_path('execute_workflow', via_execute, rec, ref, exp['execute_workflow'], dfx['execute_workflow'], problems, note=f'num_workers={n}; {rendered}')
                evals += 1
            check_structure(B, wf, ref, ctx_labels, 'original workflow after execute_workflow')

    if problems:
        for v in problems:
            if not v.clause.startswith('argorder-after-replace'):
                raise v
        raise problems[0]

    # ---- evidence ----------------------------------------------------------------------------
    multi = ref.has_multi_pred()
    diamond = ref.has_diamond()
    moved = set(P.replaced) | {n for n in ref.nodes if P.tasks[n]['ctx']}
    rep_feeds = any(len(ref.preds(s)) >= 2 for n in moved if n in ref.nodes for s in ref.succs(n))
    if multi:
        classes.add('multi_pred')
    if diamond:
        classes.add('diamond')
    if rep_feeds:
        classes.add('replaced_feeds_multi_pred')
    if any(P.tasks[n]['static'] for n in ref.nodes):
        classes.add('static_inputs')
    if any(P.tasks[n]['static'] and ref.preds(n) for n in ref.nodes):
        classes.add('static_and_predecessors')
    if wfref.declared_differs(P):
        classes.add('declared_order_differs')
    if use_ldc:
        classes.add('local_directory_context')
    if len({P.tasks[n]['name'] for n in ref.nodes}) < len(ref.nodes):
        classes.add('duplicate_task_names')
    classes.add(f'tasks_{min(len(ref.nodes), 12) // 4 * 4}+')
    return CaseInfo(
        nontrivial=(multi and diamond) or rep_feeds,
        classes=tuple(sorted(classes)),
        render=dict(script=render(P), entry_order=ref.nodes, edges=sorted(ref.edges)),
        evals=evals,
    )


# ------------------------------------------------------------------------------------------

KNOWN_PREDICATES = {'replace_reorders': wfref.replace_reorders}


def selfcheck():
    import ast

    src = open(wfref.__file__).read()
    for node in ast.walk(ast.parse(src)):
        names = []
        if isinstance(node, ast.Import):
            names = [a.name for a in node.names]
        elif isinstance(node, ast.ImportFrom):
            names = [node.module or '']
        if any(n.split('.')[0] == 'pharmpy' for n in names):
            raise HarnessError('pv/ref/wfref.py imports pharmpy')

    # hand-computed diamond: entry order a, b, c, d ; d declared with predecessors [c, b]
    r = wfref.RefWF()
    r.add_task('a')
    r.add_task('b', ['a'])
    r.add_task('c', ['a'])
    r.add_task('d', ['c', 'b'])
    info = {k: dict(ctx=False, static=()) for k in 'abcd'}
    info['d']['static'] = (7,)
    a = ('a', ())
    want = ('d', (7, ('b', (a,)), ('c', (a,))))
    if r.evaluate(info)[0] != want:
        raise HarnessError('reference evaluator: diamond')
    if r.evaluate(info, 'declared')[0] != ('d', (7, ('c', (a,)), ('b', (a,)))):
        raise HarnessError('reference evaluator: declared order')
    if not (r.has_diamond() and r.has_multi_pred()):
        raise HarnessError('reference diamond detection')
    # replacement in place vs. defect model
    r2 = r.copy()
    r2.replace('b', 'b2')
    info['b2'] = dict(ctx=True, static=(CTX, 1))
    if r2.evaluate(info)[0] != ('d', (7, ('b2', 'CTX', (1, a)), ('c', (a,)))) or r2.nodes != ['a', 'b2', 'c', 'd']:
        raise HarnessError('reference replace in place')
    r3 = wfref.RefWF(inplace=False)
    r3.nodes, r3.edges, r3.decl = list(r.nodes), set(r.edges), {k: list(v) for k, v in r.decl.items()}
    r3.replace('b', 'b2')
    if r3.evaluate(info)[0] != ('d', (7, ('c', (a,)), ('b2', 'CTX', (1, a)))):
        raise HarnessError('defect model')
    # insert arities
    base = wfref.RefWF()
    for x in 'xyz':
        base.add_task(x)
    sub = wfref.RefWF()
    sub.add_task('p')
    sub.add_task('q')
    try:
        base.copy().insert(sub)
        raise HarnessError('3:2 insertion must be refused')
    except wfref.RefError:
        pass
    b2 = base.copy()
    if b2.insert(sub, ['z', 'x']) != 'NN' or b2.edges != {('z', 'p'), ('x', 'q')}:
        raise HarnessError('N:N insertion')
    b3 = base.copy()
    if b3.insert(sub, ['y']) != '1N' or b3.edges != {('y', 'p'), ('y', 'q')}:
        raise HarnessError('1:N insertion')
    one = wfref.RefWF()
    one.add_task('o')
    b4 = base.copy()
    if b4.insert(one) != 'N1' or b4.preds('o') != ['x', 'y', 'z']:
        raise HarnessError('N:1 insertion')
    # add_task on a task that is already present declares further edges; entry order decides the argument order
    r5 = wfref.RefWF()
    r5.add_task('u', ['v'])  # v enters through the edge, after u
    r5.add_task('w')
    r5.add_task('u', ['w'])
    r5.add_task('v', ['w'])
    if r5.nodes != ['u', 'v', 'w'] or r5.edges != {('v', 'u'), ('w', 'u'), ('w', 'v')} or r5.preds('u') != ['v', 'w']:
        raise HarnessError('add_task on an existing task')
    if r5.descendants('w') != {'u', 'v'} or r5.descendants('u') != set():
        raise HarnessError('descendants')
    Pl = wfref.plan({'ops': [{'o': 'add'}, {'o': 'add'}, {'o': 'link', 'i': 1, 'p': [1, 0]}]})
    if ('t0', 't1') not in Pl.ref.edges or 'add_task_existing' not in Pl.classes:
        raise HarnessError('link op')
    Pl.ref.topo()
    # the spec interpreter is total on junk
    for junk in ({}, {'ops': [{}, {'o': 'rep'}, {'o': 'ins'}, {'o': 'ctx'}, {'o': 'link'}, 3], 'init': [0, {}]}, {'ops': [{'o': 'add', 'fresh': 0}], 'sink': 0, 'init': 5}):
        P = wfref.plan(junk)
        if len(P.ref.outputs()) != 1:
            raise HarnessError('plan() must end in one sink')


SUBCHECKS = [
    SubCheck('build_execute', strategy_build, run_script, quick=2500, thorough=37500, describe='scripts without replace_task/insert_context operations'),
    SubCheck('replace_context', strategy_replace, run_script, quick=2500, thorough=37500, describe='scripts with replace_task and insert_context operations'),
    SubCheck('distributed', strategy_replace, run_script_distributed, quick=0, thorough=150, max_shards=1, describe='thorough only: LocalCluster branch of local_dask.run (about 0.5 s per script)'),
]
