"""C07 -- Refactorings and pharmpy's own evaluators preserve the model function.

Sub-checks
    refactor    eval(r(M), point') == eval(M, point) for the function-preserving refactorings r, with
                point' mapped through the renaming r documents (pv.modeleval numeric semantics)
    solve_ode   the closed-form amounts produced by solve_ode_system satisfy the original ODE system
                (finite difference in t against the original right-hand side) and the dose initial condition
    evaluators  get_*_expression / calculate_*_gradient_expression / evaluate_* / simplify_expression agree
                with sequential execution of the model and with central finite differences
"""

from __future__ import annotations

import atexit
import hashlib
import math
import os
import re
import shutil
import warnings

from hypothesis import strategies as st

from .. import corpus
from .. import modeleval as ME
from ..core import VERIF_DIR, CaseInfo, HarnessError, Reject, SubCheck, Violation, guard, innermost_pharmpy_frame
from ..irsem import EvalError, Undefined, close, ev
from . import c01

PROPERTY = 'C07'
LEVEL = 'exploration'
RULE = (
    'Models M = corpus start models (pheno, basic iv/oral, checked-in NONMEM models), optionally converted to the generic '
    'format, after 0-3 model-changing transformations from a table (add_iiv, add_covariate_effect, error models, '
    'peripheral/absorption/lag/bioavailability, joint distributions, fix_parameters[_to 0], boxcox, add_iov, allometry, '
    'mu_reference_model/make_declarative as earlier steps ...), and generated $PRED (>=3 statements) / ADVAN control streams '
    '(pv.checks.c01.build, MOD switched off) with reassignment, IF blocks and intrinsic functions. refactor: one refactoring r from mu_reference_model, make_declarative, '
    'cleanup_model, greekify_model, rename_symbols(fresh names for parameters/rvs/variables), convert_model generic / '
    'generic->nonmem, unload/load_dataset, remove_unused_parameters_and_rvs, create/split_joint_distribution, '
    'replace_fixed_thetas, replace_non_random_rvs; a quarter of the cases are histories r2(t(r1(M))) from a scenario table '
    '(add_bioavailability / add_lag_time / set_zero_order_absorption then a substitution-based refactoring; mu_reference_model, '
    'remove/add IIV, mu_reference_model again; ...); >=3 sample points per case; compared: dependent variables, every assigned '
    'symbol that still exists (final value; only cleanup_model and the NONMEM conversion may drop a symbol), ODE right-hand sides '
    '/ doses / lag time / bioavailability per compartment (an undefined symbol there after r is a violation). Non-trivial = M has a reassigned symbol, a '
    'Piecewise definition or an ODE system AND r changed the statements. solve_ode: linear 1-2 compartment (+depot) systems '
    'with bolus dose, optional bioavailability/lag/infusion (refusals counted); non-trivial = solved. evaluators (half of the '
    'dataset cases on models WITH initial individual estimates that differ from the explicitly passed etas): non-ODE '
    'models (generated $PRED with optional reassigned Y, pheno_linear, closed-form solved corpus models); non-trivial = '
    'model has a reassigned symbol or Piecewise and at least one random effect. Distinct = hash of (model statements, r).'
)
ASSUMPTIONS = [
    'numeric semantics = pv.modeleval / pv.irsem (sequential execution, Piecewise evaluated lazily, NaN==NaN); ODE systems are '
    'compared through right-hand sides, doses, lag time and bioavailability per compartment at given amounts (no integration)',
    'convert_model to nlmixr / rxode needs R / pyreadr: excluded; set_initial_estimates-like functions are not refactorings: excluded',
    'inputs respect the model: fixed parameters keep their value, an eta/eps whose variance parameters are all fixed to 0 has value 0, '
    'other parameters lie within their bounds',
    'points at which the ORIGINAL model is discontinuous/ill-conditioned (output moves >1e-4 relative under a 1e-7 relative input '
    'perturbation) are resampled, so rounding cannot flip a branch on one side only',
    'prior transformations and model reading are not under test here: a failing prior step is skipped',
    'an internal error of a refactoring on a NONMEM model whose innermost frame is the NONMEM code generator/parser is attributed to '
    'update_source (property C02) when the same refactoring works on the generic-format copy of the model; the oracle then continues '
    'on the generic copy',
    'the refactor and evaluators oracles run in a forked child process per case (pharmpy.basic.Expr / symengine can kill the '
    'interpreter); a child killed by a signal is a violation interpreter-crash:signal<N>@<innermost pharmpy frame of the faulthandler dump>',
    'a case whose child does not finish within 150 s (non-termination of symengine/sympy: observed for Mod(x, ETA) with ETA -> 0) is '
    'killed and counted as rejected; generated models use no MOD for the same reason',
    'finite differences: central, h=1e-6, accepted only where h and 2h estimates agree (1e-6 relative) and no relational / floor / '
    'Abs / sign / Max / Min node changes its discrete state within +-1e-4',
]

RTOL = 1e-9
_CACHE = {}
DOC_ERRORS = (ValueError, NotImplementedError)


def _cleanup_scratch():
    d = os.path.join(VERIF_DIR, '.scratch', f'corpus_{os.getpid()}')
    shutil.rmtree(d, ignore_errors=True)


atexit.register(_cleanup_scratch)


# ------------------------------------------------------------------------------------------
# model sources


def _quiet(fn, *a, **kw):
    with warnings.catch_warnings():
        warnings.simplefilter('ignore')
        return fn(*a, **kw)


def corpus_names():
    return list(corpus.names())


def gen_model(gspec, ytail=0, allow_mod=False):
    """c01 generator spec -> (model, text). Reading is not under test here."""
    from pharmpy.modeling import read_model_from_string

    # MOD is switched off (except for the spec of the known finding): pharmpy.basic.Expr.subs (symengine) kills the
    # interpreter or does not terminate on Mod(x, ETA) with ETA -> 0 and on Mod(Piecewise(..), ..) -- see known/C07.json
    try:
        if not allow_mod:
            gspec = dict(gspec, feat=dict(gspec.get('feat') or {}, mod=False))
        b = c01.build(gspec)
    except (KeyError, IndexError, TypeError, ValueError, ZeroDivisionError, AttributeError) as e:
        raise Reject(f'generator spec not buildable: {type(e).__name__}')
    text = b.text
    if ytail:
        text = _add_ytail(text, ytail, b)
    try:
        m = _quiet(read_model_from_string, text)
        _ = m.statements, m.parameters, m.random_variables
    except Exception as e:  # noqa  (property C01/C03 territory)
        raise Reject(f'generated model not readable: {type(e).__name__}')
    if not allow_mod and _has_mod(m):
        raise Reject('model contains Mod (symengine subs segfault / non-termination)')
    return m, text


def _has_mod(m):
    import sympy
    from pharmpy.model import Assignment

    return any(isinstance(s, Assignment) and s.expression._sympy_().has(sympy.Mod) for s in m.statements)


def _has_undef_fn(m):
    import sympy
    from sympy.core.function import AppliedUndef
    from pharmpy.model import Assignment

    for s in m.statements:
        if isinstance(s, Assignment):
            for f in s.expression._sympy_().atoms(sympy.Function):
                name = getattr(f.func, '__name__', str(f.func))
                if isinstance(f, AppliedUndef):
                    if not name.startswith('A_'):
                        return True
                elif not (type(f).__module__ or '').startswith('sympy'):
                    return True
    return False


_NOTE_FILE = [None]


def note_model(m):
    """shapes that matter when the interpreter dies (read by the parent of the isolated child)"""
    f = _NOTE_FILE[0]
    if f is None:
        return
    flags = []
    try:
        if _has_mod(m):
            flags.append('mod')
        if _has_undef_fn(m):
            flags.append('undef-fn')
    except Exception:  # noqa
        return
    f.seek(0)
    f.truncate()
    f.write('+'.join(flags))
    f.flush()


YTAILS = [
    None,
    'IF (TIME.GT.2) Y = Y + THETA(1)',
    'Y = Y*2',
    'IF (TIME.LE.3) Y = Y*EXP(ETA(1))',
    'Y = Y + EPS(1)*THETA(1)',
]


def _add_ytail(text, ytail, b):
    line = YTAILS[ytail % len(YTAILS)]
    if line is None:
        return text
    if 'ETA(1)' in line and b.neta < 1:
        line = YTAILS[1]
    eol = '\r\n' if '\r\n' in text else '\n'
    lines = text.split(eol)
    for i, ln in enumerate(lines):
        if ln.lstrip().upper().startswith('$THETA'):
            return eol.join(lines[:i] + [line] + lines[i:])
    return text


def _ind_params(m):
    from pharmpy.modeling import get_individual_parameters

    try:
        return list(_quiet(get_individual_parameters, m))
    except Exception:  # noqa
        return []


def _thetas(m):
    rvp = set(m.random_variables.parameter_names)
    return [p.name for p in m.parameters if p.name not in rvp]


def _covs(m):
    names = list(m.datainfo.names)
    out = [c for c in ('WGT', 'AGE', 'SEX', 'APGR') if c in names]
    return out


def _pick(lst, a):
    if not lst:
        raise ValueError('nothing to pick')
    return lst[a % len(lst)]


def _p_add_iiv(m, a):
    from pharmpy.modeling import add_iiv

    return add_iiv(m, _pick(_ind_params(m), a), ['exp', 'add', 'prop', 'log'][(a // 7) % 4])


def _p_add_cov(m, a):
    from pharmpy.modeling import add_covariate_effect

    return add_covariate_effect(m, _pick(_ind_params(m), a), _pick(_covs(m), a // 5), ['exp', 'pow', 'lin', 'piece_lin', 'cat'][(a // 3) % 5])


def _p_fix_theta(m, a):
    from pharmpy.modeling import fix_parameters

    return fix_parameters(m, [_pick(_thetas(m), a)])


def _p_fix_rvparam(m, a):
    from pharmpy.modeling import fix_parameters

    return fix_parameters(m, [_pick(list(m.random_variables.parameter_names), a)])


def _p_zero_omega(m, a):
    from pharmpy.modeling import fix_parameters_to
    from pharmpy.model import NormalDistribution

    singles = [d for d in m.random_variables if isinstance(d, NormalDistribution)]
    d = _pick(singles, a)
    return fix_parameters_to(m, {d.parameter_names[0]: 0})


def _p_boxcox(m, a):
    from pharmpy.modeling import transform_etas_boxcox

    return transform_etas_boxcox(m, [_pick(list(m.random_variables.etas.names), a)])


def _p_iov(m, a):
    from pharmpy.modeling import add_iov

    occ = _pick([c for c in ('SEX', 'FA1', 'VISI') if c in m.datainfo.names], a)
    return add_iov(m, occ)


def _p_remove_iiv(m, a):
    from pharmpy.modeling import remove_iiv

    return remove_iiv(m, [_pick(list(m.random_variables.iiv.names), a)])


def _p_join2(m, a):
    from pharmpy.modeling import create_joint_distribution

    names = list(m.random_variables.iiv.names)
    if len(names) < 2:
        raise ValueError('fewer than two IIV etas')
    i = a % max(1, len(names))
    j = (a // 7) % max(1, len(names))
    if i == j:
        j = (i + 1) % max(1, len(names))
    return create_joint_distribution(m, [names[min(i, j)], names[max(i, j)]])


def _simple(name, *args, **kw):
    def f(m, a):
        import pharmpy.modeling as pm

        return getattr(pm, name)(m, *args, **kw)

    f.__name__ = name
    return f


def _p_transits(m, a):
    from pharmpy.modeling import set_transit_compartments

    return set_transit_compartments(m, 1 + a % 3)


def _with_generic_fallback(fn):
    def g(m, a):
        from pharmpy.modeling import convert_model

        try:
            return fn(m, a)
        except Exception:  # noqa  (NONMEM code generation of the intermediate models is not under test here)
            return fn(convert_model(m, 'generic'), a)

    g.__name__ = fn.__name__
    return g


def _p_mu_then_iiv(m, a):
    """history: mu_reference_model, then IIV on a parameter that had none (a later mu_reference_model must cope)"""
    from pharmpy.modeling import add_iiv, get_individual_parameters, mu_reference_model

    m1 = mu_reference_model(m)
    allp = list(get_individual_parameters(m1))
    with_rv = set(get_individual_parameters(m1, 'random'))
    cands = [p for p in allp if p not in with_rv] or allp
    return add_iiv(m1, _pick(cands, a), 'exp')


def _p_remove_mu_iiv(m, a):
    """history: remove an IIV, mu_reference_model, add the IIV back"""
    from pharmpy.modeling import add_iiv, mu_reference_model, remove_iiv

    names = list(m.random_variables.iiv.names)
    eta = _pick(names, a)
    before = set(_ind_params(m))
    m1 = remove_iiv(m, [eta])
    m2 = mu_reference_model(m1)
    from pharmpy.modeling import get_individual_parameters

    with_rv = set(get_individual_parameters(m2, 'random'))
    cands = [p for p in get_individual_parameters(m2) if p not in with_rv]
    return add_iiv(m2, _pick(cands, a // 3), 'exp')


def _p_generic(m, a):
    from pharmpy.modeling import convert_model

    return convert_model(m, 'generic')


PRIORS = [
    ('add_iiv', _p_add_iiv),
    ('add_covariate_effect', _p_add_cov),
    ('add_covariate_effect', _p_add_cov),
    ('set_proportional_error_model', _simple('set_proportional_error_model')),
    ('set_additive_error_model', _simple('set_additive_error_model')),
    ('set_combined_error_model', _simple('set_combined_error_model')),
    ('add_peripheral_compartment', _simple('add_peripheral_compartment')),
    ('set_first_order_absorption', _simple('set_first_order_absorption')),
    ('set_zero_order_absorption', _simple('set_zero_order_absorption')),
    ('add_lag_time', _simple('add_lag_time')),
    ('add_bioavailability', _simple('add_bioavailability')),
    ('create_joint_distribution', _simple('create_joint_distribution')),
    ('create_joint_distribution2', _p_join2),
    ('split_joint_distribution', _simple('split_joint_distribution')),
    ('fix_theta', _p_fix_theta),
    ('fix_theta', _p_fix_theta),
    ('fix_rv_parameter', _p_fix_rvparam),
    ('fix_omega_to_0', _p_zero_omega),
    ('fix_omega_to_0', _p_zero_omega),
    ('transform_etas_boxcox', _p_boxcox),
    ('add_iov', _p_iov),
    ('set_iiv_on_ruv', _simple('set_iiv_on_ruv')),
    ('set_power_on_ruv', _simple('set_power_on_ruv')),
    ('set_michaelis_menten_elimination', _simple('set_michaelis_menten_elimination')),
    ('set_transit_compartments', _p_transits),
    ('mu_reference_model', _simple('mu_reference_model')),
    ('make_declarative', _simple('make_declarative')),
    ('add_allometry', _simple('add_allometry', allometric_variable='WGT')),
    ('remove_iiv', _p_remove_iiv),
    ('to_generic', _p_generic),
    ('to_generic', _p_generic),
    ('add_bioavailability', _simple('add_bioavailability')),
    ('add_lag_time', _simple('add_lag_time')),
    ('mu_reference_then_add_iiv', _with_generic_fallback(_p_mu_then_iiv)),
    ('mu_reference_then_add_iiv', _with_generic_fallback(_p_mu_then_iiv)),
    ('remove_iiv_mu_reference_add_iiv', _with_generic_fallback(_p_remove_mu_iiv)),
    ('cleanup_model', _simple('cleanup_model')),
]


def _idx(table, x, mix=0):
    """table index from an int (modulo) or a label (hand-written specs of known findings / regress files).
    `mix` (derived from other drawn integers of the spec) spreads Hypothesis' preference for small integers"""
    if isinstance(x, str):
        for i, (label, _) in enumerate(table):
            if label == x:
                return i
        raise Reject(f'unknown label {x}')
    return (int(x or 0) + mix) % len(table)


def _corpus_name(x, names, mix=0):
    if isinstance(x, str):
        if x not in names:
            raise Reject(f'corpus model {x} not available')
        return x
    return names[(int(x or 0) + mix) % len(names)]


def _mix(spec):
    try:
        return 7 * int(spec.get('a') or 0) + 13 * int(spec.get('k') or 0) + 3 * sum(int(x) for x in (spec.get('ren') or [])[:6])
    except (TypeError, ValueError):
        return 0


def build_model(spec):
    """-> (model, labels). Total: failing prior steps are skipped (not under test here)."""
    src = spec.get('src') or {}
    labels = []
    if src.get('kind') == 'gen':
        m, _ = gen_model(src.get('spec') or {}, 0, allow_mod=bool(src.get('allow_mod')))
        labels.append('src:gen-' + str((src.get('spec') or {}).get('kind')))
    else:
        names = corpus_names()
        nm = _corpus_name(src.get('name'), names, _mix(spec))
        m = corpus.get(nm)
        labels.append('src:' + nm)
    note_model(m)
    for step in (spec.get('prior') or [])[:3]:
        try:
            f, a = _idx(PRIORS, step[0]), int(step[1])
        except (TypeError, ValueError, IndexError):
            continue
        label, fn = PRIORS[f]
        try:
            m2 = _quiet(fn, m, a)
            _ = m2.statements
        except Exception:  # noqa  (prior steps are not under test)
            labels.append('prior-skipped')
            continue
        if m2 is not m:
            m = m2
            labels.append('prior:' + label)
    note_model(m)
    return m, labels


# ------------------------------------------------------------------------------------------
# model facts


def assigned_names(m):
    from pharmpy.model import Assignment

    return [str(s.symbol) for s in m.statements if isinstance(s, Assignment)]


def model_features(m):
    from pharmpy.model import Assignment
    import sympy

    feats = set()
    seen = set()
    for s in m.statements:
        if isinstance(s, Assignment):
            nm = str(s.symbol)
            if nm in seen:
                feats.add('reassigned')
            seen.add(nm)
            if s.expression._sympy_().has(sympy.Piecewise):
                feats.add('piecewise')
    if m.statements.ode_system is not None:
        feats.add('ode')
    return feats


def stmts_key(m):
    from pharmpy.model import Assignment

    parts = []
    for s in m.statements:
        if isinstance(s, Assignment):
            parts.append(f'{s.symbol}={s.expression}')
        else:
            parts.append('ODE:' + ';'.join(f'{e.lhs}={e.rhs}' for e in s.eqs))
            for cn in s.compartment_names:
                c = s.find_compartment(cn)
                parts.append(f'{cn}|{c.doses}|{c.lag_time}|{c.bioavailability}')
    return '\n'.join(parts)


def model_key(m, extra=''):
    txt = stmts_key(m) + '|' + ','.join(m.parameters.names) + '|' + ','.join(m.random_variables.names) + '|' + extra
    return hashlib.sha256(txt.encode()).hexdigest()[:16]


def zero_rvs(m):
    """random variables that are constant 0: all variance parameters fixed to 0"""
    out = set()
    for dist in m.random_variables:
        try:
            ps = [m.parameters[p] for p in dist.parameter_names]
        except KeyError:
            continue
        if ps and all(p.fix and float(p.init) == 0.0 for p in ps):
            out |= set(dist.names)
    return out


def base_point(m, k):
    p = ME.sample_point(m, k)
    # parameter values near the initial estimate (inside the bounds): bounds such as (-100, 100000) of covariate
    # effects make uniformly sampled values numerically meaningless (x**32312 underflows in constant folding)
    rvp = set(m.random_variables.parameter_names)
    for i, q in enumerate(m.parameters):
        if q.fix or q.name in rvp:
            continue
        init, lo, up = float(q.init), float(q.lower), float(q.upper)
        f = ME._frac(i, k)
        cand = init * (0.6 + 0.8 * f) if abs(init) > 1e-8 else 0.2 * (f - 0.5)
        if lo < cand < up:
            p.params[q.name] = cand
    z = zero_rvs(m)
    p.etas = {n: (0.0 if n in z else v) for n, v in p.etas.items()}
    p.eps = {n: (0.0 if n in z else v) for n, v in p.eps.items()}
    return p


def map_point(p, m2, pmap, rvmap):
    """point for r(M): only names r(M) declares; values through the declared renaming; new parameters at init"""
    inv_p = {v: k for k, v in pmap.items()}
    inv_r = {v: k for k, v in rvmap.items()}
    params = {}
    for q in m2.parameters:
        src = inv_p.get(q.name, q.name)
        params[q.name] = p.params[src] if src in p.params else float(q.init)
    etas = {}
    for n in m2.random_variables.etas.names:
        src = inv_r.get(n, n)
        etas[n] = p.etas.get(src, 0.0)
    eps = {}
    for n in m2.random_variables.epsilons.names:
        src = inv_r.get(n, n)
        eps[n] = p.eps.get(src, 0.0)
    return ME.Point(params=params, etas=etas, eps=eps, data=p.data, amounts=p.amounts, t=p.t)


def perturbed(p, rel=1e-7):
    return ME.Point(
        params={k: v * (1 + rel) + (rel * 1e-3 if v == 0 else 0.0) for k, v in p.params.items()},
        etas={k: (v + rel if v != 0.0 else v) for k, v in p.etas.items()},
        eps={k: (v + rel if v != 0.0 else v) for k, v in p.eps.items()},
        data=p.data,
        amounts={k: v * (1 + rel) for k, v in p.amounts.items()},
        t=p.t,
    )


def _num(x):
    return isinstance(x, float)


def _moved(a, b, tol=1e-4):
    if a is ME.UNDEF or b is ME.UNDEF:
        return a is not b
    if a != a or b != b:
        return (a != a) != (b != b)
    if math.isinf(a) or math.isinf(b):
        return a != b
    return abs(a - b) > tol * max(1e-6, abs(a), abs(b))


def stable_at(m, p, v):
    """the original model is continuous/well-conditioned at p (all compared quantities)"""
    for rel in (1e-7, -1e-7):
        v2 = ME.evaluate(m, perturbed(p, rel))
        for k, x in v.vars.items():
            if _moved(x, v2.vars.get(k, ME.UNDEF)):
                return False
        for k, x in v.rhs.items():
            if _moved(x, v2.rhs.get(k, ME.UNDEF)):
                return False
        for attr in ('lag', 'bio'):
            for k, x in getattr(v, attr).items():
                if _moved(x, getattr(v2, attr).get(k, ME.UNDEF)):
                    return False
    return True


def _same(a, b, rtol=RTOL):
    if a is ME.UNDEF or b is ME.UNDEF:
        return a is b
    return close(a, b, rtol=rtol, atol=1e-12)


def _show(x):
    return 'UNDEFINED' if x is ME.UNDEF else x


def compare_values(a, b, varmap, core_names, rtol=RTOL, may_remove=True):
    """a = value of M, b = value of r(M). -> None | (kind, name, observed, expected)
    kind in y / indpar / var / ode"""
    # quantities without value in M (a symbol read before it is assigned on this path: Piecewise without matching
    # branch) are not compared: folding nested Piecewise legitimately changes where 'no value' propagates
    for dv, v in a.y.items():
        nd = varmap.get(dv, dv)
        if nd not in b.y:
            return ('y-missing', dv, sorted(b.y), nd)
        if v is ME.UNDEF:
            continue
        if not _same(v, b.y[nd], rtol):
            return ('y', dv, _show(b.y[nd]), _show(v))
    # anything of the ODE system (rhs, dose, lag time, bioavailability) that has a value in M must have one in r(M):
    # an undefined symbol there is a violation, never a silently skipped value
    for what, why in b.undefined.items():
        if what.startswith(('lag/bio ', 'dose ')) or (what.startswith('d') and what.endswith('/dt')):
            if what not in a.undefined:
                part = 'lag-bio' if what.startswith('lag/bio') else ('dose' if what.startswith('dose') else 'rhs')
                return ('ode', f'undefined:{part}', f'{what} uses {why}, which nothing defines', 'defined as in M')
    oa = ME.ModelValue(rhs=a.rhs, doses=a.doses, lag=a.lag, bio=a.bio)
    res = ME.compare(oa, b, rtol=rtol, check_ode=True)
    if res is not None:
        return ('ode', res[0], _show(res[1]) if not isinstance(res[1], (list, str)) else res[1], _show(res[2]) if not isinstance(res[2], (list, str)) else res[2])
    for n, v in a.vars.items():
        nn = varmap.get(n, n)
        if nn not in b.vars and not may_remove:
            return ('var-lost', n, 'not assigned any more', _show(v))
        if nn not in b.vars or v is ME.UNDEF:
            continue  # no longer assigned (cleanup_model removes aliases) / no value in M
        if not _same(v, b.vars[nn], rtol):
            return ('indpar' if n in core_names else 'var', n, _show(b.vars[nn]), _show(v))
    return None


# ------------------------------------------------------------------------------------------
# refactorings: name -> fn(model, spec) -> (model', pmap, rvmap, varmap)


class Ref:
    def __init__(self, model, pmap=None, rvmap=None, varmap=None, note=''):
        self.model = model
        self.pmap = pmap or {}
        self.rvmap = rvmap or {}
        self.varmap = varmap or {}
        self.note = note


def _r_simple(name, **kw):
    def f(m, spec):
        import pharmpy.modeling as pm

        return Ref(getattr(pm, name)(m, **kw))

    return f


def _r_greekify(named):
    def f(m, spec):
        from pharmpy.modeling import greekify_model

        m2 = greekify_model(m, named_subscripts=named)
        # rename_symbols keeps the order of parameters and random variables: positional mapping
        # (update_source of a NONMEM model without etas appends DUMMYOMEGA / eta_dummy: extra trailing entries are fine)
        if len(m2.parameters) < len(m.parameters) or len(m2.random_variables.names) < len(m.random_variables.names):
            raise Violation('refactor:greekify:count-changed', observed=(list(m2.parameters.names), list(m2.random_variables.names)), expected=(list(m.parameters.names), list(m.random_variables.names)))
        pmap = dict(zip(m.parameters.names, m2.parameters.names))
        rvmap = dict(zip(m.random_variables.names, m2.random_variables.names))
        for o, n in pmap.items():
            a_, b_ = m.parameters[o], m2.parameters[n]
            if (a_.init, a_.lower, a_.upper, a_.fix) != (b_.init, b_.lower, b_.upper, b_.fix):
                raise Reject('greekify: parameter correspondence cannot be derived positionally')
        # documented naming: theta_<i> / eta_<i> / epsilon_<i> (integer subscripts) or previous name as subscript
        for i, th in enumerate(_thetas(m), start=1):
            exp = f'theta_{th}' if named else f'theta_{i}'
            if pmap[th] != exp:
                raise Violation('refactor:greekify:theta-name', observed=pmap[th], expected=exp)
        for kind, names in (('eta', m.random_variables.etas.names), ('epsilon', m.random_variables.epsilons.names)):
            for i, n in enumerate(names, start=1):
                exp = f'{kind}_{n}' if named else f'{kind}_{i}'
                if rvmap[n] != exp:
                    raise Violation(f'refactor:greekify:{kind}-name', observed=rvmap[n], expected=exp)
        return Ref(m2, pmap, rvmap)

    return f


def _fresh(base, j, taken):
    cand = f'R{j}{base[:6].upper()}'
    cand = ''.join(ch for ch in cand if ch.isalnum() or ch == '_')
    while cand in taken:
        cand += 'X'
    taken.add(cand)
    return cand


def _r_rename(m, spec):
    from pharmpy.modeling import rename_symbols

    params = list(m.parameters.names)
    rvs = list(m.random_variables.names)
    dvs = {str(d) for d in m.dependent_variables}
    variables = []
    for n in assigned_names(m):
        if n not in variables and '(' not in n:
            variables.append(n)
    with_dv = bool(spec.get('a', 0) % 5 == 0)
    cands = [('p', n) for n in params] + [('r', n) for n in rvs] + [('v', n) for n in variables if with_dv or n not in dvs]
    taken = set(params) | set(rvs) | set(assigned_names(m)) | set(m.datainfo.names) | {str(s) for s in m.statements.free_symbols}
    sigma = {}
    kinds = {}
    for j, idx in enumerate((spec.get('ren') or [0])[:6]):
        kind, old = cands[int(idx) % len(cands)]
        if old in sigma:
            continue
        sigma[old] = _fresh(old, j, taken)
        kinds[old] = kind
    m2 = rename_symbols(m, sigma)
    pmap = {o: n for o, n in sigma.items() if kinds[o] == 'p'}
    rvmap = {o: n for o, n in sigma.items() if kinds[o] == 'r'}
    varmap = {o: n for o, n in sigma.items() if kinds[o] == 'v'}
    for o, n in pmap.items():
        if n not in m2.parameters.names or o in m2.parameters.names:
            raise Violation('refactor:rename:parameter-not-renamed', observed=list(m2.parameters.names), expected=f'{o}->{n}')
        if m2.parameters[n].replace(name=o) != m.parameters[o]:
            raise Violation('refactor:rename:parameter-attributes', observed=repr(m2.parameters[n]), expected=repr(m.parameters[o]))
    for o, n in rvmap.items():
        if n not in m2.random_variables.names or o in m2.random_variables.names:
            raise Violation('refactor:rename:rv-not-renamed', observed=list(m2.random_variables.names), expected=f'{o}->{n}')
    for o, n in varmap.items():
        if o in dvs and n not in {str(d) for d in m2.dependent_variables}:
            raise Violation(
                'refactor:rename:dv-not-renamed',
                observed=str(dict(m2.dependent_variables)),
                expected=f'{o}->{n}',
                detail=f'rename_symbols({{{o!r}: {n!r}}}) renames the assignment of the dependent variable but model.dependent_variables still names {o}, which nothing defines',
            )
    return Ref(m2, pmap, rvmap, varmap, note=str(sigma))


def _r_generic(m, spec):
    from pharmpy.modeling import convert_model

    return Ref(convert_model(m, 'generic'))


def _r_generic_nonmem(m, spec):
    from pharmpy.modeling import convert_model

    g = convert_model(m, 'generic')
    return Ref(convert_model(g, 'nonmem'))


def _r_reload(m, spec):
    from pharmpy.modeling import load_dataset, unload_dataset

    if m.dataset is None:
        raise ValueError('no dataset')
    u = unload_dataset(m)
    if u.dataset is not None:
        raise Violation('refactor:unload_dataset:still-loaded')
    m2 = load_dataset(u)
    return Ref(m2, note='reload')


def _r_joinsplit(m, spec):
    from pharmpy.modeling import create_joint_distribution, split_joint_distribution

    return Ref(split_joint_distribution(create_joint_distribution(m)))


def _r_join2(m, spec):
    return Ref(_p_join2(m, int(spec.get('a', 0))))


REFACS = [
    ('mu_reference_model', _r_simple('mu_reference_model')),
    ('mu_reference_model', _r_simple('mu_reference_model')),
    ('make_declarative', _r_simple('make_declarative')),
    ('make_declarative', _r_simple('make_declarative')),
    ('cleanup_model', _r_simple('cleanup_model')),
    ('cleanup_model', _r_simple('cleanup_model')),
    ('greekify', _r_greekify(False)),
    ('greekify_named', _r_greekify(True)),
    ('rename', _r_rename),
    ('rename', _r_rename),
    ('to_generic', _r_generic),
    ('generic_to_nonmem', _r_generic_nonmem),
    ('generic_to_nonmem', _r_generic_nonmem),
    ('unload_dataset', _r_simple('unload_dataset')),
    ('reload_dataset', _r_reload),
    ('remove_unused_parameters_and_rvs', _r_simple('remove_unused_parameters_and_rvs')),
    ('create_joint_distribution', _r_simple('create_joint_distribution')),
    ('create_joint_distribution', _r_join2),
    ('split_joint_distribution', _r_simple('split_joint_distribution')),
    ('join_then_split', _r_joinsplit),
    ('replace_fixed_thetas', _r_simple('replace_fixed_thetas')),
    ('replace_fixed_thetas', _r_simple('replace_fixed_thetas')),
    ('replace_non_random_rvs', _r_simple('replace_non_random_rvs')),
    ('replace_non_random_rvs', _r_simple('replace_non_random_rvs')),
]

NM_FRAMES = ('model/external/nonmem/',)


def _through_nonmem(exc):
    import traceback

    for fr in traceback.extract_tb(exc.__traceback__):
        fn = fr.filename.replace('\\', '/')
        if '/src/pharmpy/' in fn and any(x in fn for x in NM_FRAMES):
            return True
    return False


def _is_parse_error(exc):
    try:
        from lark.exceptions import LarkError
    except Exception:  # noqa
        return False
    return isinstance(exc, LarkError)


def apply_refactoring(rname, fn, m, spec, classes):
    """guarded call; NONMEM code-generator crashes are attributed by ablation (see ASSUMPTIONS)"""
    from pharmpy.model import Model as BaseModel
    from pharmpy.modeling import convert_model

    # documented refusals: create_joint_distribution (ValueError: IOV etas, fewer than two etas), load_dataset (no path /
    # missing file), NotImplementedError anywhere; the other refactorings document no refusal, so a ValueError from them
    # (e.g. Model.replace rejecting the rewritten statements: 'Symbol X is not defined') is reported like an internal error
    allowed = (NotImplementedError,)
    if rname in ('create_joint_distribution', 'join_then_split'):
        allowed += (ValueError,)
    if rname == 'reload_dataset':
        allowed += (ValueError, FileNotFoundError)
    try:
        return _quiet(fn, m, spec), m
    except (Violation, Reject, HarnessError):
        raise
    except allowed as e:
        raise Reject(f'{rname}: {type(e).__name__}: {str(e)[:120]}')
    except Exception as e:  # noqa
        if isinstance(e, RuntimeError) and 'piecewise undefined' in str(e):
            # symengine's signal for a Piecewise none of whose (constant) conditions holds: the model has a symbol
            # without value for every input -- outside the domain of function-preserving refactorings
            raise Reject(f'{rname}: model has a Piecewise that is undefined for every input')
        where = innermost_pharmpy_frame(e)
        if where == 'outside-pharmpy':
            raise HarnessError(f'exception outside pharmpy in refactoring {rname}: {type(e).__name__}: {e}')
        clause = f'refactor:{rname}:crash:{type(e).__name__}@{where}'
        detail = f'{type(e).__name__}: {str(e)[:300]}'
        is_nm = type(m) is not BaseModel
        in_nm = _through_nonmem(e)
        if rname == 'generic_to_nonmem' and in_nm and _is_parse_error(e):
            # the NONMEM code generator printed code that pharmpy's own statement parser rejects: property C02
            raise Reject('nonmem-codegen-unparsable(attributed to C02)')
        if is_nm and in_nm and rname != 'generic_to_nonmem':
            g = convert_model(m, 'generic')
            try:
                res = _quiet(fn, g, spec)
            except (Violation, Reject, HarnessError):
                raise
            except Exception:  # noqa
                raise Violation(clause, detail=detail)
            classes.append('nonmem-update_source-crash(attributed to C02)')
            return res, g
        raise Violation(clause, detail=detail)


def has_fixed_rv_param(m, after_non_random=False):
    """a fixed variance/covariance parameter (for cleanup_model: one that replace_non_random_rvs does not remove)"""
    for dist in m.random_variables:
        try:
            ps = [m.parameters[p] for p in dist.parameter_names]
        except KeyError:
            continue
        if after_non_random and ps and all(p.fix and float(p.init) == 0.0 for p in ps):
            continue
        if any(p.fix for p in ps):
            return True
    return False


def first_definition_stale(m):
    """a symbol assigned several times whose FIRST definition reads another symbol that is assigned several times"""
    from pharmpy.model import Assignment

    sts = list(m.statements)
    idx = {}
    for i, s in enumerate(sts):
        if isinstance(s, Assignment):
            idx.setdefault(str(s.symbol), []).append(i)
    for name, pos in idx.items():
        if len(pos) < 2:
            continue
        first = sts[pos[0]]
        for t in first.expression.free_symbols:
            tp = idx.get(str(t))
            if tp and str(t) != name and len(tp) >= 2:
                return True
    return False


def chained_alias(m):
    """X = S where S is a symbol that is itself defined by an alias statement S = T"""
    from pharmpy.model import Assignment

    alias = set()
    for s in m.statements:
        if isinstance(s, Assignment) and s.expression.is_symbol():
            if str(s.expression) in alias:
                return True
            alias.add(str(s.symbol))
    return False


def mu_condition(m, already_mu, for_crash=False):
    """shape of the model that matters for mu_reference_model (condition-first clause ids)"""
    import sympy
    from pharmpy.model import Assignment

    if already_mu:
        return 'already-mu-referenced:'
    etas = set(m.random_variables.etas.names)
    epss = set(m.random_variables.epsilons.names)
    with_eps = in_pw = False
    for s in m.statements.before_odes:
        if not isinstance(s, Assignment):
            continue
        fs = {str(x) for x in s.expression.free_symbols}
        if fs & etas:
            if fs & epss:
                with_eps = True
            if s.expression._sympy_().has(sympy.Piecewise):
                in_pw = True
    # a crash is attributed to the Piecewise shape first, a value difference to the eta-on-residual-error shape first
    order = ('eta-in-piecewise:', 'eta-with-epsilon:') if for_crash else ('eta-with-epsilon:', 'eta-in-piecewise:')
    flags = {'eta-in-piecewise:': in_pw, 'eta-with-epsilon:': with_eps}
    for c in order:
        if flags[c]:
            return c
    return ''


def check_consistency(rname, m2):
    """r(M) must still be a model whose random variables refer to existing parameters"""
    pn = set(m2.parameters.names)
    missing = [p for p in m2.random_variables.parameter_names if p not in pn]
    if missing:
        raise Violation(
            f'refactor:{rname}:rv-parameter-missing',
            observed=sorted(missing),
            expected='every variance parameter of the random variables is a model parameter',
            detail=f'after {rname} the random variables refer to parameters {sorted(missing)} that are no longer in model.parameters',
        )


# histories that make the attributes of the ODE system / an earlier refactoring matter: (prior steps, refactoring)
SCENARIOS = [
    (['add_bioavailability'], 'cleanup_model'),
    (['add_bioavailability'], 'rename'),
    (['add_bioavailability'], 'greekify'),
    (['add_lag_time'], 'cleanup_model'),
    (['add_lag_time'], 'rename'),
    (['set_zero_order_absorption'], 'cleanup_model'),
    (['set_zero_order_absorption'], 'rename'),
    (['remove_iiv_mu_reference_add_iiv'], 'mu_reference_model'),
    (['mu_reference_then_add_iiv'], 'mu_reference_model'),
    (['remove_iiv_mu_reference_add_iiv'], 'make_declarative'),
    (['mu_reference_model'], 'cleanup_model'),
    (['make_declarative', 'add_covariate_effect'], 'mu_reference_model'),
]


def apply_scenario(spec):
    sc = spec.get('scen')
    if sc is None:
        return spec
    try:
        prior, r = SCENARIOS[int(sc) % len(SCENARIOS)]
        a = int(spec.get('a') or 0)
    except (TypeError, ValueError):
        return spec
    return dict(spec, prior=[[p, a + i] for i, p in enumerate(prior)], r=r)


def run_refactor(spec):
    spec = apply_scenario(spec)
    m, labels = build_model(spec)
    if spec.get('scen') is not None:
        labels.append('scenario')
    classes = list(labels)
    rname, fn = REFACS[_idx(REFACS, spec.get('r'), 5 * _mix(spec) + 1)]
    classes.append('r:' + rname)
    feats = model_features(m)
    classes += ['M:' + f for f in sorted(feats)]
    core = set(_ind_params(m))
    already_mu = any(re.fullmatch(r'mu_\d+', n) for n in assigned_names(m))
    if already_mu:
        classes.append('M:already-mu-referenced')
    mu_cond = ''
    if rname == 'mu_reference_model':
        mu_cond = mu_condition(m, already_mu)
        mu_cond_crash = mu_condition(m, already_mu, for_crash=True)
        if mu_cond:
            classes.append('M:' + mu_cond.rstrip(':'))

    decl_cond = 'first-definition-stale:' if rname in ('make_declarative', 'cleanup_model') and first_definition_stale(m) else ''
    if not decl_cond and rname == 'cleanup_model' and chained_alias(m):
        decl_cond = 'chained-alias:'
    if decl_cond:
        classes.append('M:' + decl_cond.rstrip(':'))
    if rname in ('replace_fixed_thetas', 'cleanup_model') and has_fixed_rv_param(m, after_non_random=(rname == 'cleanup_model')):
        classes.append('M:fixed-rv-parameter')
    try:
        ref, m_used = apply_refactoring(rname, fn, m, spec, classes)
        m2 = ref.model
        check_consistency(rname, m2)
    except Violation as v:
        if decl_cond and v.clause.startswith(f'refactor:{rname}:'):
            raise Violation(f'refactor:{rname}:{decl_cond}' + v.clause[len(f'refactor:{rname}:'):], observed=v.observed, expected=v.expected, detail=v.detail)
        if mu_cond and ':crash:' in v.clause:
            raise Violation(f'refactor:{rname}:{mu_cond_crash}' + v.clause[len(f'refactor:{rname}:'):], observed=v.observed, expected=v.expected, detail=v.detail)
        raise
    changed = stmts_key(m2) != stmts_key(m_used)
    if changed:
        classes.append('changed-statements')

    # joint/split: variances of the etas are untouched
    if rname in ('create_joint_distribution', 'split_joint_distribution', 'join_then_split', 'remove_unused_parameters_and_rvs'):
        # (initial estimates may be adjusted, e.g. to keep a joined block positive definite: only the symbol is compared)
        for n in m.random_variables.names:
            if n in m2.random_variables.names:
                va = str(m.random_variables[n].get_variance(n))
                vb = str(m2.random_variables[n].get_variance(n))
                if va != vb:
                    raise Violation(f'refactor:{rname}:variance-parameter-changed', observed=vb, expected=va, detail=f'variance of {n}')

    if rname == 'reload_dataset':
        _compare_datasets(m, m2)

    k0 = int(spec.get('k') or 0)
    good = 0
    tried = 0
    for i in range(10):
        if good >= 3:
            break
        p = base_point(m, k0 + i)
        va = ME.evaluate(m, p)
        p2 = map_point(p, m2, ref.pmap, ref.rvmap)
        vb = ME.evaluate(m2, p2)
        tried += 1
        # only cleanup_model documents that it removes statements (aliases); conversion to NONMEM may rename/add
        res = compare_values(va, vb, ref.varmap, core, may_remove=rname in ('cleanup_model', 'generic_to_nonmem'))
        if res is not None:
            if res[0] != 'var-lost' and not stable_at(m, p, va):
                continue
            kind, name, obs, exp = res
            cond = mu_cond or decl_cond
            raise Violation(
                f'refactor:{rname}:{cond}{kind}' + (':' + name if kind == 'ode' and str(name).startswith('undefined') else ''),
                observed=obs,
                expected=exp,
                detail=f'{kind} {name} differs at sample {k0 + i} after {rname} {ref.note}\n--- M ({", ".join(labels)}):\n{stmts_key(m)}\n--- r(M):\n{stmts_key(m2)}',
            )
        good += 1
    if good == 0:
        raise Reject('no stable sample point')
    nt = changed and bool(feats & {'reassigned', 'piecewise', 'ode'})
    return CaseInfo(nontrivial=nt, classes=tuple(classes), key=model_key(m, rname + ref.note), render=dict(model=labels, r=rname, note=ref.note, statements=stmts_key(m).split('\n')[:25]), evals=good)


def _compare_datasets(m, m2):
    import numpy as np

    a, b = m.dataset, m2.dataset
    if b is None:
        raise Violation('refactor:reload_dataset:not-loaded')
    # columns of the file that $INPUT / datainfo does not describe may appear in addition (not used by the model)
    if not set(a.columns) <= set(b.columns) or len(a) != len(b):
        raise Violation('refactor:reload_dataset:shape', observed=(list(b.columns), len(b)), expected=(list(a.columns), len(a)))
    for c in a.columns:
        try:
            x = a[c].to_numpy(dtype=float)
            y = b[c].to_numpy(dtype=float)
        except (TypeError, ValueError):
            if list(a[c].astype(str)) != list(b[c].astype(str)):
                raise Violation('refactor:reload_dataset:values', detail=f'column {c}')
            continue
        if not np.allclose(x, y, rtol=1e-12, atol=0, equal_nan=True):
            raise Violation('refactor:reload_dataset:values', detail=f'column {c}')


def _gen_specs():
    from ..gen import gen_nm as G

    pred = st.fixed_dictionaries(dict(kind=st.just('pred'), body=st.lists(G.stmt_strategy(2), min_size=3, max_size=8).map(G._l), **c01.SPEC_COMMON))
    return pred


PRED_SPEC = _gen_specs()

SCENARIO_SPEC = st.fixed_dictionaries(
    dict(
        src=st.fixed_dictionaries(dict(kind=st.just('corpus'), name=st.sampled_from(list(range(28))))),
        scen=st.sampled_from(list(range(len(SCENARIOS)))),
        prior=st.just([]),
        r=st.just(0),
        a=st.integers(0, 200),
        ren=st.lists(st.integers(0, 200), min_size=1, max_size=6),
        k=st.integers(0, 40),
    )
)

GENERAL_REFACTOR_SPEC = st.fixed_dictionaries(
    dict(
        src=st.one_of(
            st.fixed_dictionaries(dict(kind=st.just('corpus'), name=st.sampled_from(list(range(28))))),
            st.fixed_dictionaries(dict(kind=st.just('corpus'), name=st.sampled_from(list(range(28))))),
            st.fixed_dictionaries(dict(kind=st.just('gen'), spec=PRED_SPEC)),
            st.fixed_dictionaries(dict(kind=st.just('gen'), spec=c01.ADVAN_SPEC)),
        ),
        prior=st.lists(st.tuples(st.sampled_from(list(range(len(PRIORS)))), st.integers(0, 60)).map(list), min_size=0, max_size=3),
        r=st.sampled_from(list(range(len(REFACS)))),
        a=st.integers(0, 200),
        ren=st.lists(st.integers(0, 200), min_size=1, max_size=6),
        k=st.integers(0, 40),
    )
)


# ------------------------------------------------------------------------------------------
# sub-check 2: solve_ode_system


def _p_none(m, a):
    return m


ODE_STARTS = ['pheno', 'basic_iv', 'basic_oral', 'mox2', 'mox1', 'pheno_advan3', 'pheno_conc']
ODE_STEPS = [
    ('none', _p_none),
    ('none', _p_none),
    ('add_bioavailability', _simple('add_bioavailability')),
    ('set_first_order_absorption', _simple('set_first_order_absorption')),
    ('add_peripheral_compartment', _simple('add_peripheral_compartment')),
    ('add_lag_time', _simple('add_lag_time')),
    ('set_zero_order_absorption', _simple('set_zero_order_absorption')),
    ('set_instantaneous_absorption', _simple('set_instantaneous_absorption')),
    ('add_covariate_effect', _p_add_cov),
    ('to_generic', _p_generic),
]

SOLVE_SPEC = st.fixed_dictionaries(
    dict(
        start=st.sampled_from(list(range(14))),
        steps=st.lists(st.tuples(st.sampled_from(list(range(len(ODE_STEPS)))), st.integers(0, 60)).map(list), min_size=0, max_size=2),
        k=st.integers(0, 60),
        tt=st.lists(st.integers(1, 200), min_size=3, max_size=3),
    )
)


def run_solve_ode(spec):
    from pharmpy.model import Assignment, Bolus
    from pharmpy.modeling import solve_ode_system

    names = [n for n in ODE_STARTS if n in corpus_names()]
    nm = _corpus_name(spec.get('start'), names)
    m = corpus.get(nm)
    labels = ['src:' + nm]
    for step in (spec.get('steps') or [])[:2]:
        label, fn = ODE_STEPS[_idx(ODE_STEPS, step[0])]
        try:
            m2 = _quiet(fn, m, int(step[1]))
            _ = m2.statements
        except Exception:  # noqa
            labels.append('step-skipped')
            continue
        if m2 is not m:
            m = m2
            labels.append('step:' + label)
    ode = m.statements.ode_system
    if ode is None:
        raise Reject('no ODE system')
    ncomp = len(ode.compartment_names)
    if ncomp > 2:
        raise Reject('more than 2 compartments (symbolic dsolve takes 15 s to minutes)')
    classes = list(labels) + [f'ncomp={ncomp}']
    comps = {cn: ode.find_compartment(cn) for cn in ode.compartment_names}
    has_bio = any(str(c.bioavailability) != '1' for c in comps.values())
    has_lag = any(str(c.lag_time) != '0' for c in comps.values())
    dose_kinds = sorted({type(d).__name__ for c in comps.values() for d in c.doses})
    classes += ['dose:' + '+'.join(dose_kinds)] + (['bio'] if has_bio else []) + (['lag'] if has_lag else [])

    ck = ('solve', model_key(m))
    if ck not in _CACHE:
        try:
            _CACHE[ck] = ('ok', guard(lambda: _quiet(solve_ode_system, m), allowed=DOC_ERRORS, clause='solve_ode:crash'))
        except Reject as rj:
            _CACHE[ck] = ('reject', rj.why)
    if _CACHE[ck][0] == 'reject':
        raise Reject(_CACHE[ck][1])
    s = _CACHE[ck][1]
    if s.statements.ode_system is not None:
        raise Reject('not solved (ODE system still present)')
    classes.append('solved')
    amount_names = {f'A_{cn}(t)': cn for cn in ode.compartment_names}
    defined = {str(st_.symbol) for st_ in s.statements if isinstance(st_, Assignment)}
    for an in amount_names:
        if an not in defined:
            raise Violation('solve_ode:amount-not-defined', observed=sorted(defined), expected=an)

    def amounts_at(p, t):
        env = ME.base_env(s, p)
        env['t'] = t
        out = {}
        for st_ in s.statements:
            if isinstance(st_, Assignment):
                nm_ = str(st_.symbol)
                try:
                    env[nm_] = ev(st_.expression, env)
                except Undefined as u:
                    if nm_ in amount_names:
                        raise Violation('solve_ode:undefined-symbol', detail=f'{nm_} = {st_.expression} uses {u}')
                    continue
                if nm_ in amount_names:
                    out[amount_names[nm_]] = env[nm_]
        return out, env

    k0 = int(spec.get('k') or 0)
    good = 0
    for i in range(6):
        if good >= 3:
            break
        p = base_point(m, k0 + i)
        if any(abs(v) < 1e-3 for v in [p.data.get(str(d.amount), 1.0) for c in comps.values() for d in c.doses]):
            # dose amount of the sampled row is 0 (observation record): use a dosing value
            for c in comps.values():
                for d in c.doses:
                    p.data[str(d.amount)] = 100.0 + 7.0 * i
        # values of the variables before the ODE (parameters of the system) from the ORIGINAL model
        v0 = ME.evaluate(m, p)
        tt = [0.05 * x for x in (spec.get('tt') or [10, 40, 90])[:3]] or [0.5]
        ok = True
        for t in tt:
            h = 1e-5 * max(1.0, t)
            a0, env0 = amounts_at(p, t)
            ap, _ = amounts_at(p, t + h)
            am, _ = amounts_at(p, t - h)
            if not all(math.isfinite(a0[c]) for c in a0):
                ok = False
                break
            # original right-hand side at the closed-form amounts
            p_rhs = ME.Point(params=p.params, etas=p.etas, eps=p.eps, data=p.data, amounts=a0, t=t)
            vr = ME.evaluate(m, p_rhs)
            scale = max([abs(x) for x in a0.values()] + [1e-12])
            for cn in ode.compartment_names:
                fd = (ap[cn] - am[cn]) / (2 * h)
                rhs = vr.rhs[cn]
                if rhs is ME.UNDEF:
                    raise HarnessError(f'original rhs undefined: {vr.undefined}')
                # infusion input is not part of eqs in pharmpy's representation: models with infusion are refused above
                tol = 1e-5 * max(abs(fd), abs(rhs), scale / max(t, 1.0)) + 1e-9
                if abs(fd - rhs) > tol:
                    raise Violation(
                        'solve_ode:ode-not-satisfied',
                        observed=fd,
                        expected=rhs,
                        detail=f'd/dt A_{cn} of the closed form (finite difference at t={t}) differs from the original right-hand side; model {labels}\n{stmts_key(s)}',
                    )
        if not ok:
            continue
        # initial condition at t = lag (0): dosed compartment holds F*AMT, others 0
        a_init, env_i = amounts_at(p, 0.0)
        for cn, c in comps.items():
            exp = 0.0
            for d in c.doses:
                if isinstance(d, Bolus):
                    exp += v0_value(v0, p, d.amount) * v0_value(v0, p, c.bioavailability)
            lag = v0_value(v0, p, c.lag_time)
            if lag != 0.0:
                a_init, _ = amounts_at(p, lag)
            if not math.isfinite(a_init[cn]):
                ok = False
                break
            if not close(a_init[cn], exp, rtol=1e-7, atol=1e-9 * max(1.0, abs(exp))):
                what = 'bioavailability' if has_bio else 'initial-condition'
                raise Violation(
                    f'solve_ode:{what}',
                    observed=a_init[cn],
                    expected=exp,
                    detail=f'closed-form amount of {cn} at the dose time is {a_init[cn]}, the dose puts {exp} (amount x bioavailability) there; model {labels}\n{stmts_key(s)}',
                )
        if not ok:
            continue
        good += 1
    if good == 0:
        raise Reject('no finite sample')
    return CaseInfo(nontrivial=True, classes=tuple(classes), key=model_key(m, 'solve'), render=dict(model=labels, solved=stmts_key(s).split('\n')), evals=good)


def v0_value(v0, p, expr):
    env = dict(ME.base_env(None, p))
    env.update({k: v for k, v in v0.vars.items() if v is not ME.UNDEF})
    return ev(expr, env)


# ------------------------------------------------------------------------------------------
# sub-check 3: expression extractors, gradients, dataset evaluators


def _gen_dataset(cols, k):
    import pandas as pd

    rows = []
    for i in range(1, 4):
        for j, t in enumerate([0.5, 1.7, 2.6, 4.3]):
            r = {}
            for c_i, c in enumerate(cols):
                if c == 'ID':
                    r[c] = i
                elif c == 'TIME':
                    r[c] = t + 0.01 * k
                elif c == 'AMT':
                    r[c] = 0.0
                elif c == 'DV':
                    r[c] = 1.0 + 0.37 * j + 0.11 * i
                elif c == 'SEX':
                    r[c] = float(i % 2)
                else:
                    r[c] = 10.0 + 7.3 * i + 1.9 * c_i + 0.01 * k
            rows.append(r)
    df = pd.DataFrame(rows)
    for c in df.columns:
        df[c] = df[c].astype('int32' if c == 'ID' else 'float64')
    return df


def eval_model_source(spec):
    """non-ODE model with a dataset"""
    from pharmpy.modeling import load_example_model, solve_ode_system

    src = spec.get('src') or {}
    kind = src.get('kind')
    labels = []
    if kind == 'gen':
        m, text = gen_model(src.get('spec') or {}, int(src.get('ytail') or 0), allow_mod=bool(src.get('allow_mod')))
        labels.append('src:gen-pred')
        if int(src.get('ytail') or 0) % len(YTAILS):
            labels.append('ytail')
        df = _gen_dataset(list(m.datainfo.names), int(spec.get('k') or 0))
        m = m.replace(dataset=df)
    elif kind == 'solved':
        names = [n for n in ('pheno', 'basic_iv', 'basic_oral', 'mox2', 'pheno_conc') if n in corpus_names()]
        nm = _corpus_name(src.get('name'), names)
        m = _solved(nm)
        labels.append('src:solved-' + nm)
    else:
        m = _pheno_linear()
        labels.append('src:pheno_linear')
    note_model(m)
    for step in (spec.get('prior') or [])[:2]:
        label, fn = EVAL_PRIORS[_idx(EVAL_PRIORS, step[0])]
        try:
            m2 = _quiet(fn, m, int(step[1]))
            _ = m2.statements
        except Exception:  # noqa
            continue
        if m2 is not m and m2.statements.ode_system is None:
            m = m2
            labels.append('prior:' + label)
    if m.statements.ode_system is not None:
        raise Reject('ODE model: extractors document non-ODE models only')
    note_model(m)
    return m, labels


EVAL_PRIORS = [
    ('none', _p_none),
    ('none', _p_none),
    ('add_iiv', _p_add_iiv),
    ('add_covariate_effect', _p_add_cov),
    ('set_combined_error_model', _simple('set_combined_error_model')),
    ('set_iiv_on_ruv', _simple('set_iiv_on_ruv')),
    ('transform_etas_boxcox', _p_boxcox),
    ('make_declarative', _simple('make_declarative')),
]

def _solved(nm):
    from pharmpy.modeling import convert_model, solve_ode_system

    key = ('solved', nm)
    if key not in _CACHE:
        m = corpus.get(nm)
        s = _quiet(solve_ode_system, m)
        df = m.dataset.copy()
        idv = m.datainfo.idv_column.name
        df['t'] = df[idv].astype(float)
        # a column named t so that the closed form can be evaluated on the dataset
        try:
            s = s.replace(dataset=df)
        except Exception:  # noqa
            s = convert_model(s, 'generic').replace(dataset=df)
        _CACHE[key] = s
    return _CACHE[key]


def _pheno_linear():
    from pharmpy.modeling import load_example_model

    if 'pheno_linear' not in _CACHE:
        _CACHE['pheno_linear'] = _quiet(load_example_model, 'pheno_linear')
    return _CACHE['pheno_linear']


def eguard(fn, allowed, clause):
    """guard for the dataset evaluators: internal errors raised inside eval_expr (numpy lambdify of the expression)
    get one clause prefix whatever evaluate_* function reached it"""
    try:
        return guard(fn, allowed=allowed, clause=clause)
    except Violation as v:
        if '@basic/expr.py:__init__' in v.clause and ':TypeError@' in v.clause:
            # pharmpy.basic.Expr cannot hold the ITE that substituting a Piecewise into a condition produces
            raise Violation('crash:expr-ite:TypeError', observed=v.observed, expected=v.expected, detail=f'{clause[len("crash:"):]}: {v.detail}')
        if '@internals/expr/eval.py' in v.clause:
            typ = v.clause.split(':')[-2] if v.clause.count(':') >= 2 else 'error'
            raise Violation('crash:eval_expr:' + v.clause.split('@')[0].rsplit(':', 1)[-1], observed=v.observed, expected=v.expected, detail=f'{clause[len("crash:"):]}: {v.detail}')
        raise


def _sym(e):
    """pharmpy Expr -> sympy; expressions with a Piecewise inside a condition (symengine keeps them, sympy refuses to
    build the ITE) cannot be evaluated by the reference evaluator: outside the checkable domain"""
    import sympy

    if isinstance(e, sympy.Basic):
        return e
    try:
        return e._sympy_()
    except Exception as x:  # noqa
        raise Reject(f'expression not convertible to sympy: {type(x).__name__}')


def seq_y(m, p, dvname):
    v = ME.evaluate(m, p)
    return v.vars.get(dvname, ME.UNDEF), v


def discrete_state(m, p):
    """truth values / discrete parts of every non-smooth node met during sequential execution"""
    import sympy
    from pharmpy.model import Assignment

    env = ME.base_env(m, p)
    sig = []
    for s in m.statements:
        if not isinstance(s, Assignment):
            continue
        e = s.expression._sympy_()
        clean = {k: v for k, v in env.items() if v is not ME.UNDEF}
        for node in sympy.preorder_traversal(e):
            try:
                if isinstance(node, sympy.core.relational.Relational):
                    a = ev(node.lhs, clean)
                    b = ev(node.rhs, clean)
                    sig.append((a > b) - (a < b) if a == a and b == b else 9)
                elif isinstance(node, (sympy.floor, sympy.ceiling)):
                    x = ev(node.args[0], clean)
                    sig.append(math.floor(x) if math.isfinite(x) else 9)
                elif isinstance(node, (sympy.Abs, sympy.sign)):
                    x = ev(node.args[0], clean)
                    sig.append((x > 0) - (x < 0) if x == x else 9)
                elif isinstance(node, sympy.Mod):
                    a = ev(node.args[0], clean)
                    b = ev(node.args[1], clean)
                    sig.append(math.floor(a / b) if b != 0 and math.isfinite(a) and math.isfinite(b) else 9)
                elif isinstance(node, (sympy.Max, sympy.Min)):
                    vals = [ev(x, clean) for x in node.args]
                    sig.append(vals.index(max(vals)) if isinstance(node, sympy.Max) else vals.index(min(vals)))
            except (Undefined, EvalError):
                sig.append(8)
        try:
            env[str(s.symbol)] = ev(e, clean)
        except Undefined:
            env[str(s.symbol)] = ME.UNDEF
    return sig


def _with(p, etas=None, eps=None):
    return ME.Point(params=p.params, etas=dict(p.etas if etas is None else etas), eps=dict(p.eps if eps is None else eps), data=p.data, amounts=p.amounts, t=p.t)


def fd_gradient(m, p, dvname, which, name):
    """central finite difference of sequential execution wrt one eta/eps; None if unreliable at p"""

    def at(delta):
        d = dict(p.etas if which == 'eta' else p.eps)
        d[name] = d[name] + delta
        q = _with(p, etas=d) if which == 'eta' else _with(p, eps=d)
        return q

    s0 = discrete_state(m, p)
    for delta in (1e-4, -1e-4, 2e-6, -2e-6):
        if discrete_state(m, at(delta)) != s0:
            return None
    vals = {}
    for delta in (1e-6, -1e-6, 2e-6, -2e-6):
        y, _ = seq_y(m, at(delta), dvname)
        if y is ME.UNDEF or not math.isfinite(y):
            return None
        vals[delta] = y
    g1 = (vals[1e-6] - vals[-1e-6]) / 2e-6
    g2 = (vals[2e-6] - vals[-2e-6]) / 4e-6
    y0, _ = seq_y(m, p, dvname)
    if y0 is ME.UNDEF or not math.isfinite(y0):
        return None
    noise = 1e-9 * max(1.0, abs(y0))
    if abs(g1 - g2) > 1e-6 * max(abs(g1), abs(g2)) + noise:
        return None
    return g1, noise


def run_evaluators(spec):
    import numpy as np
    import pandas as pd
    import pharmpy.modeling as pm

    m, labels = eval_model_source(spec)
    classes = list(labels)
    feats = model_features(m)
    classes += ['M:' + f for f in sorted(feats)]
    rvs = m.random_variables
    etas = list(rvs.etas.names)
    epss = list(rvs.epsilons.names)
    dv = list(m.dependent_variables.keys())[0]
    dvname = str(dv)
    ny = sum(1 for n in assigned_names(m) if n == dvname)
    if ny == 0:
        raise Reject('dependent variable not assigned')
    if ny > 1:
        classes.append('dv-reassigned')
    dvp = 'dv-reassigned:' if ny > 1 else ''
    import sympy as _sy
    from pharmpy.model import Assignment as _Asg

    has_lg = any(isinstance(s_, _Asg) and s_.expression._sympy_().has(_sy.loggamma) for s_ in m.statements)
    # functions the numpy lambdify of eval_expr cannot evaluate on arrays (GAMLN -> math.lgamma, PHI -> undefined name)
    ccond = 'unsupported-function:' if has_lg or _has_undef_fn(m) else ''
    evals = 0
    inputs = set(m.parameters.names) | set(rvs.names) | set(m.datainfo.names) | {'t'}
    # symengine signals an undefined value (division by zero at eta=0, Piecewise without matching branch) by RuntimeError
    doc = (ValueError, NotImplementedError, RuntimeError)

    assigned = set(assigned_names(m))

    def sym_check(e, label):
        extra = sorted({str(x) for x in e.free_symbols} - inputs)
        if extra and not set(extra) & assigned:
            # the model itself reads a symbol nothing defines (model reading is property C01): not a case
            raise Reject('model reads a symbol that nothing defines')
        if extra:
            raise Violation(f'{label}:leftover-symbol', observed=extra, expected='only parameters, random variables and data columns', detail=f'{e}\n{stmts_key(m)}')

    obs = guard(lambda: _quiet(pm.get_observation_expression, m), allowed=doc, clause='get_observation_expression')
    ipred = guard(lambda: _quiet(pm.get_individual_prediction_expression, m), allowed=doc, clause='get_individual_prediction_expression')
    pred = guard(lambda: _quiet(pm.get_population_prediction_expression, m), allowed=doc, clause='get_population_prediction_expression')
    gexpr = guard(lambda: _quiet(pm.calculate_eta_gradient_expression, m), allowed=doc, clause='calculate_eta_gradient_expression')
    hexpr = guard(lambda: _quiet(pm.calculate_epsilon_gradient_expression, m), allowed=doc, clause='calculate_epsilon_gradient_expression')
    if len(gexpr) != len(etas) or len(hexpr) != len(epss):
        raise Violation('gradient-expression:length', observed=(len(gexpr), len(hexpr)), expected=(len(etas), len(epss)))
    for e, lab in ((obs, 'get_observation_expression'), (ipred, 'get_individual_prediction_expression'), (pred, 'get_population_prediction_expression')):
        sym_check(e, lab)
    left = {str(x) for x in ipred.free_symbols} & set(epss)
    if left:
        raise Violation('get_individual_prediction_expression:epsilon-left', observed=sorted(left))
    left = {str(x) for x in pred.free_symbols} & (set(epss) | set(etas))
    if left:
        raise Violation('get_population_prediction_expression:rv-left', observed=sorted(left))

    k0 = int(spec.get('k') or 0)
    good = 0
    ngrad = 0
    for i in range(8):
        if good >= 3:
            break
        p = base_point(m, k0 + i)
        zero_eps = {n: 0.0 for n in epss}
        zero_eta = {n: 0.0 for n in etas}
        cases = [
            ('get_observation_expression', obs, p),
            ('get_individual_prediction_expression', ipred, _with(p, eps=zero_eps)),
            ('get_population_prediction_expression', pred, _with(p, etas=zero_eta, eps=zero_eps)),
        ]
        skip = False
        for lab, e, q in cases:
            y, v = seq_y(m, q, dvname)
            if y is ME.UNDEF or not math.isfinite(y):
                skip = True
                break
            try:
                got = ev(_sym(e), ME.base_env(m, q))
            except Undefined:
                got = ME.UNDEF
            if not _same(y, got):
                if not stable_at(m, q, v):
                    skip = True
                    break
                raise Violation(
                    dvp + f'{lab}:value',
                    observed=_show(got),
                    expected=y,
                    detail=f'{lab}(model) evaluated at sample {k0 + i} differs from sequential execution of the statements ({dvname})\n{e}\n{stmts_key(m)}',
                )
            evals += 1
        if skip:
            continue
        good += 1
        # gradients
        q = _with(p, eps=zero_eps)
        for which, names, exprs, base in (('eta', etas, gexpr, q), ('eps', epss, hexpr, p)):
            for nme, ge in zip(names, exprs):
                if nme in zero_rvs(m):
                    continue
                fd = fd_gradient(m, base, dvname, which, nme)
                if fd is None:
                    classes.append('fd-unreliable')
                    continue
                g, noise = fd
                try:
                    an = ev(_sym(ge), ME.base_env(m, base))
                except Undefined as u:
                    if str(u).startswith('Derivative'):
                        # d|x|/dx etc. left unevaluated by symengine: symbolically right, not numerically checkable here
                        classes.append('gradient-with-unevaluated-derivative')
                        continue
                    raise Violation(f'calculate_{"eta" if which == "eta" else "epsilon"}_gradient_expression:undefined', detail=f'{ge}: {u}')
                if not math.isfinite(an) or abs(an - g) > 1e-5 * max(abs(an), abs(g)) + 10 * noise / 1e-6 * 1e-6 + 1e-7:
                    raise Violation(
                        dvp + f'calculate_{"eta" if which == "eta" else "epsilon"}_gradient_expression:value',
                        observed=an,
                        expected=g,
                        detail=f'd{dvname}/d{nme}: symbolic gradient vs central finite difference of sequential execution at sample {k0 + i}\n{ge}\n{stmts_key(m)}',
                    )
                ngrad += 1
                evals += 1
    if good == 0:
        raise Reject('no finite stable sample')
    if ngrad:
        classes.append('gradient-checked')

    # ---- dataset evaluators (row-wise reference) --------------------------------------------
    df = m.dataset
    if df is not None and len(df) > 0:
        nrow = min(len(df), 12)
        sub = df.iloc[:nrow].reset_index(drop=True)
        ms = m.replace(dataset=sub)
        idcol = m.datainfo.id_column.name
        p = base_point(m, k0)
        params = dict(p.params)
        ids = list(dict.fromkeys(sub[idcol].tolist()))
        eta_df = pd.DataFrame({n: [0.3 * math.sin(1.0 + 0.7 * j + 1.3 * a) for a, _ in enumerate(ids)] for j, n in enumerate(etas)}, index=ids)
        zr = zero_rvs(m)
        for n in etas:
            if n in zr:
                eta_df[n] = 0.0
        # models WITH initial individual estimates (different from the etas passed below): the documented precedence is
        # 'at the current eta values or optionally at the given eta values' -- explicitly given etas win
        if etas and int(spec.get('a') or 0) % 2 == 0:
            iie = pd.DataFrame({n: [0.45 * math.cos(0.3 + 1.1 * j + 0.9 * a) for a, _ in enumerate(ids)] for j, n in enumerate(etas)}, index=ids)
            try:
                ms = ms.replace(initial_individual_estimates=iie)
                classes.append('initial-individual-estimates')
            except Exception:  # noqa  (setting the attribute is not under test)
                pass

        def row_point(r, with_etas):
            data = {}
            for c in sub.columns:
                try:
                    data[c] = float(sub.iloc[r][c])
                except (TypeError, ValueError):
                    pass
            e_ = {n: (float(eta_df.loc[sub.iloc[r][idcol], n]) if with_etas else 0.0) for n in etas}
            return ME.Point(params=params, etas=e_, eps={n: 0.0 for n in epss}, data=data, amounts={}, t=data.get('t', data.get(ME._idv(m), 0.0)))

        def compare_series(label, series, with_etas):
            nonlocal evals
            if len(series) != nrow:
                raise Violation(f'length:{label}', observed=len(series), expected=nrow, detail=f'{label} returned {len(series)} value(s) for {nrow} data records\n{stmts_key(m)}')
            for r in range(nrow):
                q = row_point(r, with_etas)
                y, v = seq_y(m, q, dvname)
                if y is ME.UNDEF or not math.isfinite(y):
                    continue
                got = float(series.iloc[r])
                if not close(got, y, rtol=1e-8):
                    if not stable_at(m, q, v):
                        continue
                    raise Violation(
                        dvp + f'{label}:value',
                        observed=got,
                        expected=y,
                        detail=f'{label} row {r} differs from row-wise sequential execution\n{stmts_key(m)}',
                    )
                evals += 1

        # symengine raises RuntimeError('piecewise undefined for this domain') when a variable without value on some
        # rows (IF without ELSE on a never-assigned symbol) is evaluated: outside the domain where a value exists
        ev_allowed = doc + (RuntimeError,)
        s_pred = eguard(lambda: _quiet(pm.evaluate_population_prediction, ms, parameters=params), allowed=ev_allowed, clause='crash:evaluate_population_prediction')
        compare_series('evaluate_population_prediction', s_pred, False)
        s_ipred = eguard(lambda: _quiet(pm.evaluate_individual_prediction, ms, etas=eta_df, parameters=params), allowed=ev_allowed, clause='crash:evaluate_individual_prediction')
        compare_series('evaluate_individual_prediction', s_ipred, True)
        # gradients on the dataset
        G = eguard(lambda: _quiet(pm.evaluate_eta_gradient, ms, etas=eta_df, parameters=params), allowed=ev_allowed, clause='crash:evaluate_eta_gradient')
        H = eguard(lambda: _quiet(pm.evaluate_epsilon_gradient, ms, etas=eta_df, parameters=params), allowed=ev_allowed, clause='crash:evaluate_epsilon_gradient')
        if list(G.columns) != [f'dF/d{n}' for n in etas] or list(H.columns) != [f'dY/d{n}' for n in epss]:
            raise Violation('evaluate_gradient:columns', observed=(list(G.columns), list(H.columns)))
        for r in range(0, nrow, 3):
            q = row_point(r, True)
            for which, names, frame, pre in (('eta', etas, G, 'dF/d'), ('eps', epss, H, 'dY/d')):
                for nme in names:
                    if nme in zr:
                        continue
                    fd = fd_gradient(m, q, dvname, which, nme)
                    if fd is None:
                        continue
                    g, noise = fd
                    an = float(frame[pre + nme].iloc[r])
                    if not math.isfinite(an) or abs(an - g) > 1e-5 * max(abs(an), abs(g)) + 10 * noise + 1e-7:
                        raise Violation(
                            dvp + f'evaluate_{"eta" if which == "eta" else "epsilon"}_gradient:value',
                            observed=an,
                            expected=g,
                            detail=f'row {r} d/d{nme} vs central finite difference\n{stmts_key(m)}',
                        )
                    evals += 1
        # evaluate_expression on rv-free variables
        rvset = set(rvs.names)
        cands = []
        for n in dict.fromkeys(assigned_names(m)):
            if '(' in n:
                continue
            try:
                fe = m.statements.before_odes.full_expression(n)
            except Exception:  # noqa
                continue
            if not ({str(x) for x in fe.free_symbols} & rvset):
                cands.append(n)
        if cands:
            vn = cands[int(spec.get('a') or 0) % len(cands)]
            pe = {k: v for j, (k, v) in enumerate(params.items()) if j % 2 == 0}
            ser = eguard(lambda: _quiet(pm.evaluate_expression, ms, vn, parameter_estimates=pe), allowed=ev_allowed, clause='crash:evaluate_expression')
            if len(ser) != nrow:
                raise Violation('length:evaluate_expression', observed=len(ser), expected=nrow, detail=f'evaluate_expression({vn}) returned {len(ser)} value(s) for {nrow} data records\n{stmts_key(m)}')
            inits = {pp.name: float(pp.init) for pp in m.parameters}
            full = {**inits, **pe}
            for r in range(nrow):
                q = row_point(r, False)
                q.params = full
                v = ME.evaluate(m, q)
                y = v.vars.get(vn, ME.UNDEF)
                if y is ME.UNDEF or not math.isfinite(y):
                    continue
                got = float(ser.iloc[r])
                if not close(got, y, rtol=1e-8):
                    if not stable_at(m, q, v):
                        continue
                    raise Violation('evaluate_expression:value', observed=got, expected=y, detail=f'variable {vn} row {r}\n{stmts_key(m)}')
                evals += 1
            classes.append('evaluate_expression')
        classes.append('dataset-evaluators')

    # ---- simplify_expression --------------------------------------------------------------------
    import sympy
    from pharmpy.model import Assignment

    asg = [s for s in m.statements if isinstance(s, Assignment) and sympy.count_ops(s.expression._sympy_()) <= 25 and not s.expression._sympy_().has(sympy.Piecewise)]
    if asg and int(spec.get('a') or 0) % 3 == 0:
        s = asg[int(spec.get('a') or 0) // 3 % len(asg)]
        simp = guard(lambda: _quiet(pm.simplify_expression, m, s.expression), allowed=doc, clause='simplify_expression')
        for i in range(3):
            p = base_point(m, k0 + i)
            v = ME.evaluate(m, p)
            env = dict(ME.base_env(m, p))
            env.update({k: x for k, x in v.vars.items() if x is not ME.UNDEF})
            try:
                a = ev(s.expression, env)
                b = ev(_sym(simp), env)
            except Undefined:
                continue
            if not math.isfinite(a):
                continue
            if not close(a, b, rtol=1e-9):
                raise Violation('simplify_expression:value', observed=b, expected=a, detail=f'{s.expression} -> {simp}')
            evals += 1
        classes.append('simplify_expression')

    # ---- get_individual_parameters / get_pk_parameters sanity -------------------------------
    names_all = set(assigned_names(m))
    try:
        _individual_parameter_sanity(m, pm, doc, names_all)
        classes.append('get_individual_parameters')
    except Reject:
        classes.append('get_individual_parameters-refused')

    nt = bool(feats & {'reassigned', 'piecewise'}) and bool(etas)
    return CaseInfo(nontrivial=nt, classes=tuple(classes), key=model_key(m, 'eval'), render=dict(model=labels, statements=stmts_key(m).split('\n')[:25]), evals=evals)


def _individual_parameter_sanity(m, pm, doc, names_all):
    ip_all = guard(lambda: _quiet(pm.get_individual_parameters, m), allowed=doc + (KeyError,), clause='get_individual_parameters', internal_is_violation=False)
    for lvl in ('iiv', 'iov', 'random'):
        sub_ = guard(lambda: _quiet(pm.get_individual_parameters, m, lvl), allowed=doc + (KeyError,), clause='get_individual_parameters', internal_is_violation=False)
        if not set(sub_) <= set(ip_all):
            raise Violation('get_individual_parameters:level-not-subset', observed=sorted(sub_), expected=sorted(ip_all))
    if not set(ip_all) <= names_all:
        raise Violation('get_individual_parameters:not-a-variable', observed=sorted(set(ip_all) - names_all))
    if ip_all != sorted(ip_all):
        raise Violation('get_individual_parameters:not-sorted', observed=ip_all)


EVAL_SPEC = st.fixed_dictionaries(
    dict(
        src=st.one_of(
            st.fixed_dictionaries(dict(kind=st.just('gen'), spec=PRED_SPEC, ytail=st.just(0))),
            st.fixed_dictionaries(dict(kind=st.just('gen'), spec=PRED_SPEC, ytail=st.sampled_from([0, 0, 1, 2, 3, 4]))),
            st.fixed_dictionaries(dict(kind=st.just('solved'), name=st.sampled_from(list(range(10))))),
            st.fixed_dictionaries(dict(kind=st.just('linear'))),
        ),
        prior=st.lists(st.tuples(st.sampled_from(list(range(len(EVAL_PRIORS)))), st.integers(0, 60)).map(list), min_size=0, max_size=2),
        a=st.integers(0, 200),
        k=st.integers(0, 40),
    )
)


# ------------------------------------------------------------------------------------------


# ------------------------------------------------------------------------------------------
# process isolation: pharmpy.basic.Expr (symengine) can kill the interpreter (segmentation fault in subs / __float__).
# Every oracle runs in a forked child; a child killed by a signal is reported as a violation with the faulting frame.


def _prewarm(spec):
    """load what the case needs into the caches of this (parent) process: known-safe, and not lost with the child"""
    src = spec.get('src') if isinstance(spec, dict) else None
    try:
        if isinstance(src, dict):
            if src.get('kind') == 'solved':
                names = [n for n in ('pheno', 'basic_iv', 'basic_oral', 'mox2', 'pheno_conc') if n in corpus_names()]
                _solved(_corpus_name(src.get('name'), names))
            elif src.get('kind') == 'linear':
                _pheno_linear()
            elif src.get('kind') != 'gen':
                corpus.get(_corpus_name(src.get('name'), corpus_names(), _mix(spec)))
        elif isinstance(spec, dict) and 'start' in spec:
            names = [n for n in ODE_STARTS if n in corpus_names()]
            corpus.get(_corpus_name(spec.get('start'), names))
    except Reject:
        pass


def _crash_frame(text):
    """innermost pharmpy frame of a faulthandler dump ('most recent call first')"""
    for line in text.splitlines():
        mm = re.search(r'File "([^"]*/src/pharmpy/[^"]*)", line \d+ in (\S+)', line)
        if mm:
            return mm.group(1).rsplit('/src/pharmpy/', 1)[1] + ':' + mm.group(2)
    return 'unknown'


HANG_GUARD_S = 150  # protection against non-termination inside symengine / sympy only; normal cases take 0.1-3 s


def isolated(run):
    def wrapper(spec):
        import faulthandler
        import pickle
        import tempfile
        import traceback

        if os.environ.get('PV_C07_NOFORK'):
            return run(spec)
        _prewarm(spec)
        rfd, wfd = os.pipe()
        ftmp = tempfile.TemporaryFile(mode='w+')
        ntmp = tempfile.TemporaryFile(mode='w+')
        pid = os.fork()
        if pid == 0:  # child
            code = 0
            try:
                os.close(rfd)
                faulthandler.enable(file=ftmp, all_threads=False)
                _NOTE_FILE[0] = ntmp
                try:
                    info = run(spec)
                    out = ('ok', (info.nontrivial, tuple(info.classes), info.key, info.render, info.evals))
                except Reject as r:
                    out = ('reject', r.why)
                except Violation as v:
                    out = ('fail', (v.clause, repr(v.observed)[:2000] if not isinstance(v.observed, (int, float, str, list, type(None))) else v.observed, repr(v.expected)[:2000] if not isinstance(v.expected, (int, float, str, list, type(None))) else v.expected, v.detail))
                except HarnessError as h:
                    out = ('harness', f'HarnessError: {h}')
                except BaseException:  # noqa
                    out = ('harness', traceback.format_exc())
                try:
                    data = pickle.dumps(out)
                except Exception:  # noqa
                    data = pickle.dumps(('harness', 'unpicklable result: ' + repr(out)[:2000]))
                with os.fdopen(wfd, 'wb') as w:
                    w.write(data)
            except BaseException:  # noqa
                code = 3
            finally:
                os._exit(code)
        os.close(wfd)
        chunks = []
        import select
        import signal
        import time

        deadline = time.time() + HANG_GUARD_S
        hung = False
        with os.fdopen(rfd, 'rb') as r:
            while True:
                left = deadline - time.time()
                if left <= 0 or not select.select([r], [], [], left)[0]:
                    hung = True
                    os.kill(pid, signal.SIGKILL)
                    break
                b = os.read(r.fileno(), 65536)
                if not b:
                    break
                chunks.append(b)
        _, status = os.waitpid(pid, 0)
        if hung:
            ftmp.close()
            ntmp.close()
            raise Reject(f'hang guard: case did not finish within {HANG_GUARD_S} s')
        if os.WIFSIGNALED(status):
            ftmp.seek(0)
            dump = ftmp.read()
            ftmp.close()
            sig = os.WTERMSIG(status)
            ntmp.seek(0)
            flags = ntmp.read().strip()
            ntmp.close()
            raise Violation(
                f'interpreter-crash:{flags + ":" if flags else ""}signal{sig}@{_crash_frame(dump)}',
                detail=f'the Python interpreter was killed by signal {sig} inside pharmpy\n' + dump[:1500],
            )
        ftmp.close()
        ntmp.close()
        if not chunks:
            raise HarnessError(f'isolated child returned nothing (exit status {status})')
        kind, payload = pickle.loads(b''.join(chunks))
        if kind == 'ok':
            nt, classes, key, render, evals = payload
            return CaseInfo(nontrivial=nt, classes=classes, key=key, render=render, evals=evals)
        if kind == 'reject':
            raise Reject(payload)
        if kind == 'fail':
            clause, obs, exp, detail = payload
            raise Violation(clause, observed=obs, expected=exp, detail=detail)
        raise HarnessError(payload)

    wrapper.__name__ = run.__name__ + '_isolated'
    return wrapper


def selfcheck():
    """the comparison machinery sees a changed statement, and finite differences reproduce a known derivative"""
    from pharmpy.basic import Expr
    from pharmpy.model import Assignment

    m = corpus.get('pheno')
    p = base_point(m, 0)
    va = ME.evaluate(m, p)
    if compare_values(va, ME.evaluate(m, p), {}, set()) is not None:
        raise HarnessError('model differs from itself')
    sts = list(m.statements)
    i = next(j for j, s in enumerate(sts) if isinstance(s, Assignment) and str(s.symbol) == 'CL')
    sts[i] = Assignment.create(sts[i].symbol, sts[i].expression * Expr.float(1.0001))
    from pharmpy.model import Statements

    m2 = m.replace(statements=Statements(sts))
    if compare_values(va, ME.evaluate(m2, p), {}, set()) is None:
        raise HarnessError('1e-4 relative change of CL not seen by the comparison')
    lin = _pheno_linear()
    q = base_point(lin, 0)
    dvn = str(list(lin.dependent_variables.keys())[0])
    eps = lin.random_variables.epsilons.names[0]
    fd = fd_gradient(lin, q, dvn, 'eps', eps)
    if fd is None:
        raise HarnessError('finite difference unreliable on pheno_linear')


SUBCHECKS = [
    SubCheck('refactor', lambda: st.one_of(GENERAL_REFACTOR_SPEC, GENERAL_REFACTOR_SPEC, GENERAL_REFACTOR_SPEC, SCENARIO_SPEC), isolated(run_refactor), quick=1000, thorough=2130, quick_time=240, thorough_time=1500),
    SubCheck('solve_ode', lambda: SOLVE_SPEC, run_solve_ode, quick=96, thorough=200, quick_time=240, thorough_time=1500),
    SubCheck('evaluators', lambda: EVAL_SPEC, isolated(run_evaluators), quick=480, thorough=1020, quick_time=240, thorough_time=1500),
]

KNOWN_PREDICATES = {}
