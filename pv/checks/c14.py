"""C14 -- Dataset derivations agree with record-by-record event semantics.

Generated event tables (pv.gen.gen_events) are attached to the basic iv / oral / ivoral PK
models; every derivation of pharmpy.modeling.data is compared with the plain per-individual
chronological walker in pv.ref.eventwalk (which imports neither pandas nor pharmpy).
One sub-check per function family so that a known finding in one family does not mask the
other families on the same table.
"""

from __future__ import annotations

import math
import os
import warnings

from ..core import CaseInfo, HarnessError, SubCheck, Violation, guard
from ..gen.gen_events import KINDS, MODELINFO, TABLE, build
from ..ref import eventwalk as W

PROPERTY = 'C14'
LEVEL = 'exploration'
RULE = (
    'Event tables with 1-6 individuals (ids 1..n, increasing with gaps, or decreasing; always grouped; id column '
    "named ID or SUBJ), 1-12 records each, TIME non-decreasing with ties (optionally restarting at reset events), "
    'records = observation / dose (AMT>0, 10..50 or fractional 0.25 0.5 0.75 1.5 2.5) / other event (EVID 2) / reset (EVID 3) / reset+dose (EVID 4) / missing '
    'observation (MDV 1), optional columns MDV EVID CMT ADMID RATE SS II ADDL DVID and 0-2 covariates (constant or '
    'time varying, with missing values NaN in some records incl. the first record of an individual; DV of non-observation records may be missing too), float or integer flag columns, ADDL 0-3 with II in {2,4,6,12,24} so that additional doses overlap '
    'later records, attached to create_basic_pk_model(iv|oral|ivoral) with a DataInfo typed column by column. '
    'Non-trivial = some individual has a dose/non-dose tie in TIME, or ADDL>0, or EVID>=3, or doses by two routes. '
    'Distinct = hash of the spec. Records whose value the documentation leaves open (before the first dose, ties with '
    'several simultaneous doses, ties across a reset, additional doses pending at a reset, non-dose MDV=1 records '
    'when EVID has to be created, a covariate varying only between a value and missing) are not compared (classes "unspecified:*") except for TAD >= 0.'
)
ASSUMPTIONS = [
    'pandas DataFrame construction / Series.tolist are trusted',
    'the reference walker implements the documented meaning (docstrings and code comments of pharmpy.modeling.data); '
    'it is self-checked against the numbers asserted in pharmpy\'s own tests on pheno.dta and pef.csv',
    'every call gets a freshly built model/dataset (mutation of the argument belongs to C06)',
]

_HERE = os.path.dirname(os.path.abspath(__file__))


def close(a, b, rtol=1e-9, atol=1e-12):
    if a != a and b != b:
        return True
    if a != a or b != b:
        return False
    return abs(a - b) <= atol + rtol * max(1.0, abs(a), abs(b))


def same(a, b):
    try:
        return close(float(a), float(b))
    except (TypeError, ValueError):
        return a == b


# ------------------------------------------------------------------------------------------
# building models

_BASE = {}
_COLINFO = {}


def base_model(kind):
    if kind not in _BASE:
        from pharmpy.modeling import create_basic_pk_model

        with warnings.catch_warnings():
            warnings.simplefilter('ignore')
            _BASE[kind] = create_basic_pk_model(kind)
    return _BASE[kind]


def make_frame(tab):
    import pandas as pd

    df = pd.DataFrame({c: [r[c] for r in tab.records] for c in tab.columns})
    # ids are int32 in datasets parsed by pharmpy
    return df.astype({tab.meta['id']: 'int32'})


def make_model(tab):
    """a fresh model with a fresh DataFrame (never shared between calls)"""
    from pharmpy.model import ColumnInfo, DataInfo

    df = make_frame(tab)
    cols = []
    for c in tab.columns:
        drop = c in tab.dropped and not tab.dropvia
        key = (c, tab.types[c], str(df[c].dtype), drop)
        if key not in _COLINFO:  # ColumnInfo is immutable; creating one costs ~15 ms (Unit -> sympy)
            _COLINFO[key] = ColumnInfo.create(c, type=key[1], datatype=key[2], drop=drop)
        cols.append(_COLINFO[key])
    di = DataInfo.create(cols)
    model = base_model(tab.kind).replace(dataset=df, datainfo=di)
    if tab.dropped and tab.dropvia:
        # the multi-step route: columns retired by the user with drop_columns(..., mark=True)
        from pharmpy.modeling import drop_columns

        def f():
            with warnings.catch_warnings():
                warnings.simplefilter('ignore')
                return drop_columns(model, list(tab.dropped), mark=True)

        marked = guard(f, allowed=(), clause='drop_columns[mark]')
        if list(marked.dataset.columns) != tab.columns or [c.name for c in marked.datainfo if c.drop] != [c for c in tab.columns if c in tab.dropped]:
            raise Violation('drop_columns[mark]:result', observed=[(c.name, c.drop) for c in marked.datainfo], expected=tab.dropped)
        return marked
    return model


def sub_table(tab, rows):
    """the same table restricted to some records (e.g. one individual)"""
    from ..gen.gen_events import Table

    return Table([tab.records[i] for i in rows], tab.meta, tab.types, tab.kind, tab.flags, dropped=tab.dropped, dropvia=tab.dropvia)


def call(fn, tab, *args, clause, **kwargs):
    from pharmpy.model import DatasetError

    model = make_model(tab)

    def f():
        with warnings.catch_warnings():
            warnings.simplefilter('ignore')
            return fn(model, *args, **kwargs)

    return guard(f, allowed=(DatasetError,), clause=clause)


def restart_individuals(tab):
    """ids of individuals in which TIME decreases somewhere (restart at a reset event)"""
    out = set()
    for _id, rows in W.individuals(tab.records, tab.meta):
        for a, b in zip(rows, rows[1:]):
            if tab.records[b]['TIME'] < tab.records[a]['TIME']:
                out.add(_id)
    return out


def shared_time_rows(tab):
    """rows whose (individual, TIME) also occurs in another reset group of the individual
    (additional doses included)"""
    out = set()
    recs, meta = tab.records, tab.meta
    for _id, rows in W.individuals(recs, meta):
        rg = W.reset_groups(recs, meta, rows)
        groups = {}
        for i in rows:
            groups.setdefault(recs[i]['TIME'], set()).add(rg[i])
            for t in W.additional(recs[i], meta):  # additional doses become records of the origin's reset group
                groups.setdefault(t, set()).add(rg[i])
        out.update(i for i in rows if len(groups[recs[i]['TIME']]) > 1)
    return out


def context(tab, i, restarted, shared):
    if i in shared:
        return '[time-shared-by-reset-groups]'
    if rid(tab, i) in restarted:
        return '[time-restart]'
    return ''


def prep(spec):
    tab = build(spec)
    feats = W.nontrivial_features(tab.records, tab.meta)
    classes = sorted(feats) + [k for k, v in sorted(tab.flags.items()) if v] + [tab.kind]
    if restart_individuals(tab):
        classes.append('time_restart_effective')
    classes.extend('dropped:' + tab.types[c] for c in tab.dropped)
    amts = [r['AMT'] for r in tab.records if r['AMT'] != 0]
    if any(0 < x < 1 for x in amts):
        classes.append('amt_between_0_and_1')
    if any(x != int(x) for x in amts):
        classes.append('amt_non_integer')
    return tab, feats, classes


def info(tab, feats, classes, evals):
    return CaseInfo(nontrivial=bool(feats), classes=tuple(dict.fromkeys(classes)), render=tab.render(), evals=evals)


def check_independent(fn, tab, full_values, clause, only_last=False):
    """per-individual walk: what a function derives for the records of an individual must not
    depend on the other individuals in the dataset -> f(table)[rows of i] == f(table of i alone).
    Returns the number of evaluations."""
    inds = W.individuals(tab.records, tab.meta)
    if len(inds) < 2:
        return 0
    n = 0
    for _id, rows in (inds[-1:] if only_last else inds):
        res = call(fn, sub_table(tab, rows), clause=f'{clause}[single-individual]')
        vals = res if isinstance(res, list) else need_series(res, f'{clause}[single-individual]').tolist()
        n += 1
        full = [full_values[i] for i in rows]
        if len(vals) != len(full) or any(not same(a, b) for a, b in zip(vals, full)):
            raise Violation(
                f'{clause}:depends-on-other-individuals', observed=full, expected=vals,
                detail=f'individual {_id}: within the whole table {full}, alone {vals}; {tab.render()}',
            )
    return n


def need_series(x, clause, n_expected=None, what=''):
    import pandas as pd

    if not isinstance(x, pd.Series):
        raise Violation(f'{clause}:not-a-series', observed=f'{type(x).__name__}: {x!r}'[:300], expected='pandas Series', detail=what)
    return x


def range_index_ok(s, n):
    return list(s.index) == list(range(n))


def rid(tab, i):
    return tab.records[i][tab.meta['id']]


# ------------------------------------------------------------------------------------------
# sub-check: subsets and counts


def run_subsets(spec):
    from pharmpy.modeling import (
        get_doses,
        get_ids,
        get_number_of_individuals,
        get_number_of_observations,
        get_number_of_observations_per_individual,
        get_observations,
    )

    tab, feats, classes = prep(spec)
    recs, meta = tab.records, tab.meta
    inds = W.individuals(recs, meta)
    exp_ids = [i for i, _ in inds]
    ev = 0

    ids = call(get_ids, tab, clause='get_ids')
    ev += 1
    if ids != exp_ids or not all(type(x) is int for x in ids):
        raise Violation('get_ids', observed=ids, expected=exp_ids, detail=str(tab.render()))
    n = call(get_number_of_individuals, tab, clause='get_number_of_individuals')
    ev += 1
    if n != len(exp_ids):
        raise Violation('get_number_of_individuals', observed=n, expected=len(exp_ids), detail=str(tab.render()))

    def check_indexed(s, rows, col, clause):
        exp_index = [(rid(tab, i), float(recs[i]['TIME'])) for i in rows]
        exp_vals = [recs[i][col] for i in rows]
        got_index = [tuple(x) if isinstance(x, tuple) else (x,) for x in s.index.tolist()]
        got_vals = s.tolist()
        if len(got_vals) != len(exp_vals):
            raise Violation(f'{clause}:length', observed=len(got_vals), expected=len(exp_vals), detail=str(tab.render()))
        if len(rows) and (len(got_index[0]) != 2 or any(not (same(g[0], e[0]) and same(g[1], e[1])) for g, e in zip(got_index, exp_index))):
            raise Violation(f'{clause}:index', observed=got_index, expected=exp_index, detail=str(tab.render()))
        if any(not same(g, e) for g, e in zip(got_vals, exp_vals)):
            raise Violation(f'{clause}:values', observed=got_vals, expected=exp_vals, detail=str(tab.render()))
        if len(rows) and s.name != col:
            raise Violation(f'{clause}:name', observed=s.name, expected=col)

    # doses
    drows = W.dose_rows(recs, meta)
    classes.append('n_doses=' + ('0' if not drows else '1' if len(drows) == 1 else 'many'))
    s = call(get_doses, tab, clause='get_doses')
    ev += 1
    need_series(s, 'get_doses', what=f'{len(drows)} dose record(s): {tab.render()}')
    check_indexed(s, drows, 'AMT', 'get_doses')

    # observations
    orows = W.observation_rows(recs, meta)
    classes.append('n_obs=' + ('0' if not orows else '1' if len(orows) == 1 else 'many'))
    s = call(get_observations, tab, clause='get_observations')
    ev += 1
    need_series(s, 'get_observations', what=f'{len(orows)} observation record(s): {tab.render()}')
    check_indexed(s, orows, 'DV', 'get_observations')
    s = call(get_observations, tab, keep_index=True, clause='get_observations[keep_index]')
    ev += 1
    need_series(s, 'get_observations[keep_index]')
    if list(s.index) != orows or any(not same(g, recs[i]['DV']) for g, i in zip(s.tolist(), orows)):
        raise Violation('get_observations[keep_index]', observed=[list(s.index), s.tolist()], expected=[orows, [recs[i]['DV'] for i in orows]], detail=str(tab.render()))

    nobs = call(get_number_of_observations, tab, clause='get_number_of_observations')
    ev += 1
    if nobs != len(orows):
        raise Violation('get_number_of_observations', observed=nobs, expected=len(orows), detail=str(tab.render()))

    s = call(get_number_of_observations_per_individual, tab, clause='get_number_of_observations_per_individual')
    ev += 1
    need_series(s, 'get_number_of_observations_per_individual')
    counts = W.observation_counts(recs, meta)
    got = list(zip(s.index.tolist(), s.tolist()))
    gotd = dict(got)
    if len(gotd) != len(got):
        raise Violation('get_number_of_observations_per_individual:duplicate-ids', observed=got)
    for i, c in counts:
        # an individual without observations may be left out (NONMEM drops it) or be listed with 0
        if (i in gotd and gotd[i] != c) or (i not in gotd and c != 0):
            raise Violation('get_number_of_observations_per_individual:count', observed=got, expected=counts, detail=str(tab.render()))
    if set(gotd) - set(exp_ids):
        raise Violation('get_number_of_observations_per_individual:unknown-id', observed=got, expected=counts)
    if exp_ids == sorted(exp_ids):
        # order of appearance == sorted order: no freedom left
        if [i for i, _ in got] != [i for i, c in counts if i in gotd]:
            raise Violation('get_number_of_observations_per_individual:order', observed=got, expected=counts)
    if any(c == 0 for _, c in counts):
        classes.append('individual_without_observation')
    return info(tab, feats, classes, ev)


# ------------------------------------------------------------------------------------------
# sub-check: MDV / EVID


def run_mdv_evid(spec):
    from pharmpy.modeling import get_evid, get_mdv

    tab, feats, classes = prep(spec)
    recs, meta = tab.records, tab.meta
    n = len(recs)
    s = call(get_mdv, tab, clause='get_mdv')
    need_series(s, 'get_mdv')
    exp = W.mdv(recs, meta)
    got = s.tolist()
    if len(got) != n or not range_index_ok(s, n):
        raise Violation('get_mdv:index', observed=list(s.index), expected=list(range(n)))
    if any(not same(g, e) for g, e in zip(got, exp)):
        raise Violation('get_mdv:values', observed=got, expected=exp, detail=str(tab.render()))
    if s.name != 'MDV':
        raise Violation('get_mdv:name', observed=s.name, expected='MDV')
    src = 'mdv' if meta['mdv'] else 'event' if meta['event'] else 'dose'
    classes.append('mdv_from_' + src)

    s = call(get_evid, tab, clause='get_evid')
    need_series(s, 'get_evid')
    exp = W.evid(recs, meta)
    got = s.tolist()
    if len(got) != n or not range_index_ok(s, n):
        raise Violation('get_evid:index', observed=list(s.index), expected=list(range(n)))
    where = 'column' if meta['event'] else 'created'
    for i, (g, e) in enumerate(zip(got, exp)):
        if e is None:
            classes.append('unspecified:evid-of-missing-observation')
            continue
        if not same(g, e):
            raise Violation(f'get_evid:{where}', observed=got, expected=exp, detail=f'record {i}: {tab.render()}')
    return info(tab, feats, classes, 2)


# ------------------------------------------------------------------------------------------
# sub-check: DOSEID


def run_doseid(spec):
    from pharmpy.modeling import get_doseid

    tab, feats, classes = prep(spec)
    recs, meta = tab.records, tab.meta
    n = len(recs)
    exp, tags = W.doseid(recs, meta)
    restarted = restart_individuals(tab)
    s = call(get_doseid, tab, clause='get_doseid')
    need_series(s, 'get_doseid')
    got = s.tolist()
    if len(got) != n or not range_index_ok(s, n):
        raise Violation('get_doseid:index', observed=list(s.index), expected=list(range(n)))
    if s.name != 'DOSEID':
        raise Violation('get_doseid:name', observed=s.name, expected='DOSEID')
    for i in range(n):
        classes.append('doseid:' + tags[i])
        if exp[i] is None:
            continue
        if not same(got[i], exp[i]):
            ctx = context(tab, i, restarted, shared_time_rows(tab))
            raise Violation(
                f'get_doseid{ctx}:{tags[i]}', observed=got, expected=exp,
                detail=f'record {i} (individual {rid(tab, i)}): got {got[i]}, expected {exp[i]} [{tags[i]}]; {tab.render()}',
            )
    ev = 1 + check_independent(get_doseid, tab, got, 'get_doseid')
    return info(tab, feats, classes, ev)


# ------------------------------------------------------------------------------------------
# sub-check: time after dose (values) and frame conditions


def _rows_of(df, tab, clause):
    """original row number of every result record through the ROW marker column"""
    if 'ROW' not in df.columns:
        raise Violation(f'{clause}:marker-column-lost', observed=list(df.columns))
    return [int(v) if v == v else None for v in df['ROW'].tolist()]


def run_tad(spec):
    from pharmpy.modeling import add_time_after_dose

    tab, feats, classes = prep(spec)
    recs, meta = tab.records, tab.meta
    n = len(recs)
    exp, tags = W.tad(recs, meta)
    restarted = restart_individuals(tab)
    res = call(add_time_after_dose, tab, clause='add_time_after_dose')
    df = res.dataset
    if 'TAD' not in df.columns:
        raise Violation('tad:no-TAD-column', observed=list(df.columns))
    rows = _rows_of(df, tab, 'tad')
    if sorted(r for r in rows if r is not None) != list(range(n)) or len(rows) != n:
        raise Violation('tad:records-changed', observed=rows, expected=list(range(n)), detail=str(tab.render()))
    tad = dict(zip(rows, df['TAD'].tolist()))
    got = [tad[i] for i in range(n)]
    for i in range(n):
        classes.append('tad:' + tags[i])
    crossing = W.expansion(recs, meta)['crossing']
    shared = shared_time_rows(tab)
    for i in range(n):
        ctx = '[time-restart]' if rid(tab, i) in restarted else '[additional-dose-pending-at-reset]' if rid(tab, i) in crossing else ''
        if not (got[i] >= 0):
            raise Violation(
                f'tad{ctx}:negative', observed=got, expected='>= 0',
                detail=f'record {i} (individual {rid(tab, i)}): TAD={got[i]} [{tags[i]}]; {tab.render()}',
            )
    for i in range(n):
        ctx = '[time-restart]' if rid(tab, i) in restarted else ''
        if tags[i] == 'dose' and got[i] != 0:
            raise Violation(f'tad{ctx}:nonzero-at-dose', observed=got, expected=exp, detail=f'record {i}: TAD={got[i]}; {tab.render()}')
    for i in range(n):
        if exp[i] is None:
            continue
        ctx = context(tab, i, restarted, shared)
        if not close(got[i], exp[i]):
            raise Violation(
                f'tad{ctx}:value:{tags[i]}', observed=got, expected=exp,
                detail=f'record {i} (individual {rid(tab, i)}): TAD={got[i]}, expected {exp[i]} [{tags[i]}]; {tab.render()}',
            )
    def tad_alone(model):
        d = add_time_after_dose(model).dataset
        order = sorted(range(len(d)), key=lambda p: d['ROW'].iloc[p])
        return [d['TAD'].iloc[p] for p in order]

    ev = 1 + check_independent(tad_alone, tab, got, 'tad', only_last=True)
    return info(tab, feats, classes, ev)


def _order_clause(rows, tab, prefix):
    """name the kind of reordering: whole individuals moved, or records within an individual"""
    n = len(tab.records)
    if rows == list(range(n)):
        return None
    ids_in = [i for i, _ in W.individuals(tab.records, tab.meta)]
    ids_out = list(dict.fromkeys(rid(tab, r) for r in rows))
    within_ok = all([r for r in rows if rid(tab, r) == i] == rws for i, rws in W.individuals(tab.records, tab.meta))
    if within_ok and ids_in != ids_out:
        return f'{prefix}:individual-order'
    return f'{prefix}:record-order'


def _frame_checks(df, tab, prefix, new_cols, rows, orig_rows_only=None, datainfo=None):
    """columns / values / dtypes of the original columns are unchanged (rows matched by marker)"""
    orig = make_frame(tab)
    cols = list(df.columns)
    if cols != tab.columns + new_cols:
        raise Violation(f'{prefix}:columns', observed=cols, expected=tab.columns + new_cols, detail=str(tab.render()))
    for pos, r in enumerate(rows):
        if orig_rows_only is not None and not orig_rows_only[pos]:
            continue
        for c in tab.columns:
            if not same(df[c].iloc[pos], tab.records[r][c]):
                raise Violation(
                    f'{prefix}:value-changed:{tab.types[c]}', observed=df[c].iloc[pos], expected=tab.records[r][c],
                    detail=f'column {c} of original record {r}; {tab.render()}',
                )
    if datainfo is not None:
        if list(datainfo.names) != list(df.columns):
            raise Violation(f'{prefix}:datainfo-names', observed=list(datainfo.names), expected=list(df.columns))
        for c in tab.columns:
            if datainfo[c].type != tab.types[c]:
                raise Violation(f'{prefix}:datainfo-type', observed=f'{c}: {datainfo[c].type}', expected=tab.types[c])
            if bool(datainfo[c].drop) != (c in tab.dropped):
                raise Violation(f'{prefix}:datainfo-drop-flag', observed=f'{c}: drop={datainfo[c].drop}', expected=c in tab.dropped)
    changed = [(c, str(orig[c].dtype), str(df[c].dtype)) for c in tab.columns if str(df[c].dtype) != str(orig[c].dtype)]
    other = [x for x in changed if not (x[1].startswith('int') and x[2] == 'float64')]
    if other:
        c, a, b = other[0]
        raise Violation(f'{prefix}:dtype:{tab.types[c]}:{a}-to-{b}', observed=f'{c}: {b}', expected=f'{c}: {a}', detail=str(tab.render()))
    if changed:
        # raised by the caller after its remaining clauses, so that this (frequent) outcome hides nothing
        return Violation(
            f'{prefix}:dtype:integer-column-became-float64', observed=[f'{c}: {b}' for c, a, b in changed],
            expected=[f'{c}: {a}' for c, a, b in changed], detail=str(tab.render()),
        )
    return None


def run_tad_frame(spec):
    from pharmpy.modeling import add_time_after_dose

    tab, feats, classes = prep(spec)
    n = len(tab.records)
    res = call(add_time_after_dose, tab, clause='add_time_after_dose')
    df = res.dataset
    rows = _rows_of(df, tab, 'tad_frame')
    if len(rows) != n or sorted(r for r in rows if r is not None) != list(range(n)):
        raise Violation('tad_frame:records-changed', observed=rows, expected=list(range(n)), detail=str(tab.render()))
    if not range_index_ok(df, n):
        raise Violation('tad_frame:index', observed=list(df.index), expected=list(range(n)))
    di = res.datainfo
    if 'TAD' in di.names and di['TAD'].descriptor != 'time after dose':
        raise Violation('tad_frame:datainfo-descriptor', observed=di['TAD'].descriptor)
    late = _frame_checks(df, tab, 'tad_frame', ['TAD'], rows, datainfo=di)
    oc = _order_clause(rows, tab, 'tad_frame')
    if oc:
        raise Violation(oc, observed=rows, expected=list(range(n)), detail=str(tab.render()))
    if late:
        raise late
    return info(tab, feats, classes, 1)


# ------------------------------------------------------------------------------------------
# sub-check: expansion of additional doses


def _expand_common(tab, flag):
    from pharmpy.modeling import expand_additional_doses

    res = call(expand_additional_doses, tab, flag, clause='expand_additional_doses' + ('' if flag else '[noflag]'))
    return res


def run_expand(spec):
    tab, feats, classes = prep(spec)
    recs, meta = tab.records, tab.meta
    n = len(recs)
    pre = 'expand'
    res = _expand_common(tab, True)
    df = res.dataset
    if meta['addl'] is None or meta['ii'] is None:
        classes.append('no_addl_column')
        if list(df.columns) != tab.columns or len(df) != n:
            raise Violation(f'{pre}:changed-without-addl-column', observed=list(df.columns), expected=tab.columns)
        return info(tab, feats, classes, 1)
    exp = W.expansion(recs, meta)
    added = exp['added']
    restarted = restart_individuals(tab)
    if 'EXPANDED' not in df.columns:
        raise Violation(f'{pre}:no-EXPANDED-column', observed=list(df.columns))
    if len(df) != n + len(added):
        raise Violation(f'{pre}:record-count', observed=len(df), expected=n + len(added), detail=str(tab.render()))
    rows = _rows_of(df, tab, pre)
    flags = [bool(x) for x in df['EXPANDED'].tolist()]
    times = df['TIME'].tolist()
    if any(r is None or not (0 <= r < n) for r in rows):
        raise Violation(f'{pre}:records-changed', observed=rows)
    orig_rows = [r for r, f in zip(rows, flags) if not f]
    if sorted(orig_rows) != list(range(n)):
        raise Violation(f'{pre}:original-record-lost', observed=orig_rows, expected=list(range(n)), detail=str(tab.render()))
    oc = _order_clause(orig_rows, tab, pre + ':originals')
    if oc:
        raise Violation(oc, observed=orig_rows, expected=list(range(n)), detail=str(tab.render()))
    # values of original records (all columns) unchanged
    for pos, (r, f) in enumerate(zip(rows, flags)):
        for c in tab.columns:
            if c == 'TIME' and f:
                continue
            if not same(df[c].iloc[pos], recs[r][c]):
                what = 'original' if not f else 'added'
                raise Violation(
                    f'{pre}:{what}-record-value:{tab.types[c]}', observed=df[c].iloc[pos], expected=recs[r][c],
                    detail=f'column {c}, result row {pos} from record {r}; {tab.render()}',
                )
    got_added = sorted((r, t) for r, f, t in zip(rows, flags, times) if f)
    exp_added = sorted((a['origin'], a['time']) for a in added)
    if len(got_added) != len(exp_added) or any(g[0] != e[0] or not close(g[1], e[1]) for g, e in zip(got_added, exp_added)):
        raise Violation(f'{pre}:added-records', observed=got_added, expected=exp_added, detail=str(tab.render()))
    # positions
    pos_of_orig = {r: p for p, (r, f) in enumerate(zip(rows, flags)) if not f}
    for p, (r, f) in enumerate(zip(rows, flags)):
        if f and p < pos_of_orig[r]:
            raise Violation(f'{pre}:added-before-origin', observed=list(zip(rows, flags, times)), detail=str(tab.render()))
        if f and rid(tab, r) != rid(tab, rows[p - 1]) and rid(tab, r) != rid(tab, rows[min(p + 1, len(rows) - 1)]):
            raise Violation(f'{pre}:added-outside-individual', observed=list(zip(rows, flags, times)), detail=str(tab.render()))
    # chronological within individual and reset group
    for _id, irows in W.individuals(recs, meta):
        if _id in exp['crossing']:
            classes.append('unspecified:additional-dose-pending-at-reset')
            continue
        rg = W.reset_groups(recs, meta, irows)
        for g in sorted(set(rg.values())):
            ts = [t for r, t in zip(rows, times) if r in rg and rg[r] == g]
            if any(b < a for a, b in zip(ts, ts[1:])):
                ctx = '[time-restart]' if _id in restarted else ''
                raise Violation(f'{pre}{ctx}:not-chronological', observed=list(zip(rows, flags, times)), detail=f'individual {_id}; {tab.render()}')
    tot = sum(df['AMT'].tolist())
    if not close(tot, exp['total_amount']):
        raise Violation(f'{pre}:total-amount', observed=tot, expected=exp['total_amount'], detail=str(tab.render()))
    if added:
        classes.append('added=%s' % ('1-3' if len(added) <= 3 else '4+'))
    if not range_index_ok(df, len(df)):
        raise Violation(f'{pre}:index', observed=list(df.index))

    # flag=False: same records without ADDL, II (and without EXPANDED)
    res2 = _expand_common(tab, False)
    df2 = res2.dataset
    keep = [c for c in tab.columns if c not in (meta['addl'], meta['ii'])]
    if list(df2.columns) != keep:
        raise Violation(f'{pre}[noflag]:columns', observed=list(df2.columns), expected=keep)
    if len(df2) != len(df):
        raise Violation(f'{pre}[noflag]:record-count', observed=len(df2), expected=len(df))
    for c in keep:
        if any(not same(a, b) for a, b in zip(df2[c].tolist(), df[c].tolist())):
            raise Violation(f'{pre}[noflag]:differs-from-flagged', observed=df2[c].tolist(), expected=df[c].tolist(), detail=f'column {c}')
    for c in res2.datainfo.names:
        if c not in df2.columns:
            raise Violation(f'{pre}[noflag]:datainfo-names', observed=list(res2.datainfo.names), expected=keep)
    return info(tab, feats, classes, 2)


def run_expand_frame(spec):
    tab, feats, classes = prep(spec)
    meta = tab.meta
    n = len(tab.records)
    res = _expand_common(tab, True)
    df = res.dataset
    if meta['addl'] is None or meta['ii'] is None:
        classes.append('no_addl_column')
        late = _frame_checks(df, tab, 'expand_frame[no-addl]', [], list(range(n)) if len(df) == n else [])
        if late:
            raise late
        return info(tab, feats, classes, 1)
    if 'EXPANDED' not in df.columns:
        raise Violation('expand_frame:no-EXPANDED-column', observed=list(df.columns))
    rows = _rows_of(df, tab, 'expand_frame')
    flags = [bool(x) for x in df['EXPANDED'].tolist()]
    if any(r is None or not (0 <= r < n) for r in rows):
        raise Violation('expand_frame:records-changed', observed=rows)
    if str(df['EXPANDED'].dtype) != 'bool':
        raise Violation('expand_frame:EXPANDED-dtype', observed=str(df['EXPANDED'].dtype), expected='bool')
    any_added = any(flags)
    classes.append('with_added_records' if any_added else 'addl_all_zero')
    pre = 'expand_frame' if any_added else 'expand_frame[nothing-to-expand]'
    late = _frame_checks(df, tab, pre, ['EXPANDED'], rows, orig_rows_only=[not f for f in flags], datainfo=res.datainfo)
    if late:
        raise late
    return info(tab, feats, classes, 1)


# ------------------------------------------------------------------------------------------
# sub-check: CMT / ADMID


def _compare_tagged(got, exp, tags, clause, tab, classes, ctxfn=None):
    for i, (g, e, t) in enumerate(zip(got, exp, tags)):
        classes.append(f'{clause}:{t}')
        if e is None:
            continue
        ok = any(same(g, x) for x in e) if isinstance(e, (set, frozenset)) else same(g, e)
        if not ok:
            ctx = ctxfn(i) if ctxfn else ''
            raise Violation(
                f'{clause}:{t}{ctx}', observed=got, expected=[sorted(x) if isinstance(x, set) else x for x in exp],
                detail=f'record {i}: got {g}, expected {sorted(e) if isinstance(e, set) else e} [{t}]; {tab.render()}',
            )


def run_cmt_admid(spec):
    from pharmpy.modeling import get_admid, get_cmt

    tab, feats, classes = prep(spec)
    recs, meta = tab.records, tab.meta
    n = len(recs)
    exp, tags = W.cmt(recs, meta)
    s = call(get_cmt, tab, clause='get_cmt')
    need_series(s, 'get_cmt')
    if len(s) != n or not range_index_ok(s, n):
        raise Violation('get_cmt:index', observed=list(s.index), expected=list(range(n)))
    _compare_tagged(s.tolist(), exp, tags, 'get_cmt', tab, classes)
    cmt_values = s.tolist()

    exp, tags = W.admid(recs, meta)
    s = call(get_admid, tab, clause='get_admid')
    need_series(s, 'get_admid')
    if len(s) != n or not range_index_ok(s, n):
        raise Violation('get_admid:index', observed=list(s.index), expected=list(range(n)))
    _compare_tagged(s.tolist(), exp, tags, 'get_admid', tab, classes)

    # shapes in which state could leak between individuals
    inds = W.individuals(recs, meta)
    last_route = []
    for k, (_id, rows) in enumerate(inds):
        lead = 0
        for i in rows:
            if W.is_dose(recs[i], meta):
                break
            lead += 1
        doses = [i for i in rows if W.is_dose(recs[i], meta)]
        last_route.append(cmt_values[doses[-1]] if doses else None)
        if k > 0 and lead >= 2:
            classes.append('later_individual_with_2+_records_before_first_dose')
            if meta['admid'] is None and last_route[k - 1] is not None:
                classes.append('generated_admid:2+_predose_records_after_an_individual_with_doses')
                if not same(last_route[k - 1], cmt_values[rows[0]]):
                    classes.append('generated_admid:predose_records_after_individual_with_other_last_route')
    if len({r for r in last_route if r is not None}) > 1:
        classes.append('individuals_with_different_last_route')
    ev = 2
    ev += check_independent(get_admid, tab, s.tolist(), 'get_admid')
    ev += check_independent(get_cmt, tab, cmt_values, 'get_cmt')
    return info(tab, feats, classes, ev)


def run_add_cmt_admid(spec):
    from pharmpy.modeling import add_admid, add_cmt, get_admid, get_cmt

    tab, feats, classes = prep(spec)
    meta = tab.meta
    n = len(tab.records)
    ev = 0
    for fn, getter, role, name, typ in ((add_cmt, get_cmt, 'cmt', 'CMT', 'compartment'), (add_admid, get_admid, 'admid', 'ADMID', 'admid')):
        pre = fn.__name__
        if name in tab.dropped:
            # a column of that name and type exists but is marked as dropped: whether it is
            # replaced, kept or re-activated is not documented
            classes.append(f'unspecified:{pre}-with-dropped-{name}-column')
            continue
        res = call(fn, tab, clause=pre)
        ev += 1
        df = res.dataset
        rows = _rows_of(df, tab, pre)
        if rows != list(range(n)):
            raise Violation(f'{pre}:record-order', observed=rows, expected=list(range(n)))
        if meta[role] is not None:
            classes.append(f'{pre}:column-exists')
            late = _frame_checks(df, tab, f'{pre}[exists]', [], rows)
            if late:
                raise late
            continue
        late = _frame_checks(df, tab, pre, [name], rows)
        if late:
            raise late
        ref = call(getter, tab, clause=getter.__name__)
        import pandas as pd

        if not isinstance(ref, pd.Series):
            continue
        if any(not same(a, b) for a, b in zip(df[name].tolist(), ref.tolist())):
            raise Violation(f'{pre}:differs-from-getter', observed=df[name].tolist(), expected=ref.tolist(), detail=str(tab.render()))
        di = res.datainfo
        if list(di.names) != list(df.columns):
            raise Violation(f'{pre}:datainfo-names', observed=list(di.names), expected=list(df.columns))
        if di[name].type != typ:
            raise Violation(f'{pre}:datainfo-type', observed=di[name].type, expected=typ)
        for c in tab.columns:
            if di[c].type != tab.types[c]:
                raise Violation(f'{pre}:datainfo-type-changed', observed=f'{c}: {di[c].type}', expected=tab.types[c])
    return info(tab, feats, classes, ev)


# ------------------------------------------------------------------------------------------
# sub-check: baselines and covariates


def run_baselines(spec):
    from pharmpy.modeling import get_baselines, get_covariate_baselines, list_time_varying_covariates

    tab, feats, classes = prep(spec)
    recs, meta = tab.records, tab.meta
    ids = [i for i, _ in W.individuals(recs, meta)]
    sorted_ids = ids == sorted(ids)

    def check_frame(df, exp, cols, clause):
        import pandas as pd

        if not isinstance(df, pd.DataFrame):
            raise Violation(f'{clause}:not-a-dataframe', observed=type(df).__name__)
        if [c for c in df.columns if c not in tab.dropped] != cols:
            raise Violation(f'{clause}:columns', observed=list(df.columns), expected=cols)
        got_ids = df.index.tolist()
        if sorted(got_ids) != sorted(ids) or (sorted_ids and got_ids != ids):
            raise Violation(f'{clause}:index', observed=got_ids, expected=ids, detail=str(tab.render()))
        if df.index.name != meta['id']:
            raise Violation(f'{clause}:index-name', observed=df.index.name, expected=meta['id'])
        expd = dict(exp)
        for pos, i in enumerate(got_ids):
            for c in cols:
                if not same(df[c].iloc[pos], expd[i][c]):
                    # "Baseline is taken to be the first row even if that has a missing value."
                    kind = 'value:first-record-missing' if expd[i][c] != expd[i][c] else 'value'
                    raise Violation(f'{clause}:{kind}', observed=df[c].iloc[pos], expected=expd[i][c], detail=f'individual {i} column {c}; {tab.render()}')

    # missing values (NaN): anywhere / in the first record of an individual while a later record has a value
    n_missing = sum(1 for r in recs for c in tab.columns if r[c] != r[c])
    if n_missing:
        classes.append('missing_values')
    for _id, rows in W.individuals(recs, meta):
        for c in tab.columns:
            v0 = recs[rows[0]][c]
            if v0 != v0 and any(recs[i][c] == recs[i][c] for i in rows[1:]):
                classes.append('first_record_missing_later_value:' + tab.types[c])
    df = call(get_baselines, tab, clause='get_baselines')
    cols = [c for c in tab.columns if c != meta['id'] and c not in tab.dropped]
    check_frame(df, W.baselines(recs, meta, cols), cols, 'get_baselines')

    covs = meta['covariates']
    classes.append(f'ncov={len(covs)}')
    exp, undecided = W.time_varying_covariates(recs, meta)
    if undecided:
        classes.append('unspecified:time-varying-through-missing-value')
    # alternate which of the two covariate functions is asked first so that a failure of one
    # (e.g. on tables without covariate columns) does not hide the other in every case
    order = ('tv', 'cb') if len(recs) % 2 else ('cb', 'tv')
    for which in order:
        if which == 'cb':
            df = call(get_covariate_baselines, tab, clause='get_covariate_baselines' + ('' if covs else '[no-covariates]'))
            check_frame(df, W.baselines(recs, meta, covs), covs, 'get_covariate_baselines')
        else:
            got = call(list_time_varying_covariates, tab, clause='list_time_varying_covariates' + ('' if covs else '[no-covariates]'))
            # covariates whose only variation is value <-> missing may or may not be listed (undocumented)
            ok = isinstance(got, list) and [c for c in got if c not in undecided] == exp and got == [c for c in covs if c in got]
            if not ok:
                raise Violation('list_time_varying_covariates', observed=got, expected=dict(certain=exp, undecided=undecided), detail=str(tab.render()))
    classes.append(f'time_varying={len(exp)}')
    return info(tab, feats, classes, 3)


# ------------------------------------------------------------------------------------------
# self-check of the oracle


def _read_table(path, sep=None, comment=None):
    with open(path) as f:
        lines = [ln for ln in f.read().splitlines() if ln.strip()]
    header = lines[0].lstrip('#').split(sep)
    recs = []
    for ln in lines[1:]:
        vals = ln.split(sep)
        recs.append({h: (0.0 if v == '.' else float(v)) for h, v in zip(header, vals)})
    return header, recs


def selfcheck():
    import sys

    # 1. the reference does not depend on pharmpy / pandas
    src = open(W.__file__).read() + open(os.path.join(os.path.dirname(_HERE), 'gen', 'gen_events.py')).read()
    for bad in ('import pharmpy', 'from pharmpy', 'import pandas', 'from pandas'):
        if bad in src:
            raise HarnessError(f'reference walker / generator must not use "{bad}"')
    repo = os.environ.get('PV_REPO', '/repo')
    # 2. numbers asserted by pharmpy's own tests (tests/modeling/test_data_funcs.py) on pheno.dta
    pheno = os.path.join(repo, 'src/pharmpy/internals/example_models/pheno.dta')
    if os.path.exists(pheno):
        cols, recs = _read_table(pheno)
        meta = dict(columns=cols, id='ID', idv='TIME', dv='DV', dose='AMT', mdv=None, event=None, ss=None, ii=None, addl=None, cmt=None, admid=None, covariates=['WGT', 'APGR'], model=MODELINFO['iv'])
        if len(W.observation_rows(recs, meta)) != 155 or len(W.dose_rows(recs, meta)) != 589 or len(W.individuals(recs, meta)) != 59:
            raise HarnessError('walker: pheno counts')
        d, _ = W.doseid(recs, meta)
        if len(d) != 744 or d[0] != 1 or d[743] != 13:
            raise HarnessError('walker: pheno doseid')
        recs2 = [dict(r) for r in recs]
        recs2[742]['TIME'] = recs2[743]['TIME']
        d, _ = W.doseid(recs2, meta)
        if d[743] != 12 or d[742] != 13:
            raise HarnessError('walker: pheno doseid with tie')
        t, _ = W.tad(recs, meta)
        if t[0] != 0.0 or not close(t[1], 2.0) or not close(t[743], 2.0):
            raise HarnessError('walker: pheno tad')
        if W.time_varying_covariates(recs, meta) != ([], []) or sum(W.mdv(recs, meta)) != 589:
            raise HarnessError('walker: pheno covariates / mdv')
        if [c for _, c in W.observation_counts(recs, meta)][:10] != [2, 3, 3, 3, 3, 3, 3, 3, 4, 3]:
            raise HarnessError('walker: pheno observation counts')
    # 3. pef.csv: expansion and TAD numbers asserted by pharmpy's tests
    pef = os.path.join(repo, 'tests/testdata/nonmem/models/pef.csv')
    if os.path.exists(pef):
        cols, recs = _read_table(pef)
        meta = dict(columns=cols, id='ID', idv='TIME', dv='DV', dose='AMT', mdv=None, event=None, ss=None, ii='II', addl='ADDL', cmt=None, admid=None, covariates=[], model=MODELINFO['iv'])
        e = W.expansion(recs, meta)
        if len(recs) + len(e['added']) != 1494:
            raise HarnessError('walker: pef expansion count')
        t, _ = W.tad(recs, meta)
        want = [0.0, 0.0, 0.0, 1.5, 3.0, 10.72, 0.0, 0.0, 0.0, 1.45, 3.0, 10.98, 0.0, 0.0, 2.25, 3.77, 12.0, 0.0, 0.0, 1.47, 2.97]
        for a, b in zip(t, want):
            if a is None or abs(a - b) > 1e-6:
                raise HarnessError(f'walker: pef tad {t[:21]}')
        if abs(t[104] - 1.17) > 1e-6 or t[103] != 0.0:
            raise HarnessError('walker: pef tad row 104')
    # 4. the hard-coded compartment numbers / admids are those of the models
    for kind in KINDS:
        odes = base_model(kind).statements.ode_system
        names = odes.compartment_names
        got = [dict(cmt=names.index(c.name) + 1, admid=c.doses[0].admid) for c in odes.dosing_compartments]
        want = MODELINFO[kind]
        if got != want['dosing'] or names.index(odes.central_compartment.name) + 1 != want['central']:
            raise HarnessError(f'model layout of {kind} differs from MODELINFO: {got}')
    # 5. hand-made table with known answers
    recs = [
        {'ID': 1, 'TIME': 0.0, 'AMT': 10.0, 'DV': 0.0},
        {'ID': 1, 'TIME': 0.0, 'AMT': 0.0, 'DV': 1.0},
        {'ID': 1, 'TIME': 4.0, 'AMT': 0.0, 'DV': 2.0},
        {'ID': 1, 'TIME': 4.0, 'AMT': 10.0, 'DV': 0.0},
        {'ID': 1, 'TIME': 6.0, 'AMT': 10.0, 'DV': 0.0},
        {'ID': 1, 'TIME': 6.0, 'AMT': 0.0, 'DV': 3.0},
        {'ID': 4, 'TIME': 1.0, 'AMT': 0.0, 'DV': 3.0},
    ]
    meta = dict(columns=['ID', 'TIME', 'AMT', 'DV'], id='ID', idv='TIME', dv='DV', dose='AMT', mdv=None, event=None, ss=None, ii=None, addl=None, cmt=None, admid=None, covariates=[], model=MODELINFO['iv'])
    if W.doseid(recs, meta)[0] != [1, 1, 1, 2, 3, 2, 0]:
        raise HarnessError(f'walker: hand-made doseid {W.doseid(recs, meta)[0]}')
    if W.tad(recs, meta)[0] != [0.0, 0.0, 4.0, 0.0, 0.0, 2.0, None]:
        raise HarnessError(f'walker: hand-made tad {W.tad(recs, meta)[0]}')
    if 'pharmpy' in getattr(sys.modules.get(W.__name__), '__dict__', {}):
        raise HarnessError('walker imported pharmpy')


# ------------------------------------------------------------------------------------------
# predicates for known findings (pure functions of the spec)


def _first_dose_tie_outside_first_row(spec):
    """some individual has a non-dose record after its FIRST dose record at the same TIME, and the
    first record of the whole table is not one of the records of that individual at that TIME"""
    t = build(spec)
    recs, meta = t.records, t.meta
    for _id, rows in W.individuals(recs, meta):
        seg = W.segments(recs, meta, rows)
        d = next((i for i in rows if W.is_dose(recs[i], meta)), None)
        if d is None:
            continue
        tie = [i for i in rows if i > d and not W.is_dose(recs[i], meta) and recs[i]['TIME'] == recs[d]['TIME'] and seg[i] == seg[d]]
        if tie and not (rows[0] == 0 and recs[0]['TIME'] == recs[d]['TIME']):
            return True
    return False


def _nondose_after_dose_tie(spec):
    t = build(spec)
    recs, meta = t.records, t.meta
    for _id, rows in W.individuals(recs, meta):
        for a in rows:
            if W.is_dose(recs[a], meta) and any(b > a and not W.is_dose(recs[b], meta) and recs[b]['TIME'] == recs[a]['TIME'] for b in rows):
                return True
    return False


def _ids_not_ascending(spec):
    t = build(spec)
    ids = [i for i, _ in W.individuals(t.records, t.meta)]
    return ids != sorted(ids)


def _reset_dose_without_admid_column(spec):
    t = build(spec)
    m = t.meta
    return m['admid'] is None and m['event'] is not None and any(r[m['event']] == 4 for r in t.records)


KNOWN_PREDICATES = {
    'single_record': lambda spec: len(build(spec).records) == 1,
    'exactly_one_observation': lambda spec: (lambda t: len(W.observation_rows(t.records, t.meta)) == 1)(build(spec)),
    'exactly_one_dose': lambda spec: (lambda t: len(W.dose_rows(t.records, t.meta)) == 1)(build(spec)),
    'no_covariate_column': lambda spec: not build(spec).meta['covariates'],
    'id_column_not_named_ID': lambda spec: build(spec).meta['id'] != 'ID',
    'time_restart': lambda spec: bool(restart_individuals(build(spec))),
    'time_shared_by_reset_groups': lambda spec: bool(shared_time_rows(build(spec))),
    'ids_not_ascending': _ids_not_ascending,
    'first_dose_tie_outside_first_row': _first_dose_tie_outside_first_row,
    'nondose_record_after_dose_at_same_time': _nondose_after_dose_tie,
    'has_addl_and_ii_columns': lambda spec: (lambda m: m['addl'] is not None and m['ii'] is not None)(build(spec).meta),
    'additional_dose_pending_at_reset': lambda spec: (lambda t: bool(W.expansion(t.records, t.meta)['crossing']))(build(spec)),
    'admid_column_and_oral_only_model': lambda spec: (lambda t: t.kind == 'oral' and t.meta['admid'] is not None and t.meta['cmt'] is None)(build(spec)),
    'reset_dose_record_without_admid_column': _reset_dose_without_admid_column,
    'addl_column_without_ii_column': lambda spec: (lambda m: m['addl'] is not None and m['ii'] is None)(build(spec).meta),
}


SUBCHECKS = [
    SubCheck('subsets', lambda: TABLE, run_subsets, quick=1000, thorough=8760),
    SubCheck('mdv_evid', lambda: TABLE, run_mdv_evid, quick=1000, thorough=8760),
    SubCheck('doseid', lambda: TABLE, run_doseid, quick=2000, thorough=17520),
    SubCheck('tad', lambda: TABLE, run_tad, quick=2000, thorough=17520),
    SubCheck('tad_frame', lambda: TABLE, run_tad_frame, quick=1000, thorough=8760),
    SubCheck('expand', lambda: TABLE, run_expand, quick=1600, thorough=14020),
    SubCheck('expand_frame', lambda: TABLE, run_expand_frame, quick=640, thorough=5600),
    SubCheck('cmt_admid', lambda: TABLE, run_cmt_admid, quick=1600, thorough=14020),
    SubCheck('add_cmt_admid', lambda: TABLE, run_add_cmt_admid, quick=640, thorough=5600),
    SubCheck('baselines', lambda: TABLE, run_baselines, quick=900, thorough=7880),
]


# ------------------------------------------------------------------------------------------
# findings on the unchanged tree (proposal for /verif/known_findings.json; `python -m
# pv.checks.c14` prints the entries as JSON).  (defect, subcheck, clause prefix, predicate, spec)

_S_TIE_FIRST = {'inds': [{'recs': [{}, {'dt': 1, 'k': 1}, {}]}]}
_S_SUBJ = {'idname': 7, 'cols': {'evid': True}}
_S_SUBJ_ADDL = {'idname': 7, 'cols': {'evid': True, 'addl': True}}
_S_SHARED = {'cols': {'evid': True}, 'inds': [{'recs': [{'k': 1}, {'dt': 1, 'k': 1}, {}, {'k': 3}, {}]}]}
_S_SHARED_RESTART = {'restart': True, 'cols': {'evid': True}, 'inds': [{'t0': 2, 'recs': [{'dt': 3}, {'dt': 2, 'k': 1}, {'k': 4, 'dt': 4}, {'dt': 2}, {}]}]}

DEFECTS = {
    'D1': 'squeeze() turns a one-row result into a scalar: get_observations / get_doses with exactly one observation / dose, get_mdv (and everything built on it) on a one-record dataset',
    'D2': 'get_covariate_baselines / list_time_varying_covariates raise IndexError when the dataset has no covariate column',
    'D3': 'get_doseid: the "first dose" exception tests whether row label 0 of the dataset is in the tie group instead of whether the dose is the first dose of the individual (TAD inherits it)',
    'D4': "get_doseid / expand_additional_doses / get_admid hard-code the column name 'ID'",
    'D5': 'add_time_after_dose returns the records sorted by individual id and by DOSEID (observation moved before the dose it is tied with); expand_additional_doses sorts individuals by id',
    'D6': 'expand_additional_doses (and add_time_after_dose through it) turns integer columns, e.g. ID, into float64',
    'D7': 'get_doseid: tie adjustment ignores the reset group when it collects the records of a tie (applied twice / applied to records of another reset group)',
    'D8': 'add_time_after_dose gives negative TAD after a reset (TIME restarting at EVID=3, or additional doses still pending at the reset)',
    'D9': 'get_cmt with an admid column raises UnboundLocalError when no dose goes into the central compartment (oral model)',
    'D10': 'get_admid treats only EVID=1 as a dose: an EVID=4 (reset and dose) record gets the previous admid',
    'D11': "add_time_after_dose raises KeyError 'EXPANDED' when there is an additional (ADDL) column but no usable ii column (expand_additional_doses then returns the model unchanged)",
}

PROPOSED_KNOWN_FINDINGS = [
    ('D1', 'subsets', 'get_observations:not-a-series', 'exactly_one_observation', {}),
    ('D1', 'subsets', 'get_doses:not-a-series', 'exactly_one_dose', {'inds': [{'recs': [{'k': 1}]}]}),
    ('D1', 'mdv_evid', 'get_mdv:AttributeError@modeling/data.py:get_mdv', 'single_record', {}),
    ('D1', 'cmt_admid', 'get_cmt:AttributeError@modeling/data.py:get_mdv', 'single_record', {}),
    ('D1', 'cmt_admid', 'get_admid:AttributeError@modeling/data.py:get_mdv', 'single_record', {'cols': {'cmt': True}}),
    ('D1', 'add_cmt_admid', 'add_cmt:AttributeError@modeling/data.py:get_mdv', 'single_record', {}),
    ('D1', 'add_cmt_admid', 'add_admid:AttributeError@modeling/data.py:get_mdv', 'single_record', {'cols': {'cmt': True}}),
    ('D2', 'baselines', 'get_covariate_baselines[no-covariates]:IndexError', 'no_covariate_column', {'inds': [{}, {}]}),
    ('D2', 'baselines', 'list_time_varying_covariates[no-covariates]:IndexError', 'no_covariate_column', {}),
    ('D3', 'doseid', 'get_doseid:tie-first-dose', 'first_dose_tie_outside_first_row', _S_TIE_FIRST),
    ('D3', 'doseid', 'get_doseid[time-restart]:tie-first-dose', 'first_dose_tie_outside_first_row', {'restart': True, 'cols': {'evid': True}, 'inds': [{}, {'recs': [{'dt': 1, 'k': 1}, {}, {'k': 3}]}]}),
    ('D3', 'doseid', 'get_doseid[time-shared-by-reset-groups]:tie-first-dose', 'first_dose_tie_outside_first_row', {'cols': {'evid': True}, 'inds': [{'recs': [{}, {'dt': 1, 'k': 1}, {}, {'k': 3}]}]}),
    ('D3', 'tad', 'tad:value:tie-first-dose', 'first_dose_tie_outside_first_row', _S_TIE_FIRST),
    ('D3', 'tad', 'tad[time-restart]:value:tie-first-dose', 'first_dose_tie_outside_first_row', {'restart': True, 'cols': {'evid': True}, 'inds': [{'recs': [{}, {'dt': 2, 'k': 1}, {}, {'k': 4, 'dt': 1}]}]}),
    ('D3', 'tad', 'tad[time-shared-by-reset-groups]:value:tie-first-dose', 'first_dose_tie_outside_first_row', {'cols': {'evid': True}, 'inds': [{'recs': [{}, {'dt': 1, 'k': 1}, {}, {'k': 3}]}]}),
    ('D4', 'doseid', 'get_doseid:KeyError@modeling/data.py:get_doseid', 'id_column_not_named_ID', _S_SUBJ),
    ('D4', 'tad', 'add_time_after_dose:KeyError@modeling/data.py:', 'id_column_not_named_ID', _S_SUBJ),
    ('D4', 'tad_frame', 'add_time_after_dose:KeyError@modeling/data.py:', 'id_column_not_named_ID', _S_SUBJ),
    ('D4', 'expand', 'expand_additional_doses:KeyError@modeling/data.py:expand_additional_doses', 'id_column_not_named_ID', _S_SUBJ_ADDL),
    ('D4', 'expand_frame', 'expand_additional_doses:KeyError@modeling/data.py:expand_additional_doses', 'id_column_not_named_ID', _S_SUBJ_ADDL),
    ('D4', 'cmt_admid', 'get_admid:KeyError@modeling/data.py:get_admid', 'id_column_not_named_ID', _S_SUBJ),
    ('D4', 'add_cmt_admid', 'add_admid:KeyError@modeling/data.py:get_admid', 'id_column_not_named_ID', _S_SUBJ),
    ('D5', 'tad_frame', 'tad_frame:record-order', 'nondose_record_after_dose_at_same_time', _S_TIE_FIRST),
    ('D5', 'tad_frame', 'tad_frame:individual-order', 'ids_not_ascending', {'idmode': 3, 'inds': [{}, {}]}),
    ('D5', 'expand', 'expand:originals:individual-order', 'ids_not_ascending', {'cols': {'addl': True}, 'idmode': 3, 'inds': [{}, {'recs': [{'k': 1, 'addl': 1}, {}]}]}),
    ('D6', 'tad_frame', 'tad_frame:dtype:integer-column-became-float64', 'has_addl_and_ii_columns', {'cols': {'addl': True}}),
    ('D6', 'expand_frame', 'expand_frame:dtype:integer-column-became-float64', 'has_addl_and_ii_columns', {'cols': {'addl': True}, 'inds': [{'recs': [{'k': 1, 'addl': 1}]}]}),
    ('D6', 'expand_frame', 'expand_frame[nothing-to-expand]:dtype:integer-column-became-float64', 'has_addl_and_ii_columns', {'cols': {'addl': True}}),
    ('D7', 'doseid', 'get_doseid[time-shared-by-reset-groups]:', 'time_shared_by_reset_groups', _S_SHARED),
    ('D7', 'doseid', 'get_doseid[time-shared-by-reset-groups]:', 'time_shared_by_reset_groups', _S_SHARED_RESTART),
    ('D7', 'tad', 'tad[time-shared-by-reset-groups]:value:', 'time_shared_by_reset_groups', _S_SHARED),
    ('D7', 'tad_frame', 'tad_frame:record-order', 'time_shared_by_reset_groups', {'restart': True, 'cols': {'evid': True, 'addl': True}, 'inds': [{'recs': [{'dt': 2, 'addl': 1, 'k': 4, 'ii': 3}, {'k': 3}, {'dt': 3}, {'dt': 2}, {}]}]}),
    ('D8', 'tad', 'tad[time-restart]:negative', 'time_restart', {'restart': True, 'cols': {'evid': True}, 'inds': [{'recs': [{'dt': 1}, {'k': 3}]}]}),
    ('D8', 'tad', 'tad[additional-dose-pending-at-reset]:negative', 'additional_dose_pending_at_reset', {'cols': {'addl': True, 'evid': True}, 'inds': [{'recs': [{'k': 4, 'addl': 1}, {'k': 3}]}]}),
    ('D9', 'cmt_admid', 'get_cmt:UnboundLocalError@modeling/data.py:get_cmt', 'admid_column_and_oral_only_model', {'kind': 1, 'cols': {'admid': True}}),
    ('D9', 'add_cmt_admid', 'add_cmt:UnboundLocalError@modeling/data.py:get_cmt', 'admid_column_and_oral_only_model', {'kind': 1, 'cols': {'admid': True}}),
    ('D10', 'cmt_admid', 'get_admid:reset-dose', 'reset_dose_record_without_admid_column', {'cols': {'evid': True}, 'inds': [{'recs': [{}, {'k': 4}]}]}),
    ('D11', 'tad', 'add_time_after_dose:KeyError@modeling/data.py:add_time_after_dose', 'addl_column_without_ii_column', {'cols': {'addl': True}, 'dropped': {'ii': True}}),
    ('D11', 'tad_frame', 'add_time_after_dose:KeyError@modeling/data.py:add_time_after_dose', 'addl_column_without_ii_column', {'cols': {'addl': True}, 'dropped': {'ii': True}}),
]


def proposed_known_findings():
    out = []
    n = {}
    for defect, sub, clause, pred, spec in PROPOSED_KNOWN_FINDINGS:
        n[defect] = n.get(defect, 0) + 1
        e = dict(property='C14', id=f'C14-{defect}-{n[defect]}', status='known', subcheck=sub, clause=clause, predicate=pred, what=f'{defect} ({sub}): {DEFECTS[defect]}')
        if spec is not None:
            e['spec'] = spec
        out.append(e)
    return out


if __name__ == '__main__':
    import json

    print(json.dumps(dict(findings=proposed_known_findings()), indent=1))
