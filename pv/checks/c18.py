"""C18 -- Search spaces are parsed, combined and enumerated exactly.

Oracle = explicit expansion of the MFL *string* by the tiny parser in pv/ref/mflset.py
(no pharmpy, no lark) and plain set operations on it.  pharmpy objects are observed through
their public attributes (`observe`), wildcards being expanded with the tables of the docs.

sub-checks
  roundtrip       (i)   parse(s) denotes ref(s); repr() denotes the same space for the reference
                        parser and for pharmpy's parser
  add, sub, eq    (ii)  A+B, A-B, A==B on pairs vs set union / difference / equality
  eq_statement    (ii)  == of two TRANSITS statements is falsy when their counts differ
  subset_lnt      (ii)  contain_subset, least_number_of_transformations on pairs of PK spaces
  model_vs_space  (ii)  the caller protocol of modelsearch: model features vs search space
  funcs           (iii) convert_to_funcs keys; (iv) all_combinations and exhaustive()
  stepwise        (v)   exhaustive_stepwise / reduced_stepwise trees vs documented rules
  sets            (vi)  partitions / subsets (exhaustive for n <= 6 + random element lists)
  iiv_builders    (vi)  td_exhaustive_no_of_etas / td_exhaustive_block_structure candidates

Each operation of (ii) is its own sub-check (same pair generator) so that a known defect of one
operation does not hide the other operations on the same pair.
"""

from __future__ import annotations

import collections
import itertools

from hypothesis import strategies as st

from ..core import CaseInfo, HarnessError, Reject, SubCheck, Violation, guard, innermost_pharmpy_frame
from ..gen import gen_mfl as G
from ..ref import mflset as R

PROPERTY = 'C18'
LEVEL = 'exploration'
RULE = (
    'MFL strings rendered from JSON specs of 1-7 statements over every feature kind (single values, arrays, '
    'ranges a..b, wildcards, DEPOT/NODEPOT, DRUG/MET, COVARIATE?/COVARIATE with operator, LET + @references, '
    'automatic symbols, ALLOMETRY), random case, blanks and ;/newline separators; pairs B = own statements + '
    'statements shared with A (or A reordered); model-vs-space pairs in the style of get_model_features; PK '
    'spaces filtered by a base model for the search algorithms (<=200 combinations, <=400 tree nodes); element '
    'lists of n<=6 for partitions/subsets (exhaustive) and synthetic models with n<=6 etas for the iivsearch '
    'builders. Non-trivial: string mixes >=3 categories with a range or wildcard; pair has a category in which '
    'the operands overlap but are unequal; algorithm case has >=2 categories with a peripheral chain or an '
    'excluded combination; n>=3 for the set enumerations. Distinct = normalised string(s) / key set / element list.'
)
ASSUMPTIONS = [
    'feature names, option tokens and parameter/covariate names are case insensitive (upper-cased); LET names and @references are case sensitive and generated in one case',
    'a space is PK (gets the default feature of every missing PK category, modelsearch.rst table) iff it mentions absorption, elimination, transits, peripherals, lagtime or metabolite (ModelFeatures.create)',
    'A-B: a PK category emptied by the difference may be empty or hold its default feature; it must hold the default when the result is a PK space',
    'covariate categories are compared only when no effect is optional in one place and forced in another (the docs do not define that combination)',
    'stepwise: TRANSITS(0,NODEPOT) is never a step at any depth (stated by a comment in _is_allowed, not by the docs) -- mandatory; the unexplained row ABSORPTION(FO) with TRANSITS(1,NODEPOT) of the code is tolerated, not required; acceptance of a non-peripheral step must not depend on the path being empty',
    'contain_subset / least_number_of_transformations are asserted for tool=None/"modelsearch" on PK operands only (their only callers)',
]


# ==========================================================================================
# observing pharmpy objects


def _names(x, cat, universe):
    from pharmpy.tools.mfl.statement.feature.symbols import Name, Wildcard

    if isinstance(x, Wildcard):
        return list(universe)
    if not isinstance(x, tuple) or not all(isinstance(n, Name) for n in x):
        raise Violation(f'malformed-object:{cat}', observed=repr(x), detail=f'{cat} options are neither a tuple of Name nor a Wildcard')
    return [n.name for n in x]


def _pc(x, cat):
    from pharmpy.tools.mfl.statement.feature.covariate import Ref
    from pharmpy.tools.mfl.statement.feature.symbols import Wildcard

    if isinstance(x, Ref):
        return ['@' + x.name]
    if isinstance(x, Wildcard):
        return ['*']
    if not isinstance(x, (tuple, list)) or not all(isinstance(n, str) for n in x):
        raise Violation(f'malformed-object:{cat}', observed=repr(x))
    return list(x)


def observe(mf):
    """ModelFeatures -> space (dict category -> frozenset of atoms), via public attributes"""
    from pharmpy.tools.mfl.statement.feature.symbols import Wildcard

    sp = {c: set() for c in R.CATEGORIES}
    for cat, attr in (
        ('ABSORPTION', 'absorption'), ('ELIMINATION', 'elimination'), ('LAGTIME', 'lagtime'),
        ('DIRECTEFFECT', 'direct_effect'), ('EFFECTCOMP', 'effect_comp'), ('METABOLITE', 'metabolite'),
    ):
        s = getattr(mf, attr)
        if s is not None:
            sp[cat] |= {(cat, m) for m in _names(s.modes, cat, R.SIMPLE[cat])}
    for t in mf.transits:
        counts = _ints(t.counts, 'TRANSITS')
        sp['TRANSITS'] |= {('TRANSITS', n, d) for n in counts for d in _names(t.depot, 'TRANSITS', R.DEPOT)}
    for p in mf.peripherals:
        counts = _ints(p.counts, 'PERIPHERALS')
        sp['PERIPHERALS'] |= {('PERIPHERALS', n, m) for n in counts for m in _names(p.modes, 'PERIPHERALS', R.PERIPHERAL_MODES)}
    for i in mf.indirect_effect:
        sp['INDIRECTEFFECT'] |= {
            ('INDIRECTEFFECT', m, p) for m in _names(i.modes, 'INDIRECTEFFECT', R.PDTYPE) for p in _names(i.production, 'INDIRECTEFFECT', R.PRODUCTION)
        }
    for c in mf.covariate:
        fps = list(R.FP_WILDCARD) if isinstance(c.fp, Wildcard) else _pc(c.fp, 'COVARIATE')
        if c.op not in ('*', '+'):
            raise Violation('malformed-object:COVARIATE', observed=repr(c))
        sp['COVARIATE'] |= {
            ('COVARIATE', p, cv, fp, c.op, bool(c.optional.option)) for p in _pc(c.parameter, 'COVARIATE') for cv in _pc(c.covariate, 'COVARIATE') for fp in fps
        }
    a = mf.allometry
    if a is not None:
        sp['ALLOMETRY'] = {('ALLOMETRY', a.covariate, float(a.reference))}
    return {c: frozenset(v) for c, v in sp.items()}


def _ints(x, cat):
    if not isinstance(x, tuple) or not all(isinstance(n, int) for n in x):
        raise Violation(f'malformed-object:{cat}', observed=repr(x))
    return list(x)


def _show(atoms):
    return sorted(map(repr, atoms))


def _call(fn, *args, clause, **kwargs):
    """-> ('ok', value) | ('refused', exc) for ValueError / lark errors; internal errors raise
    Violation('<clause>:<Type>@<frame>')"""
    from lark.exceptions import LarkError

    try:
        return 'ok', fn(*args, **kwargs)
    except (Violation, Reject, HarnessError):
        raise
    except (ValueError, NotImplementedError, LarkError) as e:
        return 'refused', e
    except Exception as e:  # noqa
        where = innermost_pharmpy_frame(e)
        if where == 'outside-pharmpy':
            raise HarnessError(f'{type(e).__name__}: {e} raised outside pharmpy in {clause}')
        raise Violation(f'internal:{type(e).__name__}@{where}:{clause}', detail=f'{clause}: {type(e).__name__}: {str(e)[:300]}')


def _parse(text):
    from pharmpy.tools.mfl.parse import parse

    return parse(text, True)


def _ref_statements(text):
    try:
        return R.parse_statements(text)
    except R.RefSyntaxError as e:
        raise HarnessError(f'reference parser cannot parse generated string {text!r}: {e}')


def _parse_checked(text, stmts, covered_elsewhere=False):
    """parse with pharmpy; documented refusals -> Reject; refusing a string of the grammar for
    no documented reason -> Violation (or Reject in sub-checks where roundtrip covers parsing)"""
    from lark.exceptions import LarkError

    reason = R.documented_refusal(stmts)
    try:
        kind, res = _call(_parse, text, clause='parse')
    except Violation:
        if covered_elsewhere:
            raise Reject('parse fails internally (covered by roundtrip)')
        raise
    if kind == 'ok':
        return res
    if covered_elsewhere:
        raise Reject(f'parse refused: {type(res).__name__}')
    if isinstance(res, LarkError):
        raise Violation('parse:grammar-refusal', detail=f'{text!r}: {str(res)[:200]}')
    if reason is None:
        raise Violation('parse:undocumented-ValueError', detail=f'{text!r}: {res}')
    raise Reject(f'documented refusal: {reason}')


def _feature_kinds(stmts):
    return [s['kind'] for s in stmts if s['kind'] != 'LET']


def _string_classes(text, stmts, spec):
    kinds = _feature_kinds(stmts)
    cl = set()
    ds = [G.describe(s) for s in spec.get('st', [])]
    if any(d.get('range') for d in ds):
        cl.add('range')
    if any(d.get('wild') for d in ds):
        cl.add('wildcard')
    if any(d['kind'] == 'LET' for d in ds):
        cl.add('let')
    if any(d.get('symbolic') for d in ds):
        cl.add('reference')
    if any(d.get('autoref') for d in ds):
        cl.add('automatic-symbol')
    if any(d['optional'] for d in ds):
        cl.add('optional-cov')
    if len(kinds) != len(set(kinds)):
        cl.add('repeated-category')
    if '\n' in text:
        cl.add('newline-sep')
    if text != text.upper():
        cl.add('case-variation')
    for k in set(kinds):
        cl.add('kind:' + k)
    return cl, len(set(kinds))


# ==========================================================================================
# (i) roundtrip


def run_roundtrip(spec):
    text = G.render(spec)
    stmts = _ref_statements(text) if text else []
    if not _feature_kinds(stmts):
        raise Reject('no feature statement')
    mf = _parse_checked(text, stmts)
    exp = R.expand(stmts)
    obs = observe(mf)
    for c in R.CATEGORIES:
        if obs[c] != exp[c]:
            raise Violation(f'parse:{c}', observed=_show(obs[c]), expected=_show(exp[c]), detail=f'{text!r}')
    kind, printed = _call(repr, mf, clause='print')
    if kind != 'ok':
        raise Violation('print:refused', detail=f'{text!r}: {printed}')
    only_allometry = set(_feature_kinds(stmts)) == {'ALLOMETRY'}
    kind, mf2 = _call(_parse, printed, clause='roundtrip:reparse')
    if kind != 'ok':
        raise Violation('roundtrip:ALLOMETRY-only:print-unparsable' if only_allometry else 'roundtrip:reparse-refused', observed=printed, detail=f'{text!r} prints as {printed!r}: {str(mf2)[:200]}')
    obs2 = observe(mf2)
    for c in R.CATEGORIES:
        if obs2[c] != obs[c]:
            raise Violation(f'roundtrip:{c}', observed=_show(obs2[c]), expected=_show(obs[c]), detail=f'{text!r} prints as {printed!r}')
    try:
        exp2 = R.parse_mfl(printed)
    except R.RefSyntaxError as e:
        raise HarnessError(f'reference parser cannot parse printed form {printed!r} that pharmpy parses: {e}')
    for c in R.CATEGORIES:
        if exp2[c] != obs[c] and c != 'ALLOMETRY':
            raise Violation(f'print:{c}', observed=_show(exp2[c]), expected=_show(obs[c]), detail=f'{text!r} prints as {printed!r}')
    cl, ncat = _string_classes(text, stmts, spec)
    nt = ncat >= 3 and ('range' in cl or 'wildcard' in cl)
    return CaseInfo(nontrivial=nt, classes=tuple(sorted(cl)), key=text.upper().replace(' ', ''), render=text, evals=3)


# ==========================================================================================
# (ii) algebra on pairs


def _pair_specs(spec):
    a = spec.get('a') if isinstance(spec.get('a'), dict) else {}
    b = spec.get('b') if isinstance(spec.get('b'), dict) else {}
    ast = a.get('st', []) if isinstance(a.get('st', []), list) else []
    bst = b.get('st', []) if isinstance(b.get('st', []), list) else []
    share = [i for i in spec.get('share', []) if isinstance(i, int)] if isinstance(spec.get('share', []), list) else []
    mode = spec.get('mode', 1) if isinstance(spec.get('mode', 1), int) else 1
    if mode % 5 == 0 and ast:
        bst2 = list(reversed(ast))  # the same space, statements in another order
    else:
        bst2 = list(bst) + [ast[i % len(ast)] for i in share[:3]] if ast else list(bst)
    return dict(st=ast, fmt=a.get('fmt', [0])), dict(st=bst2, fmt=b.get('fmt', [0]))


def _cov_conflict(*spaces):
    seen = {}
    for sp in spaces:
        for _, p, c, fp, op, opt in sp['COVARIATE']:
            if seen.setdefault((p, c, fp, op), opt) != opt:
                return True
    return False


def _observe_result(opname, res, ctx):
    try:
        return observe(res)
    except Violation as v:
        raise Violation(f'{opname}:{v.clause}', observed=v.observed, detail=f'{ctx}: {v.detail}')


_ATTRS = (
    ('ABSORPTION', 'absorption'), ('ELIMINATION', 'elimination'), ('PERIPHERALS', 'peripherals'), ('LAGTIME', 'lagtime'),
    ('DIRECTEFFECT', 'direct_effect'), ('EFFECTCOMP', 'effect_comp'), ('INDIRECTEFFECT', 'indirect_effect'),
)


def _unequal_attributes(A, B):
    """label for a false negative of ==: the categories whose attribute level comparison is False"""
    out = []
    for cat, attr in _ATTRS:
        try:
            if not (getattr(A, attr) == getattr(B, attr)):
                out.append(cat)
        except Exception:
            out.append(cat)
    return '+'.join(out) or 'other'


def _check_result_space(opname, obs, raw, ea, eb, skipcov, ctx):
    """obs: observed space of the result; raw: category -> expected atoms without defaults"""
    obs_is_pk = R.is_pk(obs)
    for c in R.CATEGORIES:
        if c == 'ALLOMETRY' or (c == 'COVARIATE' and skipcov):
            continue
        want = raw[c]
        if c in R.DEFAULTS and not want:
            dflt = frozenset([R.DEFAULTS[c]])
            ok = obs[c] == dflt or (not obs[c] and not obs_is_pk)
            if not ok:
                raise Violation(f'{opname}:{c}:emptied', observed=_show(obs[c]), expected=f'{_show(dflt)} (or nothing in a non-PK result)', detail=ctx)
            continue
        if obs[c] != want:
            raise Violation(f'{opname}:{c}', observed=_show(obs[c]), expected=_show(want), detail=ctx)


def _simple_wildcards(*specs):
    out = set()
    for sp in specs:
        for s in sp.get('st', []):
            d = G.describe(s)
            if d['kind'] in G.UNIVERSE and d.get('wild'):
                out.add(d['kind'])
    return out


def _run_algebra(spec, op):
    from pharmpy.tools.mfl.statement.feature.transits import Transits

    sa, sb = _pair_specs(spec)
    ta, tb = G.render(sa), G.render(sb)
    if not ta or not tb:
        raise Reject('empty operand')
    stA, stB = _ref_statements(ta), _ref_statements(tb)
    if not _feature_kinds(stA) or not _feature_kinds(stB):
        raise Reject('no feature statement')
    A = _parse_checked(ta, stA, covered_elsewhere=True)
    B = _parse_checked(tb, stB, covered_elsewhere=True)
    ea, eb = R.expand(stA), R.expand(stB)
    symbolic = R.has_symbolic(ea) or R.has_symbolic(eb)
    skipcov = _cov_conflict(ea, eb)
    ctx = f'A={ta!r} B={tb!r}'
    cl = set()
    evals = 0
    if symbolic:
        cl.add('undefined-reference')
    if skipcov:
        cl.add('cov-optional/forced-conflict')

    # ---- union ------------------------------------------------------------------------
    kind, res = _call(lambda: A + B, clause='add') if op == 'add' else ('skip', None)
    if kind == 'skip':
        pass
    elif kind == 'refused':
        if not symbolic:
            raise Violation('add:undocumented-refusal', detail=f'{ctx}: {res}')
        cl.add('add-refused-reference')
    else:
        raw = {c: ea[c] | eb[c] for c in R.CATEGORIES}
        _check_result_space('add', _observe_result('add', res, ctx), raw, ea, eb, skipcov, ctx)
        evals += 1
    # ---- difference ----------------------------------------------------------------------
    kind, res = _call(lambda: A - B, clause='sub') if op == 'sub' else ('skip', None)
    if kind == 'skip':
        pass
    elif kind == 'refused':
        if not symbolic:
            raise Violation('sub:undocumented-refusal', detail=f'{ctx}: {res}')
    else:
        raw = {c: ea[c] - eb[c] for c in R.CATEGORIES}
        _check_result_space('sub', _observe_result('sub', res, ctx), raw, ea, eb, skipcov, ctx)
        evals += 1
    # ---- equality -------------------------------------------------------------------------
    kind, res = _call(lambda: A == B, clause='eq') if op == 'eq' else ('skip', None)
    if kind == 'skip':
        pass
    elif kind == 'refused':
        if not symbolic:
            raise Violation('eq:undocumented-refusal', detail=f'{ctx}: {res}')
    else:
        diff = R.differing_categories(ea, eb)
        evals += 1
        if bool(res) and diff:
            raise Violation('eq:true-for-different-spaces:' + '+'.join(diff), observed=True, expected=False, detail=ctx)
        if not bool(res) and not diff:
            raise Violation('eq:false-for-equal-spaces:' + _unequal_attributes(A, B), observed=False, expected=True, detail=f'{ctx}; both expand to the same space')
        cl.add('eq-true' if not diff else 'eq-false')
    # statement level equality of TRANSITS statements must at least be falsy for different counts
    if op == 'eq-statement' and len(A.transits) == 1 and len(B.transits) == 1 and isinstance(A.transits[0], Transits):
        t1, t2 = A.transits[0], B.transits[0]
        kind, res = _call(lambda: t1 == t2, clause='eq-statement')
        if kind == 'ok' and set(t1.counts) != set(t2.counts) and bool(res):
            raise Violation('eq-statement:TRANSITS:truthy-for-different-counts', observed=repr(res), expected='falsy', detail=f'{t1!r} == {t2!r}')
        evals += 1
    # ---- inclusion / least number of transformations (PK operands) ---------------------------
    if op == 'subset' and R.is_pk(ea) and R.is_pk(eb):
        rect = R.is_rectangular(ea['TRANSITS'])
        if not rect:
            cl.add('transits-not-a-product')
        for tool in (None, 'modelsearch'):
            kind, res = _call(A.contain_subset, B, tool=tool, clause='contain_subset')
            if kind == 'refused':
                raise Violation('contain_subset:undocumented-refusal', detail=f'{ctx}: {res}')
            want = R.contains_modelsearch(ea, eb)
            if rect and bool(res) != want:
                raise Violation('contain_subset', observed=res, expected=want, detail=f'{ctx} tool={tool}')
            evals += 1
        kind, lnt = _call(A.least_number_of_transformations, B, tool='modelsearch', clause='lnt')
        if kind == 'refused':
            raise Violation('lnt:undocumented-refusal', detail=f'{ctx}: {lnt}')
        _check_lnt(lnt, ea, eb, B, ctx)
        evals += 1
        cl.add('pk-pair')
    # classes / non-triviality
    overlap = [c for c in R.CATEGORIES if ea[c] & eb[c] and ea[c] != eb[c]]
    if overlap:
        cl.add('overlapping-unequal')
    for w in _simple_wildcards(sa, sb):
        cl.add('wildcard:' + w)
    if evals == 0:
        raise Reject(f'{op}: not applicable to this pair')
    return CaseInfo(nontrivial=bool(overlap), classes=tuple(sorted(cl)), key=(ta + '|' + tb).upper().replace(' ', ''), render=dict(A=ta, B=tb), evals=max(1, evals))


def run_add(spec):
    return _run_algebra(spec, 'add')


def run_sub(spec):
    return _run_algebra(spec, 'sub')


def run_eq(spec):
    return _run_algebra(spec, 'eq')


def run_eq_statement(spec):
    return _run_algebra(spec, 'eq-statement')


def run_subset(spec):
    return _run_algebra(spec, 'subset')


def _check_lnt(lnt, ea, eb, B, ctx):
    """lnt: dict key -> function returned by A.least_number_of_transformations(B, tool='modelsearch')"""
    if not isinstance(lnt, dict):
        raise Violation('lnt:type', observed=type(lnt).__name__)
    want = set(R.disjoint_modelsearch_categories(ea, eb))
    keys_b = R.func_keys(eb)
    got = collections.Counter()
    funcs_b = None
    for k, fn in lnt.items():
        if k[0] == 'PERIPHERALS' and len(k) == 3:
            continue  # metabolite peripherals: not a modelsearch category, tolerated
        got[k[0]] += 1
        if k not in keys_b:
            raise Violation('lnt:feature-not-in-target-space', observed=repr(k), expected=_show(x for x in keys_b if x[0] == k[0]), detail=ctx)
        if funcs_b is None:
            funcs_b = guard(B.convert_to_funcs, allowed=(), clause='convert_to_funcs')
        if funcs_b.get(k) is not fn and funcs_b.get(k) != fn:
            f2 = funcs_b.get(k)
            same = getattr(f2, 'func', f2) is getattr(fn, 'func', fn) and getattr(f2, 'keywords', None) == getattr(fn, 'keywords', None)
            if not same:
                raise Violation('lnt:wrong-function', observed=repr(fn), expected=repr(f2), detail=ctx)
    if any(v > 1 for v in got.values()):
        raise Violation('lnt:two-features-of-one-category', observed=sorted(map(repr, lnt)), detail=ctx)
    if set(got) != want:
        raise Violation('lnt:categories', observed=sorted(got), expected=sorted(want), detail=f'{ctx}: a transformation is needed exactly for the categories without a common feature')


# ==========================================================================================
# (ii') model vs search space (modelsearch caller protocol)


def run_model_vs_space(spec):
    m = spec.get('m') if isinstance(spec.get('m'), dict) else {}
    s = spec.get('s') if isinstance(spec.get('s'), dict) else {}
    ts = G.render(s)
    if not ts:
        raise Reject('empty space')
    stS = _ref_statements(ts)
    if not _feature_kinds(stS):
        raise Reject('no feature statement')
    tm = G.render_model_atoms(G.model_atoms(m, R.expand(stS)))
    stM = _ref_statements(tm)
    M = _parse_checked(tm, stM, covered_elsewhere=True)
    S = _parse_checked(ts, stS, covered_elsewhere=True)
    em, es = R.expand(stM), R.expand(stS)
    if not R.is_pk(es):
        raise Reject('not a PK space')
    if not R.drug_peripherals(es):
        raise Reject('space without drug peripherals (only metabolite peripherals given): not a modelsearch space')
    ctx = f'model={tm!r} space={ts!r}'
    cl = set()
    want = R.contains_modelsearch(es, em)
    kind, res = _call(S.contain_subset, M, tool='modelsearch', clause='contain_subset')
    if kind == 'refused':
        raise Violation('contain_subset:undocumented-refusal', detail=f'{ctx}: {res}')
    if bool(res) != want:
        raise Violation('contain_subset:model-in-space', observed=res, expected=want, detail=ctx)
    kind, lnt = _call(M.least_number_of_transformations, S, tool='modelsearch', clause='lnt')
    if kind == 'refused':
        raise Violation('lnt:undocumented-refusal', detail=f'{ctx}: {lnt}')
    _check_lnt(lnt, em, es, S, ctx)
    # the transformed model is part of the space
    new = dict(em)
    for k in lnt:
        if k[0] == 'PERIPHERALS':
            if len(k) == 2:
                new['PERIPHERALS'] = frozenset([('PERIPHERALS', k[1], 'DRUG')]) | R.met_peripherals(em)
        elif k[0] in ('ABSORPTION', 'ELIMINATION', 'LAGTIME', 'TRANSITS'):
            new[k[0]] = frozenset([k])
    if not R.contains_modelsearch(es, new):
        raise Violation('lnt:result-not-in-space', observed={c: _show(new[c]) for c in R.PK_CATEGORIES}, detail=ctx)
    if want != (len([k for k in lnt if not (k[0] == 'PERIPHERALS' and len(k) == 3)]) == 0):
        raise Violation('lnt:inconsistent-with-contain_subset', observed=sorted(map(repr, lnt)), expected=f'contained={want}', detail=ctx)
    cl.add('model-in-space' if want else 'model-not-in-space')
    if not R.is_rectangular(es['TRANSITS']):
        cl.add('transits-not-a-product')
    cl.add(f'n_transformations={len(lnt)}')
    nt = not want and 0 < len(lnt) < 5 and len({c for c in R.PK_CATEGORIES if len(es[c]) > 1}) >= 2
    return CaseInfo(nontrivial=nt, classes=tuple(sorted(cl)), key=(tm + '|' + ts).upper().replace(' ', ''), render=dict(model=tm, space=ts), evals=3)


# ==========================================================================================
# (iii)+(iv) feature functions, all combinations, exhaustive


def run_funcs(spec):
    from pharmpy.tools.mfl.helpers import all_combinations
    from pharmpy.tools.modelsearch.algorithms import create_candidate_exhaustive, exhaustive

    text = G.render(spec)
    stmts = _ref_statements(text) if text else []
    if not _feature_kinds(stmts):
        raise Reject('no feature statement')
    mf = _parse_checked(text, stmts, covered_elsewhere=True)
    exp = R.expand(stmts)
    if R.has_symbolic(exp):
        raise Reject('symbolic covariate (needs a model)')
    funcs = guard(mf.convert_to_funcs, allowed=(), clause='convert_to_funcs')
    want = R.func_keys(exp)
    got = list(funcs.keys())
    if set(got) != want or len(got) != len(want):
        raise Violation('convert_to_funcs:keys', observed=_show(set(got) - want) + ['missing:'] + _show(want - set(got)), expected=_show(want), detail=f'{text!r}')
    for k, fn in funcs.items():
        if not callable(fn):
            raise Violation('convert_to_funcs:not-callable', observed=repr(k))
        if k[0] == 'PERIPHERALS' and getattr(fn, 'keywords', {}).get('n') != k[1]:
            raise Violation('convert_to_funcs:peripheral-count', observed=repr(getattr(fn, 'keywords', None)), expected=k[1])
    cl, ncat = _string_classes(text, stmts, spec)
    evals = 1
    # ---- all combinations: bounded to <= 200 by dropping keys of the largest category --------
    keys = sorted(got, key=repr)
    drop = [i for i in spec.get('drop', []) if isinstance(i, int)] if isinstance(spec.get('drop', []), list) else []
    for i in drop[:4]:
        if len(keys) > 1:
            keys.pop(i % len(keys))
    while R.n_combinations(keys) > 200:
        cnt = collections.Counter(k[0] for k in keys)
        big = max(sorted(cnt), key=lambda c: cnt[c])
        keys.remove([k for k in keys if k[0] == big][-1])
    sub = {k: funcs[k] for k in sorted(keys, key=lambda x: (x[0], x[1]))}  # caller order (filter_mfl_statements)
    combos = guard(lambda: list(all_combinations(sub)), allowed=(), clause='all_combinations')
    want_c = collections.Counter(R.all_combinations(sub.keys()))
    got_c = collections.Counter()
    for c in combos:
        if len(set(c)) != len(c):
            raise Violation('all_combinations:repeated-feature', observed=repr(c))
        got_c[frozenset(c)] += 1
    if got_c != want_c:
        dup = [sorted(map(repr, c)) for c, n in got_c.items() if n > 1][:3]
        miss = [sorted(map(repr, c)) for c in want_c if c not in got_c][:3]
        extra = [sorted(map(repr, c)) for c in got_c if c not in want_c][:3]
        raise Violation('all_combinations:' + ('duplicate' if dup else 'missing' if miss else 'extra'), observed=dict(duplicates=dup, missing=miss, extra=extra), expected=len(want_c), detail=f'features {list(sub)}')
    evals += 1
    # ---- exhaustive(): one candidate task per combination -----------------------------------
    kind, res = _call(exhaustive, sub, 'no_add', clause='exhaustive')
    if kind != 'ok':
        raise Violation('exhaustive:refused', detail=str(res))
    wf, model_tasks = res
    cand = [t for t in wf.tasks if t.function is create_candidate_exhaustive]
    names = [t.task_input[0] for t in cand]
    if len(set(names)) != len(names):
        raise Violation('exhaustive:names-not-unique', observed=[n for n, c in collections.Counter(names).items() if c > 1][:5])
    got_e = collections.Counter(frozenset(t.task_input[1]) for t in cand)
    if got_e != want_c:
        raise Violation('exhaustive:candidates', observed=len(cand), expected=len(want_c), detail=f'features {list(sub)}')
    for t in cand:
        if set(t.task_input[2]) != {sub[f] for f in t.task_input[1]}:
            raise Violation('exhaustive:functions-do-not-match-combination', observed=repr(t.task_input[1]))
        if wf.get_predecessors(t):
            raise Violation('exhaustive:candidate-not-created-from-input-model', observed=t.task_input[0])
        if len(wf.get_successors(t)) != 1:
            raise Violation('exhaustive:candidate-not-fitted-exactly-once', observed=t.task_input[0])
    if len(model_tasks) != len(cand):
        raise Violation('exhaustive:model-tasks', observed=len(model_tasks), expected=len(cand))
    evals += 1
    ngroups = len({k[0] for k in sub})
    cl.add(f'combos<={10 ** len(str(len(want_c)))}')
    nt = ngroups >= 3 and len(want_c) >= 8
    return CaseInfo(nontrivial=nt, classes=tuple(sorted(cl)), key=repr(sorted(map(repr, sub))), render=dict(text=text, features=[list(k) for k in sub], combinations=len(want_c)), evals=evals)


# ==========================================================================================
# (v) stepwise algorithms

MAX_NODES = 400


def _stepwise_keys(spec):
    """(reference only) search space + base model -> feature keys exactly as modelsearch passes
    them to the algorithms (filter_mfl_statements: keys of the base model removed, sorted by
    (category, first argument)), bounded to MAX_NODES tree nodes by dropping the last key of
    the largest category"""
    s = spec.get('s') if isinstance(spec.get('s'), dict) else {}
    text = G.render(s, plain=True)
    if not text:
        raise Reject('empty space')
    stmts = _ref_statements(text)
    exp = R.expand(stmts)
    if R.met_peripherals(exp):
        exp = dict(exp, PERIPHERALS=R.drug_peripherals(exp) or frozenset([R.DEFAULTS['PERIPHERALS']]))
    base = [i for i in spec.get('base', []) if isinstance(i, int)] if isinstance(spec.get('base', []), list) else []
    base = (base + [0] * 5)[:5]
    keys_all = R.func_keys({**R.empty_space(), **{c: exp[c] for c in R.PK_CATEGORIES}})
    base_keys = set()
    for c, i in zip(R.PK_CATEGORIES, base):
        opts = sorted((k for k in keys_all if k[0] == c), key=repr)
        base_keys.add(opts[i % len(opts)])
    keys = sorted((k for k in keys_all if k not in base_keys), key=repr)
    keys.sort(key=lambda k: (k[0], k[1]))
    while True:
        full = R.stepwise_paths(keys, strict=False, cap=MAX_NODES)
        if full is not None or not keys:
            break
        cnt = collections.Counter(k[0] for k in keys)
        big = max(sorted(cnt), key=lambda c: cnt[c])
        keys.remove([k for k in keys if k[0] == big][-1])
    return text, stmts, base_keys, keys, full


def _stepwise_funcs(spec):
    text, stmts, base_keys, keys, full = _stepwise_keys(spec)
    mf = _parse_checked(text, stmts, covered_elsewhere=True)
    funcs = guard(mf.convert_to_funcs, allowed=(), clause='convert_to_funcs')
    if any(k not in funcs for k in keys):
        raise Reject('convert_to_funcs lacks an expected key (covered by funcs)')
    return text, base_keys, keys, funcs, full


def _tree_paths(wf, fn):
    """every create_candidate task -> (name, tuple of features from the root)"""
    out = []
    for t in wf.tasks:
        if t.function is not fn:
            continue
        path = [t.task_input[1]]
        cur = t
        while True:
            preds = wf.get_predecessors(cur)
            if not preds:
                break
            if len(preds) != 1:
                raise Violation('exhaustive_stepwise:task-with-several-parents', observed=cur.name)
            cur = preds[0]
            if cur.function is fn:
                path.append(cur.task_input[1])
        out.append((t.task_input[0], t.name, tuple(reversed(path))))
    return out


def _upstream_features(wf, t, fn):
    seen, stack, feats = set(), list(wf.get_predecessors(t)), set()
    while stack:
        cur = stack.pop()
        if id(cur) in seen:
            continue
        seen.add(id(cur))
        if cur.function is fn:
            feats.add(cur.task_input[1])
        stack.extend(wf.get_predecessors(cur))
    return frozenset(feats)


def _path_rule_violation(path, keys):
    """which documented rule does the path break? (for clause names)"""
    prev = set()
    for f in path:
        if f in prev:
            return 'feature-twice'
        if f[0] == 'PERIPHERALS':
            if not R.step_allowed(f, prev, keys, strict=False):
                return 'peripherals-not-sequential'
        else:
            if any(p[0] == f[0] for p in prev):
                return 'two-features-of-one-category'
            if f in R.COMMENTED_NEVER:
                return 'transits0-nodepot-is-a-step'
            if not R.step_allowed(f, prev, keys, strict=False):
                return 'excluded-combination'
        prev.add(f)
    return None


def _position_independent(alg, nodes, keys, ctx):
    """nodes: (set of previous features, new feature).  Whether a non-peripheral feature may be
    added must not depend on the path being empty: it is accepted as first step iff it is
    accepted after some non-empty set of features with which the pairwise rules allow it
    (no rule, documented or in the code, mentions the position on the path)."""
    nodeset = set(nodes)
    states = {s for s, _ in nodeset if s}
    for f in keys:
        if f[0] == 'PERIPHERALS':
            continue
        later = [s for s in states if R.step_allowed(f, s, keys, strict=True, never=False)]
        if not later:
            continue
        first = (frozenset(), f) in nodeset
        after = any((s, f) in nodeset for s in later)
        if first != after:
            raise Violation(
                f'{alg}:step-depends-on-empty-path', observed=dict(feature=list(f), accepted_as_first_step=first, accepted_later=after),
                detail=f'{ctx}: {list(f)} is {"accepted" if first else "rejected"} as the first step but {"accepted" if after else "rejected"} after {_show(sorted(later, key=lambda x: (len(x), repr(x)))[0])}',
            )


def run_stepwise(spec):
    from pharmpy.tools.mfl.helpers import key_to_str
    from pharmpy.tools.modelsearch.algorithms import create_candidate_stepwise, exhaustive_stepwise, reduced_stepwise

    text, base_keys, keys, funcs, full = _stepwise_funcs(spec)
    if not keys:
        raise Reject('nothing to search')
    sub = {k: funcs[k] for k in keys}
    ctx = f'space={text!r} base={sorted(map(repr, base_keys))} features={keys}'
    must = set(R.stepwise_paths(keys, strict=True))
    may = set(full)
    cl = set()
    evals = 0
    which = spec.get('alg', 0) if isinstance(spec.get('alg', 0), int) else 0
    if which % 3 != 2:
        kind, res = _call(exhaustive_stepwise, dict(sub), 'no_add', clause='exhaustive_stepwise')
        if kind != 'ok':
            raise Violation('exhaustive_stepwise:refused', detail=f'{ctx}: {res}')
        wf, model_tasks = res
        nodes = _tree_paths(wf, create_candidate_stepwise)
        names = [n for n, _, _ in nodes]
        if len(set(names)) != len(names):
            raise Violation('exhaustive_stepwise:names-not-unique', observed=[n for n, c in collections.Counter(names).items() if c > 1][:5], detail=ctx)
        for n, tname, p in nodes:
            if tname != key_to_str(p[-1]):
                raise Violation('exhaustive_stepwise:task-name', observed=tname, expected=key_to_str(p[-1]))
        cnt = collections.Counter(p for _, _, p in nodes)
        for p, c in cnt.items():
            if p not in may:
                raise Violation('exhaustive_stepwise:' + (_path_rule_violation(p, keys) or 'unexpected-path'), observed=[list(f) for f in p], detail=ctx)
        _position_independent('exhaustive_stepwise', [(frozenset(p[:-1]), p[-1]) for p in cnt], keys, ctx)
        dup = [p for p, c in cnt.items() if c > 1]
        if dup:
            raise Violation('exhaustive_stepwise:path-twice', observed=[list(f) for f in dup[0]], detail=ctx)
        missing = sorted(must - set(cnt), key=lambda p: (len(p), repr(p)))
        if missing:
            raise Violation('exhaustive_stepwise:path-missing', observed=[list(f) for f in missing[0]], expected=len(must), detail=ctx)
        if len(model_tasks) != len(nodes):
            raise Violation('exhaustive_stepwise:model-tasks', observed=len(model_tasks), expected=len(nodes))
        evals += 1
        cl.add('exhaustive_stepwise')
    if which % 3 != 1:
        kind, res = _call(reduced_stepwise, dict(sub), 'no_add', clause='reduced_stepwise')
        if kind != 'ok':
            raise Violation('reduced_stepwise:refused', detail=f'{ctx}: {res}')
        wf, model_tasks = res
        cand = [t for t in wf.tasks if t.function is create_candidate_stepwise]
        names = [t.task_input[0] for t in cand]
        if len(set(names)) != len(names):
            raise Violation('reduced_stepwise:names-not-unique', observed=[n for n, c in collections.Counter(names).items() if c > 1][:5], detail=ctx)
        got = collections.Counter((_upstream_features(wf, t, create_candidate_stepwise), t.task_input[1]) for t in cand)
        must_r = set(R.reduced_nodes(keys, strict=True))
        may_r = set(R.reduced_nodes(keys, strict=False))
        for (s, f), c in got.items():
            if (s, f) not in may_r:
                rule = None
                if f in s:
                    rule = 'feature-twice'
                elif f[0] == 'PERIPHERALS':
                    rule = 'peripherals-not-sequential'
                elif any(p[0] == f[0] for p in s):
                    rule = 'two-features-of-one-category'
                elif f in R.COMMENTED_NEVER:
                    rule = 'transits0-nodepot-is-a-step'
                elif not R.step_allowed(f, s, keys, strict=False):
                    rule = 'excluded-combination'
                raise Violation('reduced_stepwise:' + (rule or 'unexpected-node'), observed=dict(previous=_show(s), new=list(f)), detail=ctx)
        _position_independent('reduced_stepwise', list(got), keys, ctx)
        dup = [(s, f) for (s, f), c in got.items() if c > 1]
        if dup:
            s, f = sorted(dup, key=lambda x: (len(x[0]), repr(x)))[0]
            raise Violation('reduced_stepwise:same-features-not-merged', observed=dict(previous=_show(s), new=list(f), times=got[(s, f)]), detail=f'{ctx}: models with the same features reached in different orders must be compared and only the best continued')
        missing = sorted(must_r - set(got), key=lambda x: (len(x[0]), repr(x)))
        if missing:
            raise Violation('reduced_stepwise:node-missing', observed=dict(previous=_show(missing[0][0]), new=list(missing[0][1])), detail=ctx)
        if len(model_tasks) != len(cand):
            raise Violation('reduced_stepwise:model-tasks', observed=len(model_tasks), expected=len(cand))
        evals += 1
        cl.add('reduced_stepwise')
    cats = {k[0] for k in keys}
    nper = sum(1 for k in keys if k[0] == 'PERIPHERALS')
    excl = len(may) < len(R_unrestricted_count(keys))
    if nper >= 2:
        cl.add('peripheral-chain>=2')
    if nper >= 3:
        cl.add('peripheral-chain>=3')
    if excl:
        cl.add('has-excluded-combination')
    if len(must) != len(may):
        cl.add('undocumented-exclusion-applies')
    if ('TRANSITS', 0, 'NODEPOT') in keys:
        cl.add('transits0-nodepot-among-features')
    cl.add(f'nodes<={10 ** len(str(len(may)))}')
    nt = len(cats) >= 2 and (nper >= 2 or excl)
    return CaseInfo(nontrivial=nt, classes=tuple(sorted(cl)), key=repr(keys), render=dict(space=text, features=[list(k) for k in keys], nodes=len(may)), evals=max(1, evals))


def R_unrestricted_count(keys):
    """paths when only 'one feature per category' and the peripheral rule apply (no exclusion
    table): used to label cases where the table matters"""
    keys = list(keys)
    out = []
    frontier = [()]
    while frontier and len(out) <= MAX_NODES * 50:
        nxt = []
        for path in frontier:
            prev = set(path)
            for f in keys:
                if f in prev:
                    continue
                if f[0] == 'PERIPHERALS':
                    ok = R.step_allowed(f, prev, keys, strict=False)
                else:
                    ok = not any(p[0] == f[0] for p in prev)
                if ok:
                    nxt.append(path + (f,))
        out.extend(nxt)
        frontier = nxt
    return out


# ==========================================================================================
# (vi) partitions / subsets

ELEMENT_POOL = ['ETA_CL', 'ETA_VC', 'ETA_MAT', 'ETA_KA', 'ETA_Q', 'ETA_VP', 'ETA_X']


def _elements(spec):
    n = spec.get('n', 0) if isinstance(spec.get('n', 0), int) else 0
    n = n % 7
    perm = [i for i in spec.get('perm', []) if isinstance(i, int)] if isinstance(spec.get('perm', []), list) else []
    kind = spec.get('kind', 0) if isinstance(spec.get('kind', 0), int) else 0
    pool = list(ELEMENT_POOL) if kind % 2 == 0 else list(range(1, 8))
    # permutation by repeated selection (total for every int list)
    out = []
    for i in range(n):
        j = perm[i] % len(pool) if i < len(perm) else 0
        out.append(pool.pop(j))
    return out


def run_sets(spec):
    from pharmpy.internals.set.partitions import partitions
    from pharmpy.internals.set.subsets import non_empty_proper_subsets, non_empty_subsets, subsets

    el = _elements(spec)
    n = len(el)
    evals = 0
    # ---- partitions -----------------------------------------------------------------------
    got = guard(lambda: list(partitions(el)), allowed=(), clause='partitions')
    if len(got) != R.bell(n):
        raise Violation('partitions:count', observed=len(got), expected=R.bell(n), detail=f'elements {el}')
    as_sets = [frozenset(frozenset(p) for p in part) for part in got]
    if len(set(as_sets)) != len(as_sets):
        raise Violation('partitions:duplicate', detail=f'elements {el}')
    if set(as_sets) != set(R.set_partitions(el)):
        raise Violation('partitions:not-all-partitions', detail=f'elements {el}')
    for part in got:
        if not isinstance(part, tuple) or not all(isinstance(p, tuple) for p in part):
            raise Violation('partitions:not-tuples', observed=repr(part))
        if sum(len(p) for p in part) != n:
            raise Violation('partitions:element-repeated-or-lost', observed=repr(part))
        # canonical: shortlex sorted tuple of tuples (docstring)
        if list(part) != sorted(part, key=lambda p: (len(p), p)):
            raise Violation('partitions:not-canonical', observed=repr(part), detail='parts are not shortlex sorted')
    keyf = lambda x: (len(x), tuple(map(len, x)), x)  # noqa: E731  "ordered by length, then length of parts, and finally lexicographically"
    if got != sorted(got, key=keyf):
        raise Violation('partitions:order', detail=f'elements {el}')
    evals += 1
    # ---- subsets ----------------------------------------------------------------------------
    for lo in range(0, n + 2):
        for hi in list(range(0, n + 2)) + [-1, -2, -3]:
            got = guard(lambda: list(subsets(el, min_size=lo, max_size=hi)), allowed=(), clause='subsets')
            eff_hi = n + hi + 1 if hi < 0 else hi
            want = R.powerset(el, lo, eff_hi) if eff_hi >= 0 else []
            gs = [frozenset(s) for s in got]
            if any(len(s) != len(g) for s, g in zip(got, gs)) or len(set(gs)) != len(gs) or set(gs) != set(want):
                raise Violation('subsets', observed=[list(s) for s in got][:20], expected=len(want), detail=f'elements {el} min_size={lo} max_size={hi}')
            # documented order: by size, then in the order of the input (itertools.combinations)
            want_order = [tuple(c) for r in range(lo, min(eff_hi, n) + 1) for c in itertools.combinations(el, r)] if eff_hi >= 0 else []
            if [tuple(s) for s in got] != want_order:
                raise Violation('subsets:order', observed=[list(s) for s in got][:20], detail=f'elements {el} min_size={lo} max_size={hi}')
            evals += 1
    got = [frozenset(s) for s in guard(lambda: list(non_empty_subsets(el)), allowed=(), clause='non_empty_subsets')]
    if collections.Counter(got) != collections.Counter(R.powerset(el, 1, n)):
        raise Violation('non_empty_subsets', observed=len(got), expected=2**n - 1, detail=f'elements {el}')
    got = [frozenset(s) for s in guard(lambda: list(non_empty_proper_subsets(el)), allowed=(), clause='non_empty_proper_subsets')]
    if collections.Counter(got) != collections.Counter(R.powerset(el, 1, n - 1)):
        raise Violation('non_empty_proper_subsets', observed=len(got), expected=max(0, 2**n - 2), detail=f'elements {el}')
    evals += 2
    return CaseInfo(nontrivial=n >= 3, classes=(f'n={n}', 'ints' if el and isinstance(el[0], int) else 'strings'), key=repr(el), render=dict(elements=el, bell=R.bell(n)), evals=evals)


def enum_sets(tier):
    for n in range(0, 7):
        for kind in (0, 1):
            yield dict(n=n, perm=[0] * n, kind=kind)  # sorted input
            if n >= 2:
                yield dict(n=n, perm=list(range(n - 1, -1, -1)), kind=kind)  # reversed input


# ==========================================================================================
# (vi') iivsearch brute force builders


def _build_iiv_model(n, blocks, fixed):
    from pharmpy.basic import Expr
    from pharmpy.model import Assignment, JointNormalDistribution, Model, NormalDistribution, Parameter, Parameters, RandomVariables, Statements

    params, sts, dists = [], [], []
    for i in range(1, n + 1):
        params.append(Parameter.create(f'TH{i}', 1.0, lower=0))
        sts.append(Assignment.create(Expr.symbol(f'P{i}'), Expr.symbol(f'TH{i}') * Expr.symbol(f'ETA{i}').exp()))
    for blk in blocks:
        fx = all(i in fixed for i in blk)
        if len(blk) == 1:
            i = blk[0]
            params.append(Parameter.create(f'OM{i}{i}', 0.1, fix=fx))
            dists.append(NormalDistribution.create(f'ETA{i}', 'iiv', 0, Expr.symbol(f'OM{i}{i}')))
        else:
            mat = [[None] * len(blk) for _ in blk]
            for a, i in enumerate(blk):
                for b, j in enumerate(blk):
                    if b <= a:
                        nm = f'OM{i}{j}'
                        mat[a][b] = mat[b][a] = Expr.symbol(nm)
                        params.append(Parameter.create(nm, 0.1 if i == j else 0.01, fix=fx))
            dists.append(JointNormalDistribution.create([f'ETA{i}' for i in blk], 'iiv', [0] * len(blk), mat))
    params.append(Parameter.create('SI', 0.1))
    dists.append(NormalDistribution.create('EPS1', 'ruv', 0, Expr.symbol('SI')))
    y = Expr.symbol('EPS1')
    for i in range(1, n + 1):
        y = y + Expr.symbol(f'P{i}')
    sts.append(Assignment.create(Expr.symbol('Y'), y))
    return Model.create(
        name='base', parameters=Parameters.create(params), random_variables=RandomVariables.create(dists),
        statements=Statements(sts), dependent_variables={Expr.symbol('Y'): 1},
    )


def _iiv_plan(spec):
    """n etas ETA1..ETAn; blocks = consecutive runs given by cut positions; fixed = whole blocks"""
    n = (spec.get('n', 1) if isinstance(spec.get('n', 1), int) else 1) % 6 + 1
    cuts = [c for c in spec.get('cuts', []) if isinstance(c, int)] if isinstance(spec.get('cuts', []), list) else []
    cutset = {c % n for c in cuts if c % n}
    blocks, cur = [], []
    for i in range(1, n + 1):
        cur.append(i)
        if i in cutset or i == n:
            blocks.append(cur)
            cur = []
    fx = [f for f in spec.get('fixed', []) if isinstance(f, int)] if isinstance(spec.get('fixed', []), list) else []
    fixed_blocks = {f % len(blocks) for f in fx[:2]}
    fixed = {i for bi in fixed_blocks for i in blocks[bi]}
    if len(fixed) == n:
        fixed = set()
    off = (spec.get('offset', 0) if isinstance(spec.get('offset', 0), int) else 0) % 50
    return n, blocks, fixed, off


def run_iiv_builders(spec):
    from pharmpy.tools.iivsearch.algorithms import (
        create_block_structure_candidate_entry,
        create_no_of_etas_candidate_entry,
        td_exhaustive_block_structure,
        td_exhaustive_no_of_etas,
    )

    n, blocks, fixed, off = _iiv_plan(spec)
    model = guard(_build_iiv_model, n, blocks, fixed, allowed=(), clause='build-model', internal_is_violation=False)
    free = [f'ETA{i}' for i in range(1, n + 1) if i not in fixed]
    ctx = f'n={n} blocks={blocks} fixed={sorted(fixed)} index_offset={off}'
    # ---- number of etas: one candidate per non-empty subset of the non-fixed etas ---------------
    wf = guard(td_exhaustive_no_of_etas, model, index_offset=off, allowed=(), clause='td_exhaustive_no_of_etas')
    cand = [t for t in wf.tasks if t.function is create_no_of_etas_candidate_entry]
    names = [t.task_input[0] for t in cand]
    got = collections.Counter(frozenset(t.task_input[1]) for t in cand)
    want = collections.Counter(R.powerset(free, 1, len(free)))
    if got != want:
        raise Violation('td_exhaustive_no_of_etas:candidates', observed=sorted(sorted(s) for s in got)[:10], expected=len(want), detail=ctx)
    if any(len(t.task_input[1]) != len(set(t.task_input[1])) for t in cand):
        raise Violation('td_exhaustive_no_of_etas:eta-repeated', detail=ctx)
    if len(set(names)) != len(names):
        raise Violation('td_exhaustive_no_of_etas:names-not-unique', observed=names[:10], detail=ctx)
    if sorted(names, key=lambda s: int(s.rsplit('run', 1)[1])) != [f'iivsearch_run{i + off}' for i in range(1, len(cand) + 1)]:
        raise Violation('td_exhaustive_no_of_etas:names', observed=names[:10], detail=ctx)
    # ---- block structure: one candidate per partition except the structure of the base ---------
    wf = guard(td_exhaustive_block_structure, model, index_offset=off, allowed=(), clause='td_exhaustive_block_structure')
    cand = [t for t in wf.tasks if t.function is create_block_structure_candidate_entry]
    names = [t.task_input[0] for t in cand]
    got = collections.Counter(frozenset(frozenset(p) for p in t.task_input[1]) for t in cand)
    base_structure = frozenset(frozenset(f'ETA{i}' for i in blk if i not in fixed) for blk in blocks) - {frozenset()}
    want = collections.Counter(p for p in R.set_partitions(free) if p != base_structure)
    if got != want:
        extra = [sorted(sorted(b) for b in p) for p in got if p not in want][:3]
        missing = [sorted(sorted(b) for b in p) for p in want if p not in got][:3]
        dup = [sorted(sorted(b) for b in p) for p, c in got.items() if c > 1][:3]
        raise Violation('td_exhaustive_block_structure:candidates', observed=dict(extra=extra, missing=missing, duplicate=dup), expected=len(want), detail=ctx)
    if len(set(names)) != len(names):
        raise Violation('td_exhaustive_block_structure:names-not-unique', observed=names[:10], detail=ctx)
    if names != [f'iivsearch_run{i + off}' for i in range(1, len(cand) + 1)]:
        raise Violation('td_exhaustive_block_structure:names', observed=names[:10], detail=ctx)
    cl = (f'n={n}', f'free={len(free)}', 'has-block' if any(len(b) > 1 for b in blocks) else 'diagonal', 'fixed' if fixed else 'no-fixed')
    return CaseInfo(nontrivial=len(free) >= 3, classes=cl, key=ctx, render=dict(n=n, blocks=blocks, fixed=sorted(fixed), subsets=2 ** len(free) - 1, partitions=R.bell(len(free))), evals=2)


def enum_iiv(tier):
    top = 6
    for n in range(1, top + 1):
        yield dict(n=n - 1, cuts=list(range(1, n)), fixed=[], offset=0)  # diagonal
        if n >= 2:
            yield dict(n=n - 1, cuts=[], fixed=[], offset=3)  # full block
            yield dict(n=n - 1, cuts=[1], fixed=[0], offset=0)  # ETA1 fixed, rest one block
        if n >= 3:
            yield dict(n=n - 1, cuts=[1, n - 1], fixed=[], offset=10)  # [1][2..n-1][n]
            yield dict(n=n - 1, cuts=[2], fixed=[1], offset=1)  # [1,2] [3..n] fixed


# ==========================================================================================
# strategies

PAIR = st.fixed_dictionaries(
    dict(a=G.space('algebra', 1, 6), b=G.space('algebra', 0, 4), share=st.lists(st.integers(0, 5), min_size=1, max_size=3), mode=st.integers(0, 9))
)
MODEL_SPACE = st.fixed_dictionaries(dict(m=G.model_features(), s=st.one_of(G.space('pk', 1, 6), G.space('pk', 2, 6), G.space('algebra', 1, 6))))
FUNCS = st.builds(lambda s, d: dict(s, drop=d), st.one_of(G.space('algebra', 1, 6), G.space('pk', 2, 6)), st.lists(st.integers(0, 20), max_size=4))
# a TRANSITS statement with count 0 and NODEPOT / both depots / '*' (range 0..k or list [0,...]) is
# appended to two thirds of the spaces: TRANSITS(0,NODEPOT) is the one feature that is never a step
_T0 = st.fixed_dictionaries(
    dict(
        k=st.just(G.K['TRANSITS']),
        a=st.one_of(st.integers(1, 3).map(lambda h: [0, h]), st.lists(st.integers(1, 5), max_size=2).map(lambda x: [0] + x)),
        b=st.sampled_from([[1], [0, 1], [1, 0]]),
        c=st.just([0]),
        f=st.sampled_from([G.F_WILD2, G.F_WILD2 | G.F_RANGE, G.F_RANGE, 0, G.F_BRACKET]),
    )
)
STEPWISE = st.builds(
    lambda s, extra, base, alg: dict(s=dict(s, st=s['st'] + extra), base=base, alg=alg),
    G.space('pk', 2, 7), st.sampled_from([0, 1, 1]).flatmap(lambda n: st.lists(_T0, min_size=n, max_size=n)),
    st.lists(st.integers(0, 5), min_size=5, max_size=5), st.integers(0, 2),
)
SETS = st.fixed_dictionaries(dict(n=st.integers(0, 6), perm=st.lists(st.integers(0, 6), min_size=6, max_size=6), kind=st.integers(0, 1)))
IIV = st.fixed_dictionaries(
    dict(n=st.integers(0, 5), cuts=st.lists(st.integers(0, 5), max_size=4), fixed=st.lists(st.integers(0, 3), max_size=2), offset=st.integers(0, 20))
)

SUBCHECKS = [
    SubCheck('roundtrip', lambda: st.one_of(G.space('full', 1, 7), G.space('full', 3, 8)), run_roundtrip, quick=5000, thorough=25320),
    SubCheck('add', lambda: PAIR, run_add, quick=2000, thorough=10130),
    SubCheck('sub', lambda: PAIR, run_sub, quick=2000, thorough=10130),
    SubCheck('eq', lambda: PAIR, run_eq, quick=2000, thorough=10130),
    SubCheck('eq_statement', lambda: PAIR, run_eq_statement, quick=300, thorough=1520),
    SubCheck('subset_lnt', lambda: PAIR, run_subset, quick=2000, thorough=10130),
    SubCheck('model_vs_space', lambda: MODEL_SPACE, run_model_vs_space, quick=3000, thorough=15200),
    SubCheck('funcs', lambda: FUNCS, run_funcs, quick=800, thorough=4050),
    SubCheck('stepwise', lambda: STEPWISE, run_stepwise, quick=300, thorough=1520),
    SubCheck('sets', lambda: SETS, run_sets, quick=150, thorough=760, enumerate=enum_sets, describe='exhaustive for n<=6 (sorted and reversed input, string and int elements) + random orders'),
    SubCheck('iiv_builders', lambda: IIV, run_iiv_builders, quick=48, thorough=240, enumerate=enum_iiv, describe='n<=6 etas: diagonal, full block, mixed blocks, fixed etas'),
]


# ==========================================================================================
# known-finding predicates (on the spec)


def _kinds_with(spec_space, pred):
    return {d['kind'] for d in (G.describe(s) for s in spec_space.get('st', [])) if pred(d)}


def _pred_allometry(spec):
    return bool(_kinds_with(spec, lambda d: d['kind'] == 'ALLOMETRY'))


def _pred_allometry_no_reference(spec):
    return bool(_kinds_with(spec, lambda d: d.get('no_reference')))


def _pred_cov_wildcard_with_explicit(spec):
    """a COVARIATE statement with '*' as parameter or covariate whose other one is explicit or a
    LET-defined reference (i.e. explicit after substitution)"""
    ds = [G.describe(s) for s in spec.get('st', [])]
    let = {d['let'][0] for d in ds if d['kind'] == 'LET'}
    for d in ds:
        if d['kind'] == 'COVARIATE':
            (pk, pv), (ck, cv) = d['cov']['parameter'], d['cov']['covariate']
            other = (ck, cv) if pk == 'wild' else (pk, pv) if ck == 'wild' else None
            if other is not None and (other[0] != 'ref' or other[1][0] in let):
                return True
    return False


def _pair_spaces(spec):
    sa, sb = _pair_specs(spec)
    return sa, sb, R.parse_mfl(G.render(sa)), R.parse_mfl(G.render(sb))


def _pred_pair_peripheral_wildcard(spec):
    sa, sb = _pair_specs(spec)
    return any(G.describe(s)['kind'] == 'PERIPHERALS' and G.describe(s).get('wild') for sp in (sa, sb) for s in sp.get('st', []))


def _pred_space_peripheral_wildcard(spec):
    return any(G.describe(s)['kind'] == 'PERIPHERALS' and G.describe(s).get('wild') for s in spec.get('s', {}).get('st', []))


def _pred_eq_only_rhs_covariates_or_metabolite(spec):
    """A == B where the spaces differ only by covariate effects that B has and A lacks and/or by
    the metabolite category (the two things ModelFeatures.__eq__ does not look at)"""
    _, _, ea, eb = _pair_spaces(spec)
    diff = set(R.differing_categories(ea, eb))
    return bool(diff) and diff <= {'COVARIATE', 'METABOLITE'} and ea['COVARIATE'] <= eb['COVARIATE']


def _statement_sequences(sp, kind):
    """the statements of one kind as written: list of (frozenset(first options), frozenset(second options))"""
    out = []
    for s in sp.get('st', []):
        d = G.describe(s)
        if d['kind'] == kind:
            out.append((frozenset(a[1] for a in d['atoms']), frozenset(a[2] for a in d['atoms']), d.get('wild', False)))
    return out


def _pred_eq_peripherals_written_differently(spec):
    """both operands denote the same space but their PERIPHERALS statements differ as written
    (number, order or grouping of statements)"""
    sa, sb = _pair_specs(spec)
    return _statement_sequences(sa, 'PERIPHERALS') != _statement_sequences(sb, 'PERIPHERALS')


def _pred_eq_indirecteffect_written_differently(spec):
    sa, sb = _pair_specs(spec)
    ra = [[G.describe(s)['args'] for s in sp.get('st', []) if G.describe(s)['kind'] == 'INDIRECTEFFECT'] for sp in (sa, sb)]
    return ra[0] != ra[1]


def _pred_space_transits_not_product(spec):
    es = R.parse_mfl(G.render(spec.get('s', {})))
    return not R.is_rectangular(es['TRANSITS'])


def _pred_stepwise_three_peripherals(spec):
    keys = _stepwise_keys(spec)[3]
    return sum(1 for k in keys if k[0] == 'PERIPHERALS') >= 3


def _pred_reduced_single_group(spec):
    """in the documented reduced stepwise process some layer has exactly one set of features that
    is reached by two or more orders and can still be extended"""
    keys = _stepwise_keys(spec)[3]
    layer = {frozenset()}
    while layer:
        reached = collections.Counter()
        for s in layer:
            for f in keys:
                if R.step_allowed(f, s, keys, strict=True):
                    reached[s | {f}] += 1
        groups = [s for s, n in reached.items() if n > 1 and any(R.step_allowed(f, s, keys, strict=True) for f in keys)]
        if len(groups) == 1:
            return True
        layer = set(reached)
    return False


def _pred_sub_pd_category_emptied(spec):
    """A - B where a DIRECTEFFECT / EFFECTCOMP / METABOLITE category of A is a proper subset of B's"""
    _, _, ea, eb = _pair_spaces(spec)
    return any(ea[c] and ea[c] < eb[c] for c in ('DIRECTEFFECT', 'EFFECTCOMP', 'METABOLITE'))


def _pred_pair_simple_wildcard(spec):
    sa, sb = _pair_specs(spec)
    return bool(_simple_wildcards(sa, sb) & {'ABSORPTION', 'ELIMINATION', 'LAGTIME', 'METABOLITE'})


KNOWN_PREDICATES = {
    'allometry': _pred_allometry,
    'allometry_no_reference': _pred_allometry_no_reference,
    'cov_wildcard_with_explicit': _pred_cov_wildcard_with_explicit,
    'pair_simple_wildcard': _pred_pair_simple_wildcard,
    'pair_peripheral_wildcard': _pred_pair_peripheral_wildcard,
    'space_peripheral_wildcard': _pred_space_peripheral_wildcard,
    'eq_only_rhs_covariates_or_metabolite': _pred_eq_only_rhs_covariates_or_metabolite,
    'sub_pd_category_emptied': _pred_sub_pd_category_emptied,
    'space_transits_not_product': _pred_space_transits_not_product,
    'stepwise_three_peripherals': _pred_stepwise_three_peripherals,
    'reduced_single_group': _pred_reduced_single_group,
    'eq_peripherals_written_differently': _pred_eq_peripherals_written_differently,
    'eq_indirecteffect_written_differently': _pred_eq_indirecteffect_written_differently,
}


# ==========================================================================================
# oracle self-check


def selfcheck():
    # the reference must be independent of pharmpy
    import re

    if re.search(r'^\s*(import|from)\s+(pharmpy|lark)', open(R.__file__).read(), re.M):
        raise HarnessError('pv/ref/mflset.py imports pharmpy/lark')
    # reference string parser vs direct evaluation of generated specs
    from hypothesis import HealthCheck, Phase, given, seed, settings

    n = [0]

    @seed(12345)
    @settings(max_examples=300, database=None, deadline=None, phases=[Phase.generate], suppress_health_check=list(HealthCheck))
    @given(G.space('full', 1, 7))
    def t(spec):
        text = G.render(spec)
        got = R.parse_mfl(text, defaults=False)
        want = G.direct_space(spec)
        for c in R.CATEGORIES:
            if got[c] != want.get(c, frozenset()):
                raise HarnessError(f'reference parser disagrees with direct expansion on {text!r}: {c}: {sorted(map(repr, got[c]))} vs {sorted(map(repr, want.get(c, [])))}')
        if R.parse_mfl(G.render(spec, plain=True), defaults=False) != got:
            raise HarnessError(f'formatting changes the reference expansion of {text!r}')
        n[0] += 1

    t()
    # documented examples (mfl.rst)
    a = R.parse_mfl('TRANSITS(0)\nTRANSITS(1)\nTRANSITS(2)\nTRANSITS(3)')
    if not (a == R.parse_mfl('TRANSITS(0..3)') == R.parse_mfl('TRANSITS([0, 1, 2, 3])')):
        raise HarnessError('reference: documented interval equivalence fails')
    if R.parse_mfl('ABSORPTION(FO)\nABSORPTION([FO, ZO])') != R.parse_mfl('ABSORPTION([FO, ZO])'):
        raise HarnessError('reference: documented redundancy equivalence fails')
    if [R.bell(i) for i in range(8)] != [1, 1, 2, 5, 15, 52, 203, 877]:
        raise HarnessError('reference: Bell numbers')
    if any(len(R.set_partitions(range(i))) != R.bell(i) for i in range(7)):
        raise HarnessError('reference: set partitions')
    # documented stepwise example (modelsearch.rst): 3 independent features -> 15 nodes, reduced 12
    k = [('ABSORPTION', 'ZO'), ('ELIMINATION', 'MM'), ('PERIPHERALS', 1)]
    if len(R.stepwise_paths(k, True)) != 15 or len(R.reduced_nodes(k, True)) != 12:
        raise HarnessError('reference: documented stepwise example')
