"""C08 -- Structural feature setters: detectable, idempotent, reversible, total.

A case is a start model of the corpus plus a SEQUENCE of feature requests.  Requests come from the
MFL feature table (`ModelFeatures.create_from_mfl_string(MFL).convert_to_funcs()`: every key is in
the alphabet, checked by `selfcheck`) plus the add/remove functions of pharmpy.modeling.  A refused
request leaves the model unchanged and the sequence goes on.  After each request the oracle checks

  not-total    the call returns a Model or raises a documented refusal (ValueError,
               NotImplementedError, ModelError/ModelSyntaxError); anything else is a violation
               `not-total:<fn>:<Type>@<frame>`;
  detect       the detector of the request's category reports the requested value (has_* /
               get_number_of_* / has_lag_time / get_bioavailability) and get_model_features(m')
               parses to a space containing it (documented ambiguity: one single transit
               compartment is a depot);
  doses-changed / dose-does-not-reach-central / lag-or-bioavailability-without-dose /
  undefined-symbol
               the returned model is a model: same administered doses (admid, amount) as before,
               every dose compartment reaches the central compartment, lag time / bioavailability
               only on compartments that receive a dose, every symbol the model function reads has
               a definition;
  other-category-changed
               categories of another MFL group (absorption + delay + dose attributes / elimination
               / distribution) are unchanged; other changes inside the absorption group are either a
               documented coupling (table COUPLINGS, with the quoted sentence) or counted as class
               `undocumented-coupling:<f>:<category>` -- never flagged;
  dose-attribute-changed:<fn>:LAGTIME|BIO
               lag time and bioavailability of the first dose compartment survive every request of
               the absorption group unless the request documents otherwise (COUPLINGS);
  idempotence  f(f(m)) has the same detectors and is function-equivalent to f(m) (pv.modeleval at
               two sample points; a one-to-one renaming of parameters is not a change);
  reversible   for the documented inverse pairs (add/remove peripheral, lag time, bioavailability;
               transits n -> 0; ZO/MM/MIX -> FO elimination; absorption back to INST), undo(f(m))
               has the parameters / random variables / compartments of m and is function-equivalent
               to m when both get the same values ("up to initial estimates"); asserted only on
               histories that start from create_basic_pk_model models, without metabolite / PD
               extension, and when neither request is documented as not combinable with a feature
               the model has;
  codegen      m'.update_source() and m'.code succeed or refuse with a documented error.

After a metabolite / PD extension only not-total and codegen are asserted for further requests
(detectors and feature categories are defined for structural PK models), and at most one extension
is applied per history (what the structsearch tool does).
"""

from __future__ import annotations

import functools
import warnings

from hypothesis import strategies as st

from ..core import CaseInfo, HarnessError, Reject, SubCheck, Violation, guard

PROPERTY = 'C08'
LEVEL = 'exploration'
RULE = (
    'Start model from the corpus (basic_iv, basic_oral, pheno, mox2, pheno_advan3, mox_2comp, mox1) and a sequence of '
    '1..4 (quick) / 1..6 (thorough) feature requests [category, index] over the alphabet: all keys of the MFL table '
    'ABSORPTION(*);ELIMINATION(*);LAGTIME([ON,OFF]);TRANSITS([0,1,2,3,5],*);PERIPHERALS(0..3) plus add/remove_peripheral_compartment, '
    'add/remove_bioavailability (3 variants), add_metabolite (plain/presystemic), add_effect_compartment, set_direct_effect, '
    'add_indirect_effect. A refused request leaves the model unchanged and the sequence continues. Non-trivial = length >= 2, '
    'requests from >= 2 categories, all requests succeeded. Sub-check dose_attributes uses the same oracle with histories '
    '[optional absorption request] + [add_lag_time and/or add_bioavailability] + 1-2 absorption / transit requests.  Distinct = (start model, sequence of request labels). Classes hold the '
    'ordered category pair matrix (pair:A>B), refusals by function and message, documented / undocumented couplings.'
)
ASSUMPTIONS = [
    'pv.modeleval.evaluate is the meaning of a model at a point (statements executed in order, ODE compared through right-hand sides, doses, lag, bioavailability)',
    'ValueError / NotImplementedError / ModelError raised anywhere below a setter count as documented refusals (also when they come from model '
    'validation, e.g. "Symbol K21 is not defined"); they are counted in classes refusal:* and never flagged',
    'reversibility is asserted only for histories starting at create_basic_pk_model models (absorption: basic_iv only, setters never add IIVs)',
    'get_model_features is called with its covariate detection switched off (cost; COVARIATE statements are not part of this property)',
    'pharmpy results that depend on set iteration order are made reproducible by PYTHONHASHSEED=0 in worker processes only',
]

MFL = 'ABSORPTION(*);ELIMINATION(*);LAGTIME([ON,OFF]);TRANSITS([0,1,2,3,5],*);PERIPHERALS(0..3)'
STARTS = ['basic_iv', 'basic_oral', 'pheno', 'mox2', 'pheno_advan3', 'basic_oral', 'mox_2comp', 'basic_iv', 'mox1']
REV_STARTS = ('basic_iv', 'basic_oral')
CATS = ['ABSORPTION', 'ELIMINATION', 'TRANSITS', 'PERIPHERALS', 'LAGTIME', 'BIO', 'EXT']
# MFL groups (docs/mfl.rst: "features of the same category, i.e. absorption, absorption delay, elimination, and
# distribution"); bioavailability is an attribute of the dose compartment like lag time.
GROUP = {
    'ABSORPTION': 'absorption', 'TRANSITS': 'absorption', 'LAGTIME': 'absorption', 'BIO': 'absorption',
    'ELIMINATION': 'elimination', 'PERIPHERALS': 'distribution', 'EXT': 'ext',
}

# Documented couplings: (predicate on request, affected category, source)
COUPLINGS = [
    (lambda r: r.cat == 'ABSORPTION' and r.val == 'INST', 'LAGTIME',
     'set_instantaneous_absorption: "Currently lagtime together with instantaneous absorption is not supported."'),
    (lambda r: r.cat == 'ABSORPTION' and r.val == 'SEQ-ZO-FO', 'LAGTIME',
     'set_seq_zo_fo_absorption: "Currently lagtime together with sequential zero order first order absorption is not supported."'),
    (lambda r: r.cat == 'ABSORPTION' and r.val in ('ZO', 'SEQ-ZO-FO', 'INST'), 'TRANSITS',
     'docs/modelsearch.rst "Feature combination exclusions": ABSORPTION(ZO|SEQ-ZO-FO|INST) x TRANSITS "are never run"; '
     'find_transit_compartments: "a chain of compartments ... starting from the dose compartment"'),
    (lambda r: r.cat == 'TRANSITS', 'LAGTIME',
     'docs/modelsearch.rst "Feature combination exclusions": LAGTIME(ON) x TRANSITS; set_transit_compartments "See also add_lag_time"'),
    (lambda r: r.cat == 'TRANSITS', 'ABSORPTION',
     'has_first_order_absorption: "the central compartment having a unidirectional input flow from another compartment (such as depot or '
     'transit)"; set_transit_compartments: keep_depot "False to convert depot compartment into a transit compartment", "The resulting model '
     'cannot be distinguished from first order absorption"'),
    (lambda r: r.cat == 'LAGTIME', 'TRANSITS',
     'docs/modelsearch.rst "Feature combination exclusions": LAGTIME(ON) x TRANSITS'),
    (lambda r: r.cat == 'EXT' and r.val == 'metabolite-psc', 'ABSORPTION',
     'add_metabolite: "If a depot compartment is not present, one will be created."'),
]


class Req:
    __slots__ = ('cat', 'val', 'label', 'fname', 'call', 'idempotent')

    def __init__(self, cat, val, label, fname, call, idempotent=True):
        self.cat, self.val, self.label, self.fname, self.call, self.idempotent = cat, val, label, fname, call, idempotent


FNAME = {
    'ABSORPTION': {'FO': 'set_first_order_absorption', 'ZO': 'set_zero_order_absorption', 'SEQ-ZO-FO': 'set_seq_zo_fo_absorption', 'INST': 'set_instantaneous_absorption'},
    'ELIMINATION': {'FO': 'set_first_order_elimination', 'ZO': 'set_zero_order_elimination', 'MM': 'set_michaelis_menten_elimination', 'MIX-FO-MM': 'set_mixed_mm_fo_elimination'},
    'LAGTIME': {'ON': 'add_lag_time', 'OFF': 'remove_lag_time'},
}


def req_from_key(key, fn):
    """Request for an entry (key, function) of the MFL feature table. What the entry must do is read from the KEY only
    (docs/mfl.rst; tools/mfl/feature/*.py), never from the function object."""
    cat = key[0]
    if cat in ('ABSORPTION', 'ELIMINATION'):
        return Req(cat, key[1], f'{cat}({key[1]})', FNAME[cat].get(key[1], cat), fn)
    if cat == 'LAGTIME':
        return Req(cat, key[1] == 'ON', f'LAGTIME({key[1]})', FNAME[cat].get(key[1], cat), fn)
    if cat == 'TRANSITS':
        # TRANSITS(n, NODEPOT): the depot is turned into a transit compartment -> n + 1 chained compartments
        keep = key[2] == 'DEPOT'
        return Req(cat, (key[1] if keep else key[1] + 1, keep), f'TRANSITS({key[1]},{key[2]})', 'set_transit_compartments', fn)
    if cat == 'PERIPHERALS' and len(key) == 2:
        return Req(cat, ('set', key[1]), f'PERIPHERALS({key[1]})', 'set_peripheral_compartments', fn)
    if cat == 'PERIPHERALS' and key[2] == 'METABOLITE':
        return Req('PERIPHERALS_MET', ('set', key[1]), f'PERIPHERALS({key[1]},MET)', 'set_peripheral_compartments', fn)
    if cat == 'METABOLITE':
        return Req('EXT', 'metabolite-psc' if key[1] == 'PSC' else 'metabolite', f'METABOLITE({key[1]})', 'add_metabolite', fn, idempotent=False)
    return None


@functools.lru_cache(maxsize=None)
def alphabet():
    """category -> list of Req (deterministic order)."""
    import pharmpy.modeling as pm
    from pharmpy.tools.mfl.parse import ModelFeatures

    with warnings.catch_warnings():
        warnings.simplefilter('ignore')
        table = ModelFeatures.create_from_mfl_string(MFL).convert_to_funcs()
    out = {c: [] for c in CATS}
    for key, fn in table.items():
        r = req_from_key(key, fn)
        if r is not None and r.cat in out:
            out[r.cat].append(r)
    for c in CATS[:5]:
        if not out[c]:
            raise HarnessError(f'the MFL feature table has no {c} entry')
    P = functools.partial
    out['PERIPHERALS'].append(Req('PERIPHERALS', ('add', None), 'add_peripheral_compartment', 'add_peripheral_compartment', pm.add_peripheral_compartment, idempotent=False))
    out['PERIPHERALS'].append(Req('PERIPHERALS', ('rm', None), 'remove_peripheral_compartment', 'remove_peripheral_compartment', pm.remove_peripheral_compartment, idempotent=False))
    out['BIO'].append(Req('BIO', True, 'add_bioavailability', 'add_bioavailability', pm.add_bioavailability))
    out['BIO'].append(Req('BIO', False, 'remove_bioavailability', 'remove_bioavailability', pm.remove_bioavailability))
    out['BIO'].append(Req('BIO', True, 'add_bioavailability(logit)', 'add_bioavailability', P(pm.add_bioavailability, logit_transform=True)))
    out['BIO'].append(Req('BIO', False, 'remove_bioavailability', 'remove_bioavailability', pm.remove_bioavailability))
    out['BIO'].append(Req('BIO', True, 'add_bioavailability(no-parameter)', 'add_bioavailability', P(pm.add_bioavailability, add_parameter=False)))
    out['EXT'].append(Req('EXT', 'metabolite', 'add_metabolite', 'add_metabolite', pm.add_metabolite, idempotent=False))
    out['EXT'].append(Req('EXT', 'metabolite-psc', 'add_metabolite(presystemic)', 'add_metabolite', P(pm.add_metabolite, presystemic=True), idempotent=False))
    out['EXT'].append(Req('EXT', 'effect', 'add_effect_compartment(linear)', 'add_effect_compartment', P(pm.add_effect_compartment, expr='linear'), idempotent=False))
    out['EXT'].append(Req('EXT', 'direct', 'set_direct_effect(emax)', 'set_direct_effect', P(pm.set_direct_effect, expr='emax'), idempotent=False))
    out['EXT'].append(Req('EXT', 'indirect', 'add_indirect_effect(linear)', 'add_indirect_effect', P(pm.add_indirect_effect, expr='linear'), idempotent=False))
    out['EXT'].append(Req('EXT', 'effect', 'add_effect_compartment(sigmoid)', 'add_effect_compartment', P(pm.add_effect_compartment, expr='sigmoid'), idempotent=False))
    out['EXT'].append(Req('EXT', 'indirect', 'add_indirect_effect(emax,degradation)', 'add_indirect_effect', P(pm.add_indirect_effect, expr='emax', prod=False), idempotent=False))
    return out


@functools.lru_cache(maxsize=None)
def starts():
    from .. import corpus

    have = set(corpus.names())
    out = [s for s in STARTS if s in have]
    if 'basic_iv' not in out or 'basic_oral' not in out:
        raise HarnessError('basic start models missing from corpus')
    return tuple(out)


def resolve(spec):
    """total interpretation of a spec -> (start name, [Req])"""
    ss = starts()
    try:
        k = int(spec.get('start', 0))
    except (TypeError, ValueError, AttributeError):
        k = 0
    start = ss[k % len(ss)]
    al = alphabet()
    reqs = []
    raw = spec.get('reqs') if isinstance(spec, dict) else None
    for item in (raw or [])[:6]:
        try:
            c, i = int(item[0]), int(item[1])
        except (TypeError, ValueError, IndexError):
            c, i = 0, 0
        lst = al[CATS[c % len(CATS)]]
        reqs.append(lst[i % len(lst)])
    return start, reqs


def _strategy(maxlen):
    # categories drawn uniformly except EXT (index 6) which is rarer. Two thirds of the sequences use every category at
    # most once (the failures live in the cross-category pairs and triples), the rest is free (same category again:
    # idempotence, n -> m changes).
    cat = st.sampled_from([0, 1, 2, 3, 4, 5] * 3 + [6] * 2)
    item = st.tuples(cat, st.integers(0, 11)).map(list)
    distinct = st.lists(item, min_size=1, max_size=maxlen, unique_by=lambda x: x[0])
    free = st.lists(item, min_size=1, max_size=maxlen)
    return st.fixed_dictionaries(
        dict(
            start=st.integers(0, len(STARTS) - 1),
            reqs=st.one_of(distinct, distinct, free),
            pt=st.integers(0, 5),
        )
    )


def _index_of(label):
    al = alphabet()
    for ci, c in enumerate(CATS):
        for i, r in enumerate(al[c]):
            if r.label == label:
                return [ci, i]
    raise HarnessError(f'no request labelled {label}')


def _strategy_dose_attributes(maxlen):
    """Profile "dose attributes": the history first gives the dose a lag time and / or a bioavailability (both in two
    thirds of the cases, either order), optionally after an absorption request, then 1-2 absorption / transit
    requests follow: these must carry the attributes along unless documented otherwise."""
    lag = _index_of('LAGTIME(ON)')
    bios = [_index_of('add_bioavailability'), _index_of('add_bioavailability(logit)')]
    bio = st.sampled_from(bios)
    both = st.tuples(bio, st.booleans()).map(lambda t: [lag, t[0]] if t[1] else [t[0], lag])
    prefix = st.one_of(both, both, bio.map(lambda b: [b]), st.just([lag]))
    absorption = st.tuples(st.just(0), st.integers(0, 3)).map(list)
    transits = st.tuples(st.just(2), st.integers(0, 9)).map(list)
    first = st.one_of(st.just([]), st.just([]), absorption.map(lambda a: [a]))
    tail = st.lists(st.one_of(absorption, absorption, transits), min_size=1, max_size=2)
    return st.fixed_dictionaries(
        dict(
            start=st.integers(0, len(STARTS) - 1),
            reqs=st.tuples(first, prefix, tail).map(lambda t: (t[0] + t[1] + t[2])[:maxlen]),
            pt=st.integers(0, 5),
        )
    )


# ------------------------------------------------------------------------------------------
# detectors

ALLOWED = None  # filled lazily (needs pharmpy)


def allowed():
    global ALLOWED
    if ALLOWED is None:
        from pharmpy.model import ModelError, ModelSyntaxError

        ALLOWED = (ValueError, NotImplementedError, ModelError, ModelSyntaxError)
    return ALLOWED


ABS_FUNCS = [('SEQ-ZO-FO', 'has_seq_zo_fo_absorption'), ('ZO', 'has_zero_order_absorption'), ('FO', 'has_first_order_absorption'), ('INST', 'has_instantaneous_absorption')]
ELIM_FUNCS = [('MIX-FO-MM', 'has_mixed_mm_fo_elimination'), ('ZO', 'has_zero_order_elimination'), ('FO', 'has_first_order_elimination'), ('MM', 'has_michaelis_menten_elimination')]


def detect(model, with_mfl=True):
    """All detectors of a model -> dict. Detector failures: internal error -> Violation
    'detector:<name>:<Type>@frame'; ValueError -> Reject (caught by the caller)."""
    import pharmpy.modeling as pm

    d = {}

    import pharmpy.modeling.odes as po

    def call(name, *a):
        fn = getattr(pm, name, None) or getattr(po, name)  # has_lag_time is not exported by pharmpy.modeling
        return guard(fn, model, *a, allowed=allowed(), clause=f'detector:{name}')

    d['abs_flags'] = {k: bool(call(fn)) for k, fn in ABS_FUNCS}
    d['elim_flags'] = {k: bool(call(fn)) for k, fn in ELIM_FUNCS}
    # exclusive classification in the order used by get_model_features
    d['ABSORPTION'] = next((k for k, _ in ABS_FUNCS if d['abs_flags'][k]), None)
    d['ELIMINATION'] = next((k for k, _ in ELIM_FUNCS if d['elim_flags'][k]), None)
    d['TRANSITS'] = int(call('get_number_of_transit_compartments'))
    d['PERIPHERALS'] = int(call('get_number_of_peripheral_compartments'))
    d['PERIPHERALS_MET'] = None
    if model.statements.ode_system.find_compartment('METABOLITE') is not None:
        d['PERIPHERALS_MET'] = len(guard(model.statements.ode_system.find_peripheral_compartments, 'METABOLITE', allowed=allowed(), clause='detector:find_peripheral_compartments'))
    d['LAGTIME'] = bool(call('has_lag_time'))
    bio = call('get_bioavailability')
    odes = model.statements.ode_system
    dosing = guard(lambda: odes.dosing_compartments[0], allowed=allowed(), clause='detector:dosing_compartments')
    d['BIO'] = False
    d['BIO_syn'] = dosing.name in bio
    if dosing.name in bio:
        # F given by a symbol that is defined as the constant 1 (e.g. add_bioavailability(add_parameter=False) uses
        # BIO = 1, the NONMEM updater writes V3 = 1) is still "no bioavailability" only if its full expression is 1
        full = guard(model.statements.before_odes.full_expression, bio[dosing.name], allowed=allowed(), clause='detector:full_expression')
        d['BIO'] = full != 1
    d['dosing'] = dosing.name
    d['depot'] = guard(odes.find_depot, model.statements, allowed=allowed(), clause='detector:find_depot') is not None
    d['compartments'] = tuple(sorted(odes.compartment_names))
    # administered doses: (admid, amount) over all compartments, and whether every dose compartment reaches central
    doses = []
    for name in odes.compartment_names:
        comp = odes.find_compartment(name)
        for dose in comp.doses:
            doses.append((int(dose.admid), str(dose.amount)))
    d['doses'] = tuple(sorted(doses))
    # lag time / bioavailability on a compartment that receives no dose
    d['orphans'] = tuple(sorted(
        f'{name}:{what}' for name in odes.compartment_names for what, neutral in (('lag_time', 0), ('bioavailability', 1))
        if not odes.find_compartment(name).doses and getattr(odes.find_compartment(name), what) != neutral
    ))
    d['central'] = guard(lambda: odes.central_compartment, allowed=allowed(), clause='detector:central_compartment').name
    d['stranded'] = tuple(sorted(n for n in odes.compartment_names if odes.find_compartment(n).doses and not _reaches(odes, n, d['central'])))
    if with_mfl:
        d['mfl'] = mfl_of(model)
    return d


def _reaches(odes, src, dst):
    seen, todo = {src}, [src]
    while todo:
        cur = todo.pop()
        if cur == dst:
            return True
        for comp, _ in odes.get_compartment_outflows(odes.find_compartment(cur)):
            nm = getattr(comp, 'name', None)
            if nm is not None and nm not in seen:
                seen.add(nm)
                todo.append(nm)
    return False


def mfl_of(model):
    """get_model_features(model) parsed back: dict category -> set of values in the space."""
    import pharmpy.tools.mfl.parse as mp
    from pharmpy.tools.mfl.parse import ModelFeatures, get_model_features

    # The COVARIATE part of the feature string is not part of this property and costs 0.3 s per call on models with
    # covariates (get_covariate_effects): it is switched off for the duration of the call (the structural part does
    # not depend on it) and COVARIATE statements are dropped from the string anyway.
    saved = getattr(mp, 'get_covariate_effects', None)
    with warnings.catch_warnings():
        warnings.simplefilter('ignore')
        try:
            if saved is not None:
                mp.get_covariate_effects = lambda model: {}
            s = guard(get_model_features, model, True, allowed=allowed(), clause='detector:get_model_features')
        finally:
            if saved is not None:
                mp.get_covariate_effects = saved
        s2 = ';'.join(p for p in s.split(';') if not p.startswith('COVARIATE'))
        try:
            mf = ModelFeatures.create_from_mfl_string(s2)
        except Exception as e:  # noqa
            raise Violation('detect:get_model_features:unparseable', observed=s, detail=f'{type(e).__name__}: {str(e)[:200]}')
    return {
        'string': s2,
        'ABSORPTION': {x.name for x in mf.absorption.eval.modes},
        'ELIMINATION': {x.name for x in mf.elimination.eval.modes},
        'TRANSITS': {c for t in mf.transits for c in t.counts},
        'TRANSITS_DEPOT': {x.name for t in mf.transits for x in t.eval.depot},
        'PERIPHERALS': set(mf._extract_peripherals()['DRUG']),
        'LAGTIME': {x.name for x in mf.lagtime.eval.modes},
    }


def check_requested(req, d0, d1, model1):
    """clause 'detect': -> None or Violation"""
    cat, val = req.cat, req.val
    mfl = d1.get('mfl') or _AnyMfl()

    def bad(what, observed, expected):
        return Violation(f'detect:{what}', observed=observed, expected=expected, detail=f'after {req.label}: get_model_features -> {mfl["string"]}')

    if cat == 'ABSORPTION':
        if not d1['abs_flags'][val] or d1['ABSORPTION'] != val:
            return bad(f'ABSORPTION({val})', dict(d1['abs_flags']), val)
        if mfl['ABSORPTION'] != {val}:
            return bad(f'ABSORPTION({val}):mfl', sorted(mfl['ABSORPTION']), val)
    elif cat == 'ELIMINATION':
        want = {k: (k == val) for k, _ in ELIM_FUNCS}
        if d1['elim_flags'] != want:
            return bad(f'ELIMINATION({val})', dict(d1['elim_flags']), val)
        if mfl['ELIMINATION'] != {val}:
            return bad(f'ELIMINATION({val}):mfl', sorted(mfl['ELIMINATION']), val)
    elif cat == 'TRANSITS':
        n, keep = val
        if n == 1 and d1['TRANSITS'] == 0 and d1['depot'] and (not keep or not d0['depot']):
            # find_transit_compartments: "Because one single transit compartment cannot be distinguished from one depot
            # compartment such compartment will be defined to be a depot and not a transit compartment."
            return None
        if d1['TRANSITS'] != n:
            return bad(f'TRANSITS:count:{"DEPOT" if keep else "NODEPOT"}', d1['TRANSITS'], n)
        if mfl['TRANSITS'] != {n}:
            return bad('TRANSITS:mfl', sorted(mfl['TRANSITS']), n)
        if not keep and d1['depot']:
            return bad('TRANSITS:NODEPOT:depot-left', 'depot present', 'no depot (keep_depot=False converts the depot into a transit compartment)')
        if keep and d0['depot'] and not d1['depot']:
            return bad('TRANSITS:DEPOT:depot-lost', 'no depot', 'depot kept')
    elif cat == 'PERIPHERALS':
        kind, n = val
        want = n if kind == 'set' else (d0['PERIPHERALS'] + 1 if kind == 'add' else max(d0['PERIPHERALS'] - 1, 0))
        if d1['PERIPHERALS'] != want:
            return bad(f'PERIPHERALS:{kind}', d1['PERIPHERALS'], want)
        if mfl['PERIPHERALS'] != {want}:
            return bad('PERIPHERALS:mfl', sorted(mfl['PERIPHERALS']), want)
    elif cat == 'PERIPHERALS_MET':
        kind, n = val
        before = d0['PERIPHERALS_MET'] or 0
        want = n if kind == 'set' else (before + 1 if kind == 'add' else max(before - 1, 0))
        if d1['PERIPHERALS_MET'] != want:
            return bad(f'PERIPHERALS_MET:{kind}', d1['PERIPHERALS_MET'], want)
    elif cat == 'LAGTIME':
        if d1['LAGTIME'] != val:
            return bad(f'LAGTIME({"ON" if val else "OFF"})', d1['LAGTIME'], val)
        if mfl['LAGTIME'] != {'ON' if val else 'OFF'}:
            return bad('LAGTIME:mfl', sorted(mfl['LAGTIME']), val)
    elif cat == 'BIO':
        # syntactic detector (get_bioavailability): add_parameter=False gives F = BIO = 1 ("otherwise it will be set to
        # 1"), and a model that already has a bioavailability is left alone
        got = d1['BIO_syn']
        if got != val:
            return bad(f'BIO:{"add" if val else "remove"}', got, val)
    elif cat == 'EXT':
        comps = set(d1['compartments'])
        need = {'metabolite': 'METABOLITE', 'metabolite-psc': 'METABOLITE', 'effect': 'EFFECT', 'indirect': 'RESPONSE'}.get(val)
        if need is not None and need not in comps:
            return bad(f'EXT:{val}', sorted(comps), need)
        if val == 'direct' and model1.statements.find_assignment('E') is None:
            return bad('EXT:direct', 'no assignment of E', 'E')
    return None


class _AnyMfl:
    """stands in for the parsed get_model_features string when it was not computed: every comparison passes"""

    class _Any:
        def __eq__(self, other):
            return True

        def __ne__(self, other):
            return False

    def __getitem__(self, k):
        return 'not computed' if k == 'string' else self._Any()


def coupling_doc(req, cat):
    for pred, c, doc in COUPLINGS:
        if c == cat and pred(req):
            return doc
    return None


# ------------------------------------------------------------------------------------------
# function equivalence


def equiv(ma, mb, pts):
    """None when mb means the same as ma: same parameter / random variable / compartment names and equal
    values (y, ODE right-hand sides, doses, lag, bioavailability) at sample points of ma.
    ('renamed', map, None) when this holds after a one-to-one renaming of the parameters / random variables
    that exist on one side only (a renaming does not change the model function).
    (what, observed(b), expected(a)) otherwise. EvalError (unsupported construct) -> ('unsupported', ...)"""
    import itertools

    pa, pb = list(ma.parameters.names), list(mb.parameters.names)
    ra, rb = list(ma.random_variables.names), list(mb.random_variables.names)
    only_a = [n for n in pa if n not in pb] + [n for n in ra if n not in rb]
    only_b = [n for n in pb if n not in pa] + [n for n in rb if n not in ra]
    oa, ob = ma.statements.ode_system, mb.statements.ode_system
    ca = sorted(oa.compartment_names) if oa is not None else []
    cb = sorted(ob.compartment_names) if ob is not None else []
    if ca != cb:
        return ('compartments', cb, ca)
    if not only_a and not only_b:
        return _equiv_at(ma, mb, pts, {})
    first = ('parameters', sorted(only_b), sorted(only_a))
    npa, npb = sum(1 for n in only_a if n in pa), sum(1 for n in only_b if n in pb)
    if len(only_a) != len(only_b) or npa != npb or len(only_a) > 3:
        return first
    for perm in itertools.permutations(only_b):
        ren = dict(zip(perm, only_a))  # name in b -> name in a
        if any((b in pb) != (a in pa) for b, a in ren.items()):
            continue
        res = _equiv_at(ma, mb, pts, ren)
        if res is None:
            return ('renamed', {b: a for b, a in sorted(ren.items())}, None)
        if res[0] == 'unsupported':
            return res
    return first


def _equiv_at(ma, mb, pts, ren):
    from .. import modeleval as me
    from ..irsem import EvalError

    for k in pts:
        try:
            point = me.sample_point(ma, k)
            va = me.evaluate(ma, point)
            if ren:
                import copy

                pb_ = copy.copy(point)
                pb_.params = dict(point.params)
                pb_.etas = dict(point.etas)
                pb_.eps = dict(point.eps)
                for b, a in ren.items():
                    for dct in (pb_.params, pb_.etas, pb_.eps):
                        if a in dct:
                            dct[b] = dct[a]
                vb = me.evaluate(mb, pb_)
            else:
                vb = me.evaluate(mb, point)
        except EvalError as e:
            return ('unsupported', str(e)[:100], None)
        res = me.compare(va, vb, rtol=1e-9)
        if res is not None:
            what, ob_, ex_ = res
            return (what, _short(ob_), _short(ex_))
    return None


def undefined_names(model, k):
    """what -> missing symbol, for everything the model function needs at a sample point (assignments, ODE right-hand
    sides, lag times, bioavailabilities, doses) that cannot be evaluated because a symbol has no definition."""
    from .. import modeleval as me
    from ..irsem import EvalError

    try:
        return dict(me.evaluate(model, me.sample_point(model, k)).undefined)
    except EvalError:
        return {}


def _ode_str(model):
    odes = model.statements.ode_system
    return '; '.join(f'{eq.lhs} = {eq.rhs}' for eq in odes.eqs)[:400] + ' doses ' + str({n: str(odes.find_compartment(n).doses) for n in odes.compartment_names if odes.find_compartment(n).doses})


def _short(x):
    from ..modeleval import UNDEF

    if x is UNDEF:
        return 'UNDEFINED'
    if isinstance(x, float):
        return x
    return str(x)[:200]


def undo_for(req, d0, d1):
    """The documented inverse request of `req` on a model with detectors d0, or None."""
    al = alphabet()
    cat, val = req.cat, req.val

    def find(c, v):
        return next((r for r in al[c] if r.val == v), None)

    if cat == 'PERIPHERALS':
        kind, n = val
        if d1['PERIPHERALS'] == d0['PERIPHERALS']:
            return None
        if kind == 'add':
            return find('PERIPHERALS', ('rm', None))  # "See also remove_peripheral_compartment"
        if kind == 'set' and d0['PERIPHERALS'] <= 3:
            return find('PERIPHERALS', ('set', d0['PERIPHERALS']))
        return None
    if cat == 'LAGTIME':
        if val and not d0['LAGTIME']:
            return find('LAGTIME', False)  # add_lag_time "See also remove_lag_time"
        return None
    if cat == 'BIO':
        if val and not d0['BIO']:
            return find('BIO', False)  # add_bioavailability "See also remove_bioavailability"
        return None
    if cat == 'TRANSITS':
        n, keep = val
        if d0['TRANSITS'] == 0 and n > 0 and (keep or not d0['depot']):
            return find('TRANSITS', (0, True))
        return None
    if cat == 'ELIMINATION':
        if d0['ELIMINATION'] == 'FO' and val != 'FO':
            return find('ELIMINATION', 'FO')  # set_first_order_elimination handles ZO / MM / MIX explicitly
        return None
    if cat == 'ABSORPTION':
        if d0['ABSORPTION'] in ('INST', 'FO') and val != d0['ABSORPTION'] and d0['TRANSITS'] == 0:
            return find('ABSORPTION', d0['ABSORPTION'])
        return None
    return None


# ------------------------------------------------------------------------------------------
# the oracle


def run_sequence(spec):
    from pharmpy.model import Model

    from .. import corpus

    start, reqs = resolve(spec)
    if not reqs:
        raise Reject('empty sequence')
    try:
        pt = int(spec.get('pt', 0)) % 6
    except (TypeError, ValueError):
        pt = 0
    pts = (pt, pt + 1)
    with warnings.catch_warnings():
        warnings.simplefilter('ignore')
        return _run(start, reqs, pts, corpus.get(start), Model)


def _check_pk_step(req, m, m1, d0, undef0, pts, ctx, classes):
    nev = 0
    try:
        d1 = detect(m1)
    except Reject as r:
        # a detector refusing (ValueError) a model that a setter returned: the feature is not reported
        raise Violation(f'detect:detector-refuses:{req.cat}', observed=r.why, detail=ctx)
    except Violation as v:
        v.detail = f'{ctx}; {v.detail}'
        raise
    nev += 1
    # ---- detect ----------------------------------------------------------------------
    # (detectors are defined for structural PK models: after a metabolite / PD extension only totality and code
    # generation are asserted for further requests)
    v = check_requested(req, d0, d1, m1)
    if v is not None:
        v.detail = f'{ctx}; {v.detail}'
        raise v
    # ---- doses: features concern rate / delay / elimination / distribution, never the administered amount --------
    if d1['doses'] != d0['doses']:
        raise Violation(f'doses-changed:{req.fname}', observed=list(d1['doses']), expected=list(d0['doses']), detail=f'{ctx}: (admid, amount) of all doses; ODE system now {_ode_str(m1)}')
    if d1['stranded'] and not d0['stranded']:
        raise Violation(f'dose-does-not-reach-central:{req.fname}', observed=list(d1['stranded']), expected=[], detail=f'{ctx}: ODE system now {_ode_str(m1)}')
    # lag time and bioavailability belong to dose compartments (add_lag_time: "Add lag time to the dose compartment",
    # add_bioavailability: "for the first dose compartment")
    new_orphans = sorted(set(d1['orphans']) - set(d0['orphans']))
    if new_orphans:
        raise Violation(f'lag-or-bioavailability-without-dose:{req.fname}', observed=new_orphans, expected=[], detail=f'{ctx}: ODE system now {_ode_str(m1)}')
    # ---- well-formed: everything the model function reads has a value -----------------------
    undef1 = undefined_names(m1, pts[0])
    new_undef = sorted(set(undef1) - set(undef0))
    if new_undef:
        raise Violation(
            f'undefined-symbol:{req.fname}', observed={k: undef1[k] for k in new_undef}, expected='every symbol used by the model is defined',
            detail=f'{ctx}: the returned model uses symbols without definition (what -> missing symbol)',
        )
    nev += 1
    # ---- other categories ----------------------------------------------------------------
    # how many of the dose attributes (lag time, bioavailability) the model had before an absorption / transit request
    if req.cat in ('ABSORPTION', 'TRANSITS'):
        have = '+'.join(n for n, c in (('lag', 'LAGTIME'), ('bio', 'BIO')) if d0[c])
        if have:
            changed = 'change' if d0[req.cat] != d1[req.cat] else 'same'
            classes.append(f'{have} then {req.cat.lower()} {changed}')
            classes.append(f'{have} then {req.label}')
    for cat in CATS[:6]:
        if cat == req.cat or d0[cat] == d1[cat]:
            continue
        doc = coupling_doc(req, cat)
        if doc is not None:
            classes.append(f'documented-coupling:{req.label}:{cat}')
        elif cat == 'LAGTIME' and d0['LAGTIME'] and d0['ABSORPTION'] in ('SEQ-ZO-FO', 'INST'):
            # the model is already in a combination documented as not supported (lag time with instantaneous or
            # sequential absorption): what happens to the lag time from there is not specified
            classes.append(f'unsupported-state:lag-with-{d0["ABSORPTION"]}:{req.label}')
        elif cat == 'LAGTIME' and d0['LAGTIME'] and d0['TRANSITS'] != d1['TRANSITS'] and coupling_doc(req, 'TRANSITS') is not None:
            # chain of two documented couplings: the request is documented as not combinable with transit compartments
            # (ZO / SEQ-ZO-FO / INST x TRANSITS) and changed their number, and changing the number of transit
            # compartments replaces the lag time (TRANSITS -> LAGTIME; LAGTIME(ON) x TRANSITS is itself a combination
            # that is "never run")
            classes.append(f'documented-coupling-chain:{req.label}:TRANSITS>LAGTIME')
        elif cat in ('LAGTIME', 'BIO') and GROUP[req.cat] == 'absorption':
            # Lag time and bioavailability are attributes of the dose: a request of the absorption group moves them
            # with the dose (set_zero_order_absorption / set_first_order_absorption / set_transit_compartments do so
            # explicitly) unless its documentation says otherwise (COUPLINGS: INST and SEQ-ZO-FO do not support a lag
            # time, transit compartments replace it). Nothing documents the removal -- or appearance -- of a
            # bioavailability, or of a lag time under ZO / FO / add/remove_bioavailability.
            raise Violation(
                f'dose-attribute-changed:{req.fname}:{cat}', observed=d1[cat], expected=d0[cat],
                detail=f'{ctx}; {cat} of the first dose compartment before: {d0[cat]} ({d0["dosing"]}), after: {d1[cat]} ({d1["dosing"]}); '
                f'ODE system now {_ode_str(m1)}',
            )
        elif GROUP[req.cat] == GROUP[cat] or GROUP[req.cat] == 'ext':
            classes.append(f'undocumented-coupling:{req.label}:{cat}')
        else:
            raise Violation(
                f'other-category-changed:{req.cat}->{cat}', observed=d1[cat], expected=d0[cat],
                detail=f'{ctx}; features before {d0["mfl"]["string"]} after {d1["mfl"]["string"]}',
            )
    return d1, undef1, nev


def _run(start, reqs, pts, m, Model):
    classes = []
    outcomes = []
    evals = 0
    try:
        d0 = detect(m)
    except Reject as r:
        raise HarnessError(f'detectors refuse the start model {start}: {r.why}')
    prev_cat = None
    succeeded = []
    ext_family = None
    undef0 = undefined_names(m, pts[0])
    for req in reqs:
        if req.cat == 'EXT':
            fam = 'metabolite' if req.val.startswith('metabolite') else 'pd'
            if ext_family is not None and (fam != ext_family or fam == 'pd'):
                # the tools extend a PK model by ONE of: a metabolite (structsearch drug_metabolite) or one PD model
                # (structsearch pkpd); other combinations are not reachable through search-space transformations
                outcomes.append(f'{req.label}: skipped (outside domain)')
                classes.append('ext-out-of-domain')
                continue
        # ---- total ---------------------------------------------------------------------
        try:
            m1 = guard(req.call, m, allowed=allowed(), clause=f'not-total:{req.fname}')
        except Violation as v:
            v.detail = f'{start}: {outcomes} then {req.label}; {v.detail}'
            raise
        except Reject as r:
            outcomes.append(f'{req.label}: refused ({r.why[:70]})')
            classes.append(f'refused:{req.cat}')
            classes.append(f'refusal:{req.fname}:{r.why.split(":")[0]}:{_where(r.why)}')
            evals += 1
            continue
        if not isinstance(m1, Model):
            raise Violation(f'not-total:{req.fname}:returned-{type(m1).__name__}', detail=f'{start}: {outcomes} then {req.label}')
        ctx = f'{start}: {[o for o in outcomes]} then {req.label}'
        # after a metabolite / PD extension only totality and code generation are asserted for further requests
        # (the detectors and the feature categories are defined for structural PK models)
        pk_only = ext_family is None
        if pk_only:
            d1, undef1, nev = _check_pk_step(req, m, m1, d0, undef0, pts, ctx, classes)
            evals += nev
        else:
            d1, undef1 = d0, undef0
            classes.append('after-extension:total-only')
        # ---- codegen ---------------------------------------------------------------------------
        try:
            m1u = guard(m1.update_source, allowed=allowed(), clause=f'codegen:update_source:after-{req.fname}')
            code = guard(lambda: m1u.code, allowed=allowed(), clause=f'codegen:code:after-{req.fname}')
            if not isinstance(code, str) or not code.strip():
                raise Violation(f'codegen:empty-code:after-{req.fname}', detail=ctx)
        except Reject as r:
            classes.append(f'codegen-refused:{req.fname}:{r.why[:50]}')
        except Violation as v:
            v.detail = f'{ctx}; {v.detail}'
            raise
        evals += 1
        # ---- idempotence -----------------------------------------------------------------------
        single_transit = req.cat == 'TRANSITS' and req.val[0] == 1 and d1['TRANSITS'] != 1
        if single_transit:
            # find_transit_compartments: "one single transit compartment cannot be distinguished from one depot compartment
            # [and] will be defined to be a depot": asking for 1 transit again then adds a transit in front of that "depot"
            classes.append('idempotence-skipped:single-transit-is-depot')
        if req.idempotent and pk_only and not single_transit:
            try:
                m2 = guard(req.call, m1, allowed=allowed(), clause=f'not-total:{req.fname}')
            except Reject as r:
                classes.append(f'again-refused:{req.label}')
                m2 = None
            except Violation as v:
                v.detail = f'{ctx} then {req.label} again; {v.detail}'
                raise
            if m2 is not None:
                try:
                    d2 = detect(m2, with_mfl=False)
                except Reject as r:
                    raise Violation(f'idempotence:detector-refuses:{req.cat}', observed=r.why, detail=ctx)
                for cat in CATS[:6]:
                    if d2[cat] != d1[cat]:
                        raise Violation(f'idempotence:detectors:{req.label}:{cat}', observed=d2[cat], expected=d1[cat], detail=f'{ctx} then {req.label} again')
                res = equiv(m1, m2, pts)
                evals += 1
                if res is not None:
                    if res[0] == 'unsupported':
                        classes.append('eval-unsupported')
                    elif res[0] == 'renamed':
                        classes.append(f'idempotent-up-to-renaming:{req.label}')
                    else:
                        raise Violation(f'idempotence:function:{req.label}:{_kind(res[0])}', observed=res[1], expected=res[2], detail=f'{ctx} then {req.label} again: {res[0]}')
        # ---- reversibility ------------------------------------------------------------------------
        if start in REV_STARTS and ext_family is None and req.cat != 'EXT':
            u = undo_for(req, d0, d1)
            if u is not None and req.cat == 'ABSORPTION' and start != 'basic_iv':
                # the depot parameters of basic_oral (MAT with IIV) come from create_basic_pk_model, not from a setter:
                # setters never add IIVs, so "restores" is not well defined when a setter removes and re-creates them
                u = None
                classes.append('undo-skipped:absorption-not-from-setter')
            others_same = all(d0[c] == d1[c] for c in CATS[:6] if c != req.cat)
            if u is not None and any(d0[c] and (coupling_doc(req, c) or coupling_doc(u, c)) for c in ('LAGTIME', 'TRANSITS')):
                # request or undo is documented as not combinable with a feature the model has
                others_same = False
            if u is not None and not others_same:
                classes.append('undo-skipped:coupled')
            elif u is not None:
                try:
                    m3 = guard(u.call, m1, allowed=allowed(), clause=f'not-total:{u.fname}')
                except Reject as r:
                    classes.append(f'undo-refused:{req.label}->{u.label}')
                    m3 = None
                except Violation as v:
                    v.detail = f'{ctx} then {u.label}; {v.detail}'
                    raise
                if m3 is not None:
                    try:
                        d3 = detect(m3, with_mfl=False)
                    except Reject as r:
                        raise Violation(f'reversible:detector-refuses:{u.cat}', observed=r.why, detail=f'{ctx} then {u.label}')
                    if any(d3[c] != d0[c] and coupling_doc(u, c) is not None for c in CATS[:6] if c != u.cat):
                        # the undo request has a documented coupling with another category that is in use
                        classes.append('undo-skipped:coupled')
                        m3 = None
                if m3 is not None:
                    res = equiv(m, m3, pts)
                    evals += 1
                    classes.append(f'undo:{req.cat}')
                    if res is not None:
                        if res[0] == 'unsupported':
                            classes.append('eval-unsupported')
                        elif res[0] == 'renamed':
                            classes.append(f'undo-up-to-renaming:{req.label}->{u.label}')
                        else:
                            raise Violation(
                                f'reversible:{req.label}->{u.label}:{_kind(res[0])}', observed=res[1], expected=res[2],
                                detail=f'{ctx} then {u.label} does not restore the model before {req.label}: {res[0]} (observed = after undo, expected = before)',
                            )
        # ---- advance ---------------------------------------------------------------------------------
        outcomes.append(f'{req.label}: ok')
        if prev_cat is not None:
            classes.append(f'pair:{prev_cat}>{req.cat}')
        prev_cat = req.cat
        succeeded.append(req)
        if req.cat == 'EXT':
            ext_family = 'metabolite' if req.val.startswith('metabolite') else 'pd'
        m, d0, undef0 = m1, d1, undef1
    cats = {r.cat for r in succeeded}
    all_ok = len(succeeded) == len(reqs)
    nontrivial = all_ok and len(reqs) >= 2 and len(cats) >= 2
    classes.append(f'start:{start}')
    classes.append(f'len:{len(reqs)}')
    if all_ok:
        classes.append('all-succeeded')
    return CaseInfo(
        nontrivial=nontrivial, classes=tuple(classes), key=start + '|' + '|'.join(r.label for r in reqs),
        render=dict(start=start, steps=outcomes, final=d0['mfl']['string']), evals=max(evals, 1),
    )


def _kind(what):
    # 'ode:rhs:CENTRAL' -> 'ode:rhs', 'y:Y' -> 'y', 'parameters' -> 'parameters'
    parts = what.split(':')
    if parts[0] == 'ode':
        return ':'.join(parts[:2])
    return parts[0]


def _where(why):
    # refusal text 'ValueError: message' -> a short stable tag of the message (first 3 words)
    msg = why.split(':', 1)[1] if ':' in why else why
    words = [w for w in msg.replace('"', ' ').split() if w.isalpha()]
    return '_'.join(words[:4])


# ------------------------------------------------------------------------------------------
# sub-check feature_table: every entry of an MFL feature -> function table applies the feature its key names

TABLE_MFL = [
    'TRANSITS([1,2,4],NODEPOT)',
    'TRANSITS([0,1,3],DEPOT)',
    'TRANSITS([1,3],*)',
    'TRANSITS(0..2,*)',
    'PERIPHERALS(0..2)',
    'PERIPHERALS([1,3])',
    'PERIPHERALS(0..2,MET)',
    'PERIPHERALS(0..2,*)',
    'PERIPHERALS(0..1,[DRUG,MET])',
    'LAGTIME([ON,OFF])',
    'LAGTIME([OFF,ON])',
    'ABSORPTION([FO,ZO,SEQ-ZO-FO,INST])',
    'ABSORPTION([ZO,FO])',
    'ABSORPTION(*)',
    'ELIMINATION([FO,MM,MIX-FO-MM,ZO])',
    'ELIMINATION([ZO,MM])',
    'ELIMINATION(*)',
    'METABOLITE([PSC,BASIC])',
    'METABOLITE(*);PERIPHERALS(0..2,MET)',
    'ABSORPTION([FO,ZO]);ELIMINATION([MM,FO]);TRANSITS([1,2],*);PERIPHERALS(0..2);LAGTIME([OFF,ON])',
    'ABSORPTION([INST,SEQ-ZO-FO]);ELIMINATION([MIX-FO-MM,ZO]);TRANSITS([2,5],[DEPOT,NODEPOT]);PERIPHERALS([2,1]);PERIPHERALS(1..2,MET);METABOLITE([BASIC,PSC])',
]
TABLE_STARTS = ['basic_oral', 'basic_iv', 'mox2', 'pheno']
# how the table is obtained: ModelFeatures.convert_to_funcs(**kwargs)
TABLE_MODES = [
    ('all', {}),
    ('by-attribute', None),  # attribute_type = the categories named in the string
    ('pk', {'subset_features': 'pk'}),
    ('metabolite', {'subset_features': 'metabolite'}),
]
ATTR = {'ABSORPTION': 'absorption', 'ELIMINATION': 'elimination', 'TRANSITS': 'transits', 'PERIPHERALS': 'peripherals', 'LAGTIME': 'lagtime', 'METABOLITE': 'metabolite'}


def enumerate_table(tier):
    for i, text in enumerate(TABLE_MFL):
        for j in range(len(TABLE_STARTS)):
            for k, (mode, _) in enumerate(TABLE_MODES):
                if mode == 'metabolite' and 'MET' not in text:
                    continue
                if tier == 'quick' and (i + j + k) % 2:
                    continue  # half of the grid in the quick tier (every string, start and mode still occurs)
                yield dict(mfl=i, start=j, mode=k, base=0)
                if 'MET' in text and 'PERIPHERALS' in text:
                    yield dict(mfl=i, start=j, mode=k, base=1)


def _single_statement(key):
    cat = key[0]
    if cat == 'TRANSITS':
        return f'TRANSITS({key[1]},{key[2]})'
    if cat == 'PERIPHERALS':
        return f'PERIPHERALS({key[1]})' if len(key) == 2 else f'PERIPHERALS({key[1]},MET)'
    return f'{cat}({key[1]})'


def _signature(d):
    return (d['ABSORPTION'], d['ELIMINATION'], d['TRANSITS'], d['depot'], d['PERIPHERALS'], d['PERIPHERALS_MET'], d['LAGTIME'], d['compartments'])


def run_table(spec):
    import pharmpy.modeling as pm
    from pharmpy.model import Model
    from pharmpy.tools.mfl.parse import ModelFeatures

    from .. import corpus

    text = TABLE_MFL[int(spec.get('mfl', 0)) % len(TABLE_MFL)]
    start = TABLE_STARTS[int(spec.get('start', 0)) % len(TABLE_STARTS)]
    mode, kwargs = TABLE_MODES[int(spec.get('mode', 0)) % len(TABLE_MODES)]
    if kwargs is None:
        kwargs = {'attribute_type': sorted({ATTR[part.split('(')[0]] for part in text.split(';')})}
    classes = [f'mode:{mode}', f'start:{start}']
    evals = 0
    with warnings.catch_warnings():
        warnings.simplefilter('ignore')
        base = corpus.get(start)
        table = guard(lambda: ModelFeatures.create_from_mfl_string(text).convert_to_funcs(**kwargs), allowed=allowed(), clause='feature-table:convert_to_funcs')
        items = list(table.items())
        if not items:
            raise Reject('empty table')
        # start models: PK entries on the corpus model; metabolite-peripheral entries on the model with a metabolite
        # without (base=0) or with one metabolite peripheral (base=1; PK entries are then skipped)
        with_met_peripheral = bool(spec.get('base'))
        bases = {'pk': [] if with_met_peripheral else [('', base)]}
        if any(k[0] == 'PERIPHERALS' and len(k) == 3 for k, _ in items):
            try:
                met = guard(pm.add_metabolite, base, allowed=allowed(), clause='not-total:add_metabolite')
                bases['met'] = [('+metabolite', met)]
                if with_met_peripheral:
                    try:
                        met1 = guard(pm.add_peripheral_compartment, met, 'METABOLITE', allowed=allowed(), clause='not-total:add_peripheral_compartment')
                        bases['met'] = [('+metabolite+1 metabolite peripheral', met1)]
                    except Reject:
                        raise Reject('metabolite peripheral refused')
            except Reject as r:
                if with_met_peripheral:
                    raise
                classes.append('metabolite-refused')
        rendered = []
        for key, fn in items:
            req = req_from_key(key, fn)
            if req is None:
                classes.append(f'unchecked-key:{key[0]}')
                continue
            single_text = _single_statement(key)
            single_table = guard(lambda: ModelFeatures.create_from_mfl_string(single_text).convert_to_funcs(), allowed=allowed(), clause='feature-table:convert_to_funcs')
            if key not in single_table:
                raise Violation(f'feature-table:key-missing:{key[0]}', observed=[str(k) for k in single_table], expected=str(key), detail=f'table of {single_text}')
            ref_fn = single_table[key]
            for tag, m0 in bases['met' if req.cat == 'PERIPHERALS_MET' else 'pk'] if (req.cat != 'PERIPHERALS_MET' or 'met' in bases) else []:
                ctx = f'{start}{tag}: entry {key} of the table of {text} (convert_to_funcs {kwargs})'
                d0 = detect(m0, with_mfl=False)
                outcome = []
                for which, f in (('table', fn), ('single', ref_fn)):
                    try:
                        m1 = guard(f, m0, allowed=allowed(), clause=f'not-total:{req.fname}')
                    except Violation as v:
                        v.detail = f'{ctx}; {v.detail}'
                        raise
                    except Reject as r:
                        outcome.append(('refused', r.why[:80]))
                        continue
                    if not isinstance(m1, Model):
                        raise Violation(f'not-total:{req.fname}:returned-{type(m1).__name__}', detail=ctx)
                    try:
                        d1 = detect(m1, with_mfl=False)
                    except Reject as r:
                        raise Violation(f'detect:detector-refuses:{req.cat}', observed=r.why, detail=ctx)
                    outcome.append(('model', _signature(d1), d1, m1))
                evals += 1
                t, sres = outcome
                if t[0] != sres[0] or t[1] != sres[1]:
                    raise Violation(
                        f'feature-table:entry-differs-from-single-request:{key[0]}', observed=[str(x) for x in t[:2]], expected=[str(x) for x in sres[:2]],
                        detail=f'{ctx}: the function stored under the key does something else than the function of the one-entry table of {single_text} '
                        '(observed = table entry, expected = single request; refusal or absorption, elimination, transits, depot, peripherals, metabolite peripherals, lag time, compartments)',
                    )
                if t[0] == 'refused':
                    classes.append(f'refused:{key[0]}')
                    rendered.append(f'{key}{tag}: refused')
                    continue
                d1, m1 = t[2], t[3]
                v = check_requested(req, d0, d1, m1)
                if v is not None:
                    v.clause = 'feature-table:' + v.clause
                    v.detail = f'{ctx}; {v.detail}'
                    raise v
                # the other count of the pair (drug / metabolite peripherals) is untouched
                other = 'PERIPHERALS' if req.cat == 'PERIPHERALS_MET' else ('PERIPHERALS_MET' if req.cat == 'PERIPHERALS' else None)
                if other and d0[other] != d1[other]:
                    raise Violation(f'feature-table:other-category-changed:{req.cat}->{other}', observed=d1[other], expected=d0[other], detail=ctx)
                classes.append(f'entry:{key[0]}' + (':MET' if req.cat == 'PERIPHERALS_MET' else ''))
                rendered.append(f'{key}{tag}: ok')
    ncounts = {}
    for k, _ in items:
        ncounts[k[0]] = ncounts.get(k[0], 0) + 1
    return CaseInfo(nontrivial=any(v >= 2 for v in ncounts.values()) and evals >= 2, classes=tuple(classes), render=dict(mfl=text, start=start, mode=mode, entries=rendered), evals=max(evals, 1))


# ------------------------------------------------------------------------------------------
# sub-check metabolite_peripherals: PERIPHERALS(n) / PERIPHERALS(n,MET) requests on drug-metabolite models

MET_STARTS = ['basic_oral', 'basic_iv', 'mox2', 'pheno']


def _met_requests():
    import pharmpy.modeling as pm

    P = functools.partial
    out = []
    for who, name in (('drug', None), ('met', 'METABOLITE')):
        cat = 'PERIPHERALS' if name is None else 'PERIPHERALS_MET'
        sfx = '' if name is None else ',MET'
        for n in (0, 1, 2):
            out.append(Req(cat, ('set', n), f'PERIPHERALS({n}{sfx})', 'set_peripheral_compartments', P(pm.set_peripheral_compartments, n=n, name=name)))
        out.append(Req(cat, ('add', None), f'add_peripheral_compartment({name or ""})', 'add_peripheral_compartment', P(pm.add_peripheral_compartment, name=name), idempotent=False))
        out.append(Req(cat, ('rm', None), f'remove_peripheral_compartment({name or ""})', 'remove_peripheral_compartment', P(pm.remove_peripheral_compartment, name=name), idempotent=False))
    return out


def _strategy_met():
    return st.fixed_dictionaries(
        dict(
            start=st.integers(0, len(MET_STARTS) - 1),
            psc=st.booleans(),
            drug_first=st.integers(0, 2),
            reqs=st.lists(st.integers(0, 9), min_size=1, max_size=4),
            pt=st.integers(0, 5),
        )
    )


def _unused_parameters(model):
    used = set()
    for s_ in model.statements:
        used |= {str(x) for x in s_.free_symbols}
    used |= set(model.random_variables.parameter_names)
    return {p for p in model.parameters.names if p not in used}


def run_met(spec):
    import pharmpy.modeling as pm
    from pharmpy.model import Model

    from .. import corpus

    start = MET_STARTS[int(spec.get('start', 0)) % len(MET_STARTS)]
    psc = bool(spec.get('psc'))
    drug_first = int(spec.get('drug_first', 0)) % 3
    table = _met_requests()
    reqs = [table[int(i) % len(table)] for i in (spec.get('reqs') or [])[:6]]
    if not reqs:
        raise Reject('empty sequence')
    pt = int(spec.get('pt', 0)) % 6
    pts = (pt, pt + 1)
    classes = [f'start:{start}', f'drug-peripherals-first:{drug_first}', 'presystemic' if psc else 'basic']
    outcomes = []
    evals = 0
    with warnings.catch_warnings():
        warnings.simplefilter('ignore')
        m = corpus.get(start)
        # the history up to the metabolite is checked by the sub-check `sequences`: refusals / errors here are rejections
        m = guard(pm.set_peripheral_compartments, m, drug_first, allowed=allowed(), clause='setup', internal_is_violation=False)
        m = guard(pm.add_metabolite, m, presystemic=psc, allowed=allowed(), clause='setup', internal_is_violation=False)
        try:
            d0 = detect(m, with_mfl=False)
        except (Reject, Violation) as e:
            raise Reject(f'detectors on the metabolite model: {e}')
        undef0 = undefined_names(m, pts[0])
        unused0 = _unused_parameters(m)
        ok = []
        for req in reqs:
            ctx = f'{start}, {drug_first} drug peripherals, add_metabolite(presystemic={psc}): {outcomes} then {req.label}'
            try:
                m1 = guard(req.call, m, allowed=allowed(), clause=f'not-total:{req.fname}')
            except Violation as v:
                v.detail = f'{ctx}; {v.detail}'
                raise
            except Reject as r:
                outcomes.append(f'{req.label}: refused ({r.why[:60]})')
                classes.append(f'refusal:{req.label}:{_where(r.why)}')
                evals += 1
                continue
            if not isinstance(m1, Model):
                raise Violation(f'not-total:{req.fname}:returned-{type(m1).__name__}', detail=ctx)
            try:
                d1 = detect(m1, with_mfl=False)
            except Reject as r:
                raise Violation(f'detect:detector-refuses:{req.cat}', observed=r.why, detail=ctx)
            except Violation as v:
                v.detail = f'{ctx}; {v.detail}'
                raise
            evals += 1
            # situation marker in the clauses of metabolite requests: does the drug have as many peripherals as the
            # metabolite before the request (sit) / after it, i.e. when the request is repeated or undone (sit2)
            who = 'drug'
            who2 = 'drug'
            if req.cat == 'PERIPHERALS_MET':
                who = 'met:drug-count-' + ('equal' if d0['PERIPHERALS'] == (d0['PERIPHERALS_MET'] or 0) else 'unequal')
                who2 = 'met:drug-count-' + ('equal' if d1['PERIPHERALS'] == (d1['PERIPHERALS_MET'] or 0) else 'unequal')
            v = check_requested(req, d0, d1, m1)
            if v is not None:
                v.clause = f'{v.clause}:{who}'
                v.detail = f'{ctx}; compartments {list(d1["compartments"])}; {v.detail}'
                raise v
            for cat in ('PERIPHERALS', 'PERIPHERALS_MET', 'ABSORPTION', 'ELIMINATION', 'TRANSITS', 'LAGTIME', 'BIO'):
                if cat != req.cat and d0[cat] != d1[cat]:
                    raise Violation(f'other-category-changed:{req.cat}->{cat}', observed=d1[cat], expected=d0[cat], detail=f'{ctx}; compartments {list(d1["compartments"])}')
            if d1['doses'] != d0['doses']:
                raise Violation(f'doses-changed:{req.fname}', observed=list(d1['doses']), expected=list(d0['doses']), detail=ctx)
            undef1 = undefined_names(m1, pts[0])
            new_undef = sorted(set(undef1) - set(undef0))
            if new_undef:
                raise Violation(f'undefined-symbol:{req.fname}', observed={k: undef1[k] for k in new_undef}, expected='every symbol used by the model is defined', detail=ctx)
            unused1 = _unused_parameters(m1)
            if unused1 - unused0:
                raise Violation(f'unused-parameter:{req.fname}', observed=sorted(unused1 - unused0), expected=[], detail=f'{ctx}: parameters that no statement and no random variable uses; compartments {list(d1["compartments"])}')
            # idempotence of set n
            if req.idempotent:
                try:
                    m2 = guard(req.call, m1, allowed=allowed(), clause=f'not-total:{req.fname}')
                except Reject:
                    classes.append(f'again-refused:{req.label}')
                    m2 = None
                except Violation as v:
                    v.detail = f'{ctx} then {req.label} again; {v.detail}'
                    raise
                if m2 is not None:
                    res = equiv(m1, m2, pts)
                    evals += 1
                    if res is not None and res[0] not in ('unsupported', 'renamed'):
                        raise Violation(f'idempotence:function:{who2}:{req.label}:{_kind(res[0])}', observed=res[1], expected=res[2], detail=f'{ctx} then {req.label} again: {res[0]}')
            # reversibility: set n -> set n0, add -> remove (documented inverse pairs, "See also")
            before = d0[req.cat] or 0
            after = d1[req.cat] or 0
            u = None
            if after != before and start in REV_STARTS:
                kind = req.val[0]
                if kind == 'add':
                    u = next(r for r in table if r.cat == req.cat and r.val == ('rm', None))
                elif kind == 'set' and before <= 2:
                    u = next(r for r in table if r.cat == req.cat and r.val == ('set', before))
            if u is not None:
                try:
                    m3 = guard(u.call, m1, allowed=allowed(), clause=f'not-total:{u.fname}')
                except Reject:
                    classes.append(f'undo-refused:{req.label}->{u.label}')
                    m3 = None
                except Violation as v:
                    v.detail = f'{ctx} then {u.label}; {v.detail}'
                    raise
                if m3 is not None:
                    res = equiv(m, m3, pts)
                    evals += 1
                    classes.append(f'undo:{req.cat}')
                    if res is not None and res[0] == 'renamed':
                        classes.append('undo-up-to-renaming')
                    elif res is not None and res[0] != 'unsupported':
                        raise Violation(
                            f'reversible:{who2}:{req.label}->{u.label}:{_kind(res[0])}', observed=res[1], expected=res[2],
                            detail=f'{ctx} then {u.label} does not restore the model before {req.label}: {res[0]} (observed = after undo, expected = before)',
                        )
            # codegen
            try:
                m1u = guard(m1.update_source, allowed=allowed(), clause=f'codegen:update_source:after-{req.fname}')
                guard(lambda: m1u.code, allowed=allowed(), clause=f'codegen:code:after-{req.fname}')
            except Reject as r:
                classes.append(f'codegen-refused:{req.fname}:{r.why[:50]}')
            except Violation as v:
                v.detail = f'{ctx}; {v.detail}'
                raise
            outcomes.append(f'{req.label}: ok')
            classes.append(f'counts:drug={d1["PERIPHERALS"]},met={d1["PERIPHERALS_MET"]}')
            ok.append(req)
            m, d0, undef0, unused0 = m1, d1, undef1, unused1
    both = {r.cat for r in ok}
    return CaseInfo(
        nontrivial=len(ok) == len(reqs) and len(reqs) >= 2 and len(both) == 2, classes=tuple(classes),
        key=f'{start}|{psc}|{drug_first}|' + '|'.join(r.label for r in reqs),
        render=dict(start=start, presystemic=psc, drug_peripherals_first=drug_first, steps=outcomes), evals=max(evals, 1),
    )


# ------------------------------------------------------------------------------------------
# known-findings predicates (on the spec)


def _labels(spec):
    return [r.label for r in resolve(spec)[1]]


def _has_label_prefix(prefix):
    return lambda spec: any(lab.startswith(prefix) for lab in _labels(spec))


def _nonmem_nonlinear_elimination_back_to_fo(spec):
    """NONMEM start model with a peripheral compartment (from the start or requested), elimination set to ZO / MM /
    MIX-FO-MM and later back to FO"""
    start, reqs = resolve(spec)
    if start in REV_STARTS:
        return False
    nonlinear_at = None
    for i, r in enumerate(reqs):
        if r.cat == 'ELIMINATION' and r.val != 'FO' and nonlinear_at is None:
            nonlinear_at = i
        if r.cat == 'ELIMINATION' and r.val == 'FO' and nonlinear_at is not None:
            periph = start in ('pheno_advan3', 'mox_2comp') or any(
                q.cat == 'PERIPHERALS' and q.val not in (('set', 0), ('rm', None)) for q in reqs[:i]
            )
            if periph:
                return True
    return False


def _inst_after_seq(spec):
    _, reqs = resolve(spec)
    seen = False
    for r in reqs:
        if r.cat == 'ABSORPTION' and r.val == 'SEQ-ZO-FO':
            seen = True
        if seen and r.cat == 'ABSORPTION' and r.val == 'INST':
            return True
    return False


def _transits_after_zero_order_input(spec):
    """a TRANSITS request after ABSORPTION(ZO) / ABSORPTION(SEQ-ZO-FO): combinations that docs/modelsearch.rst lists
    as never run by the stepwise algorithms"""
    _, reqs = resolve(spec)
    seen = False
    for r in reqs:
        if r.cat == 'ABSORPTION' and r.val in ('ZO', 'SEQ-ZO-FO'):
            seen = True
        if seen and r.cat == 'TRANSITS':
            return True
    return False


def _inst_after_lag(spec):
    _, reqs = resolve(spec)
    seen_lag = False
    for r in reqs:
        if r.cat == 'LAGTIME' and r.val:
            seen_lag = True
        if seen_lag and r.cat == 'ABSORPTION' and r.val == 'INST':
            return True
    return False


def _met_labels(spec):
    t = _met_requests()
    return [t[int(i) % len(t)].label for i in (spec.get('reqs') or [])[:6]]


def _nonmem_start_repeated_transits(spec):
    start, reqs = resolve(spec)
    return start not in REV_STARTS and sum(1 for r in reqs if r.cat == 'TRANSITS') >= 2


KNOWN_PREDICATES = {
    'nonmem_start_repeated_transits': _nonmem_start_repeated_transits,
    'table_base_has_metabolite_peripheral': lambda spec: bool(spec.get('base')),
    'met_set_request': lambda spec: any(lab.startswith('PERIPHERALS(') and lab.endswith(',MET)') for lab in _met_labels(spec)),
    'drug_peripheral_request': lambda spec: any(lab in ('PERIPHERALS(0)', 'PERIPHERALS(1)', 'PERIPHERALS(2)', 'add_peripheral_compartment()', 'remove_peripheral_compartment()') for lab in _met_labels(spec)),
    'nonmem_nonlinear_elimination_back_to_fo': _nonmem_nonlinear_elimination_back_to_fo,
    'inst_after_lag': _inst_after_lag,
    'inst_after_seq': _inst_after_seq,
    'transits_after_zero_order_input': _transits_after_zero_order_input,
    'has_inst_request': _has_label_prefix('ABSORPTION(INST)'),
    'has_lag_request': _has_label_prefix('LAGTIME(ON)'),
    'has_bio_request': _has_label_prefix('add_bioavailability'),
    'has_transits_request': _has_label_prefix('TRANSITS('),
    'has_metabolite_request': _has_label_prefix('add_metabolite'),
    'has_pd_request': lambda spec: any(r.cat == 'EXT' and not r.label.startswith('add_metabolite') for r in resolve(spec)[1]),
    'start_has_rate_constants': lambda spec: resolve(spec)[0] in ('pheno_advan3', 'mox_2comp'),
}


# ------------------------------------------------------------------------------------------
# oracle self-check


def selfcheck():
    """Tests of the check's own reference code only (the equivalence oracle and the total spec interpretation).
    Everything that exercises pharmpy's feature tables, setters or detectors lives in the sub-checks."""
    from .. import corpus

    with warnings.catch_warnings():
        warnings.simplefilter('ignore')
        try:
            iv, oral = corpus.get('basic_iv'), corpus.get('basic_oral')
            from pharmpy.basic import Expr
            from pharmpy.model import CompartmentalSystem, CompartmentalSystemBuilder, output

            odes = oral.statements.ode_system
            cb = CompartmentalSystemBuilder(odes)
            central = odes.central_compartment
            cb.add_flow(central, output, odes.get_flow(central, output) * Expr.integer(2))
            twice = oral.replace(statements=oral.statements.before_odes + CompartmentalSystem(cb) + oral.statements.after_odes)
        except Exception:  # noqa
            return  # the fixtures could not be built with this tree: nothing to say about the reference code
        try:
            r0, r1, r2 = equiv(oral, oral, (0, 1)), equiv(oral, iv, (0, 1)), equiv(oral, twice, (0, 1))
        except Exception as e:  # noqa
            from ..core import innermost_pharmpy_frame

            if innermost_pharmpy_frame(e) != 'outside-pharmpy':
                return
            raise
        if r0 is not None:
            raise HarnessError(f'equiv not reflexive: {r0}')
        if r1 is None:
            raise HarnessError('equiv blind to different compartments / parameters')
        if r2 is None or not r2[0].startswith('ode:rhs'):
            raise HarnessError(f'equiv blind to a changed elimination rate: {r2}')
    for bad in ({}, {'start': 'x', 'reqs': [[1]], 'pt': None}, {'reqs': None}):
        try:
            resolve(bad)
        except HarnessError:
            raise
        except Exception as e:  # noqa
            from ..core import innermost_pharmpy_frame

            if innermost_pharmpy_frame(e) == 'outside-pharmpy':
                raise HarnessError(f'spec interpretation is not total: {bad}: {e!r}')


SUBCHECKS = [
    SubCheck('sequences', lambda: _strategy(4), run_sequence, quick=2000, thorough=6000),
    # lag time / bioavailability first, then absorption and transit requests
    SubCheck('dose_attributes', lambda: _strategy_dose_attributes(5), run_sequence, quick=640, thorough=2000),
    # longer histories only in the thorough tier
    SubCheck('sequences6', lambda: _strategy(6), run_sequence, quick=0, thorough=6000),
    # every entry of MFL feature tables built from statements with several values (enumerated grid)
    SubCheck('feature_table', None, run_table, quick=0, thorough=0, enumerate=enumerate_table),
    # drug / metabolite peripherals on drug-metabolite models
    SubCheck('metabolite_peripherals', _strategy_met, run_met, quick=320, thorough=1500),
]
